#include <fcppt/container/bitfield/object.hpp>
#include <fcppt/container/bitfield/operators.hpp>
#include <fcppt/container/bitfield/comparison.hpp>
#include <iostream>
enum class e { a, b, c, fcppt_maximum = c };
int main()
{
  using field = fcppt::container::bitfield::object<e>;
  field const all{e::a, e::b, e::c};
  field const complement_of_empty{~field::null()};
  bool const eq{complement_of_empty == all};
  std::cout << "~{} == {a,b,c}: " << eq << " (expected 1)\n";
  return eq ? 0 : 1;
}
