// Positive control for the zero-expected rules M1, M2, M4 (never linked or run).
#include <string>
#include <utility>
namespace verif_positive
{
void sink(std::string &&);
std::size_t use_after_move(std::string _s)
{
  sink(std::move(_s));
  return _s.size(); // M1 must fire here
}
template <typename T>
void steal(T &&_arg)
{
  sink(std::move(_arg)); // M2 must fire here
}
void inst() { std::string s; steal(s); }
void cast_away(std::string const &_s) { const_cast<std::string &>(_s).clear(); } // M4 pattern
}
