"""C06, quotient clauses: div, mod, ceil_div, ceil_div_signed decided over the sign regions of the divisor and of the truncated
remainder (finite domain; the C++ facts x = (x / y) * y + x % y, |x % y| < |y|, sign(x % y) in {0, sign x} are trusted).

 QUOT   a zero divisor yields nothing; otherwise div is some(x / y), mod is some(x % y), ceil_div is some(x / y + [x % y != 0]) and
        ceil_div_signed is some(x / y + 1) exactly when the remainder is non-zero and has the sign of the divisor (the exact quotient
        is then positive and truncation rounded it down), some(x / y) otherwise
"""
from engine import facts as F
from engine import sx


def rules(rep, db):
    rep.rule("QUOT", "div / mod / ceil_div / ceil_div_signed over the sign regions of divisor and remainder", floor=8)
    cfg = sx.Config(inline_prefixes=("fcppt::optional::make_if", "fcppt::literal", "fcppt::math::"), loop_bound=2)
    for name, kind in (("fcppt::math::div", "div"), ("fcppt::math::mod", "mod"), ("fcppt::math::ceil_div", "ceil"), ("fcppt::math::ceil_div_signed", "ceils")):
        seen = set()
        for fn in db.fns(name):
            ta = tuple(fn.get("targs") or [])
            if ta in seen or len(fn["params"]) != 2:
                continue
            seen.add(ta)
            key = "%s<%s>" % (name.split("::")[-1], ",".join(ta))
            x, y = ("sym", fn["params"][0]["name"]), ("sym", fn["params"][1]["name"])
            Q, R = ("op", "/", x, y), ("op", "%", x, y)
            signed = kind == "ceils" or (kind in ("div", "mod") and not any(t.startswith("unsigned") for t in ta))
            regions = [(sy, sr) for sy in ((-1, 0, 1) if signed else (0, 1)) for sr in ((-1, 0, 1) if signed else (0, 1))]
            why = None
            try:
                for sy, sr in regions:
                    def sign_of(t):
                        if t == y:
                            return sy
                        if t == R:
                            return sr
                        if isinstance(t, tuple) and t and t[0] == "k":
                            try:
                                v = int(str(t[1]).rstrip("uUlL"))
                                return (v > 0) - (v < 0)
                            except (TypeError, ValueError):
                                return None
                        return None

                    def truth(a):
                        """value of a boolean term in this region, or None"""
                        if isinstance(a, tuple) and a and a[0] == "cmp":
                            if isinstance(a[2], tuple) and a[2] and a[2][0] in ("cmp", "not") or isinstance(a[3], tuple) and a[3] and a[3][0] in ("cmp", "not"):
                                l, r = truth(a[2]), truth(a[3])
                                if l is None or r is None or a[1] not in ("==", "!="):
                                    return None
                                return (l == r) if a[1] == "==" else (l != r)
                            l, r = sign_of(a[2]), sign_of(a[3])
                            if l is None or r is None:
                                return None
                            # comparisons of y or the remainder with the constant 0 only
                            if not ((isinstance(a[3], tuple) and a[3][0] == "k" and r == 0) or (isinstance(a[2], tuple) and a[2][0] == "k" and l == 0)):
                                return None
                            d = l - r
                            return {"==": d == 0, "!=": d != 0, "<": d < 0, "<=": d <= 0, ">": d > 0, ">=": d >= 0}[a[1]]
                        if isinstance(a, tuple) and a and a[0] == "not":
                            v = truth(a[1])
                            return None if v is None else not v
                        s = sign_of(a)
                        return None if s is None else s != 0       # an integer used as a condition

                    it = sx.Interp(db, cfg, oracle=lambda i, a: truth(a))
                    out, path = it.run_function(fn)
                    if out[0] != "return":
                        raise sx.Unsupported("outcome %s" % out[0])
                    v = out[1]
                    some = isinstance(v, tuple) and v and v[0] == "new" and v[2] == "some"
                    none = isinstance(v, tuple) and v and v[0] == "new" and v[2] == "none"
                    if sy == 0:
                        if not none:
                            why = "a zero divisor yields %s" % sx.show(v)
                        continue
                    if not some:
                        why = "a non-zero divisor yields %s" % sx.show(v)
                        break
                    got = strip0(v[3][0])
                    if kind == "div":
                        want = [Q]
                    elif kind == "mod":
                        want = [R]
                    else:
                        up = sr != 0 and (sr == sy)
                        want = [("op", "+", Q, ("k", "1"))] if up else [Q]
                    if got not in want:
                        why = "for a %s divisor and a %s remainder the result is %s, expected %s" % (
                            {-1: "negative", 1: "positive"}[sy], {-1: "negative", 0: "zero", 1: "positive"}[sr], sx.show(got), sx.show(want[0]))
                        break
            except sx.Unsupported as e:
                rep.broken("C06 QUOT %s: %s" % (key, e))
                continue
            (rep.fail if why else rep.ok)("QUOT", key, F.primary_site(fn), F.describe(fn)[:160], **({"why": why} if why else {"how": "%d regions" % len(regions)}))


def strip0(t):
    """x + 0 -> x, casts dropped"""
    while isinstance(t, tuple) and t:
        if t[0] == "cast":
            t = t[2]
        elif t[0] == "op" and t[1] == "+" and t[3] == ("k", "0"):
            t = t[2]
        else:
            break
    return t
