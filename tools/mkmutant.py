#!/usr/bin/env python3
"""mkmutant.py <id> <props,comma> <repo-relative file> <old text> <new text> <what> [expect-substring]
Creates selftest/mutants/<id>/{patch.diff,meta.json} replacing the (unique) old text by new text."""
import difflib
import json
import os
import sys
VERIF = os.path.dirname(os.path.dirname(os.path.abspath(__file__)))
mid, props, rel, old, new, what = sys.argv[1:7]
expect = sys.argv[7] if len(sys.argv) > 7 else None
src = open(os.path.join("/repo", rel)).read()
old = old.encode().decode("unicode_escape")
new = new.encode().decode("unicode_escape")
if src.count(old) != 1:
    sys.exit("old text occurs %d times in %s" % (src.count(old), rel))
dst = src.replace(old, new)
diff = "".join(difflib.unified_diff(src.splitlines(True), dst.splitlines(True), "a/" + rel, "b/" + rel))
d = os.path.join(VERIF, "selftest", "mutants", mid)
os.makedirs(d, exist_ok=True)
open(os.path.join(d, "patch.diff"), "w").write(diff)
meta = {"property": props.split(",")[0], "detected_by": props.split(","), "what": what}
if expect:
    meta["expect_substring"] = expect
json.dump(meta, open(os.path.join(d, "meta.json"), "w"), indent=1)
print("wrote", d)
