// Conventions for instantiation drivers (DESIGN.md §3). A driver is DATA for the analyser:
// it is parsed by the fact extractor and never linked or run. It only forces template
// instantiations of fcppt code with arguments whose values are unknown.
#ifndef VERIF_DRIVERS_DRV_HPP
#define VERIF_DRIVERS_DRV_HPP

#include <cstdint>

namespace drv
{
// value sources: declared, never defined => opaque to every analysis
template <typename T>
T make(); // prvalue
template <typename T>
T &lv(); // lvalue
template <typename T>
T const &clv(); // const lvalue

// opaque functor: declared-only call operator, so a call is a named event without a body
template <typename Sig>
struct fn;
template <typename R, typename... A>
struct fn<R(A...)>
{
  R operator()(A...) const;
};
}

// a driver entry point: never called, only instantiates
#define DRV(name) [[maybe_unused]] void name()

// the integer registry
#define DRV_FOR_UNSIGNED(M) M(std::uint8_t) M(std::uint16_t) M(std::uint32_t) M(std::uint64_t)
#define DRV_FOR_SIGNED(M) M(std::int8_t) M(std::int16_t) M(std::int32_t) M(std::int64_t)
#define DRV_FOR_INTEGERS(M) DRV_FOR_UNSIGNED(M) DRV_FOR_SIGNED(M)

#endif
