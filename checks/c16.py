"""C16 Algorithm and container helpers equal their straightforward reference -- the VISIT-ORDER / STOP / RESULT-STRUCTURE clause.

Decided (engine S over instantiations with OPAQUE functors, every run-time range unrolled twice, longer ranges as a
truncated prefix):
 VISIT   loop-implemented helpers call their function on the elements in iteration order, each element once, thread the
         accumulator / stop at the documented point, and build the result from the calls' results in order:
           fold, fold_break, loop, loop_break, all_of, contains_if, map, map_optional, map_concat
 WRAP    thin wrappers over std algorithms call the std algorithm once over [begin(range), end(range)) of their own
         range with their own predicate / value and convert the result as documented:
           find_opt / find_if_opt (nothing iff the result is end), index_of (result - begin), contains
           (result != end), remove_if (erase [result, end), report whether anything was removed)
Not decided: that a std algorithm itself is correct (trusted); static ranges (tuples, mpl lists: covered per element by
C04/C05); binary_search / equal_range / unique / reverse / split_string / join_strings / set operations / array and tuple
helpers (no rule yet -- they are listed in the evidence as not covered); values computed by the functors.
The lift from "ranges of length 0, 1, 2 and prefixes" to every length is the uniformity of the loop body in the index.
"""
import re

from engine import facts as F
from engine import load
from engine import sx
from engine import terms as T

LEVEL = "other"
A = "fcppt::algorithm::"
INLINE = ("fcppt::algorithm::", "fcppt::optional::", "fcppt::loop::", "fcppt::cond", "fcppt::const_", "fcppt::detail::const_",
          "fcppt::range::", "fcppt::container::", "fcppt::move_if_rvalue", "fcppt::move_iterator_if_rvalue", "fcppt::not_",
          "fcppt::detail::move_iterator_if_rvalue", "fcppt::detail::move_if")


class Bad(Exception):
    pass


def calls_of(p, f):
    return [(i, e) for i, e in enumerate(p.events, 1) if e[0] == "call" and e[1] and sx.show(e[1][0]) == f]


def n_elems(p, r):
    return len([1 for a, b in p.decisions if re.match(r"^more\(%s, \d+\)$" % re.escape(r), sx.show(a)) and b])


def dec(p):
    return {sx.show(a): b for a, b in p.decisions}


def inserted(p):
    """[arguments of every insertion into a std container, without the container and without a position argument]"""
    evs = {i: e for i, e in enumerate(p.events, 1)}
    out = []
    for i, e in enumerate(p.events, 1):
        nm = e[0].split("<")[0]
        if nm.split("::")[-1] in ("insert", "push_back", "emplace_back", "emplace") and nm.startswith("std::"):
            args = [sx.show(a) for a in e[1]]
            rest = args[1:]
            if nm.endswith("::insert") and len(rest) >= 2:
                m = re.match(r"^(?:[\w:]+\{)?#(\d+):c?(end|begin)\}?$", rest[0])
                if m and sx.show(evs[int(m.group(1))][1][0]) == args[0]:
                    # a position in the result container itself
                    seq = not any(x in nm for x in ("std::set", "std::map", "std::multiset", "std::multimap", "std::unordered"))
                    if seq and m.group(2) != "end":
                        raise Bad("an element is inserted at %s, not at the end" % rest[0])
                    rest = rest[1:]
            out.append(rest)
    return out


def elem(r, k):
    return "%s[%d]" % (r, k)


def is_elem(txt, r, k):
    """the k-th element of the range, possibly moved out of an rvalue range"""
    return txt in (elem(r, k), "move(%s)" % elem(r, k)) or txt.replace(" ", "") == elem(r, k)


def h_fold(fn, p):
    r, init, f = (x["name"] for x in fn["params"][:3])
    acc = init
    cs = calls_of(p, f)
    for k, (i, e) in enumerate(cs):
        a = [sx.show(x) for x in e[1][1:]]
        if len(a) != 2 or not is_elem(a[0], r, k) or a[1] != acc:
            raise Bad("call %d is f(%s); expected f(element %d, accumulator %s)" % (k, ", ".join(a), k, acc))
        acc = "#%d:call" % i
    if p.outcome[0] == "return":
        if len(cs) != n_elems(p, r):
            raise Bad("%d elements but %d calls" % (n_elems(p, r), len(cs)))
        if sx.show(p.outcome[1]) != acc:
            raise Bad("result is %s, expected the last accumulator %s" % (sx.show(p.outcome[1]), acc))


def h_fold_break(fn, p):
    r, init, f = (x["name"] for x in fn["params"][:3])
    acc = init
    d = dec(p)
    cs = calls_of(p, f)
    stopped = False
    for k, (i, e) in enumerate(cs):
        if stopped:
            raise Bad("the function is called again after it returned loop::break_")
        a = [sx.show(x) for x in e[1][1:]]
        if len(a) != 2 or not is_elem(a[0], r, k) or a[1] != acc:
            raise Bad("call %d is f(%s); expected f(element %d, state %s)" % (k, ", ".join(a), k, acc))
        acc = "#%d:call.second" % i
        b = d.get("(#%d:call.first == fcppt::loop::break_)" % i)
        if b is None:
            b2 = d.get("(#%d:call.first == fcppt::loop::continue_)" % i)
            if b2 is None:
                raise Bad("the loop flag returned by call %d is not examined" % k)
            b = not b2
        stopped = bool(b)
    if p.outcome[0] == "return":
        if not stopped and len(cs) != n_elems(p, r):
            raise Bad("%d elements but %d calls without a break" % (n_elems(p, r), len(cs)))
        if sx.show(p.outcome[1]) != acc:
            raise Bad("result is %s, expected the state of the last call %s" % (sx.show(p.outcome[1]), acc))


def h_loop(fn, p, breaking=False):
    r, f = (x["name"] for x in fn["params"][:2])
    d = dec(p)
    cs = calls_of(p, f)
    stopped = False
    for k, (i, e) in enumerate(cs):
        if stopped:
            raise Bad("the body is called again after it returned loop::break_")
        a = [sx.show(x) for x in e[1][1:]]
        if len(a) != 1 or not is_elem(a[0], r, k):
            raise Bad("call %d is body(%s); expected body(element %d)" % (k, ", ".join(a), k))
        if breaking:
            b = d.get("(#%d:call == fcppt::loop::break_)" % i)
            if b is None:
                b2 = d.get("(#%d:call == fcppt::loop::continue_)" % i)
                if b2 is None:
                    raise Bad("the loop flag returned by call %d is not examined" % k)
                b = not b2
            stopped = bool(b)
    if p.outcome[0] == "return" and not stopped and len(cs) != n_elems(p, r):
        raise Bad("%d elements but %d calls" % (n_elems(p, r), len(cs)))


def h_loop_break(fn, p):
    h_loop(fn, p, True)


def h_all_of(fn, p):
    r, f = (x["name"] for x in fn["params"][:2])
    d = dec(p)
    cs = calls_of(p, f)
    stopped = False
    for k, (i, e) in enumerate(cs):
        if stopped:
            raise Bad("the predicate is evaluated again after it returned false")
        a = [sx.show(x) for x in e[1][1:]]
        if len(a) != 1 or not is_elem(a[0], r, k):
            raise Bad("call %d is pred(%s); expected pred(element %d)" % (k, ", ".join(a), k))
        b = d.get("#%d:call" % i)
        if b is None:
            raise Bad("the result of the predicate on element %d is not examined" % k)
        stopped = not b
    if p.outcome[0] == "return":
        v = sx.show(p.outcome[1])
        if stopped and v not in ("0", "false"):
            raise Bad("an element fails the predicate but the result is %s" % v)
        if not stopped and (v not in ("1", "true") or len(cs) != n_elems(p, r)):
            raise Bad("all %d elements satisfy the predicate (%d evaluated) but the result is %s" % (n_elems(p, r), len(cs), v))


def h_contains_if(fn, p):
    r, f = (x["name"] for x in fn["params"][:2])
    d = dec(p)
    cs = calls_of(p, f)
    found = False
    for k, (i, e) in enumerate(cs):
        if found:
            raise Bad("the predicate is evaluated again after an element satisfied it")
        a = [sx.show(x) for x in e[1][1:]]
        if len(a) != 1 or not is_elem(a[0], r, k):
            raise Bad("call %d is pred(%s); expected pred(element %d)" % (k, ", ".join(a), k))
        b = d.get("#%d:call" % i)
        if b is None:
            raise Bad("the result of the predicate on element %d is not examined" % k)
        found = bool(b)
    if p.outcome[0] == "return":
        v = sx.show(p.outcome[1])
        if found and v not in ("1", "true"):
            raise Bad("an element satisfies the predicate but the result is %s" % v)
        if not found and (v not in ("0", "false") or len(cs) != n_elems(p, r)):
            raise Bad("no element of %d satisfies the predicate (%d evaluated) but the result is %s" % (n_elems(p, r), len(cs), v))


def h_map(fn, p):
    r, f = (x["name"] for x in fn["params"][:2])
    cs = calls_of(p, f)
    for k, (i, e) in enumerate(cs):
        a = [sx.show(x) for x in e[1][1:]]
        if len(a) != 1 or not is_elem(a[0], r, k):
            raise Bad("call %d is f(%s); expected f(element %d)" % (k, ", ".join(a), k))
    ins = inserted(p)
    want = [["#%d:call" % i] for i, e in cs]
    if p.outcome[0] == "return":
        if len(cs) != n_elems(p, r):
            raise Bad("%d elements but %d calls" % (n_elems(p, r), len(cs)))
        if ins != want:
            raise Bad("the result receives %s, expected the results of the calls in order %s" % (ins, want))
    elif ins != want[:len(ins)]:
        raise Bad("the result receives %s, expected a prefix of %s" % (ins, want))


def h_map_optional(fn, p):
    r, f = (x["name"] for x in fn["params"][:2])
    d = dec(p)
    cs = calls_of(p, f)
    want = []
    for k, (i, e) in enumerate(cs):
        a = [sx.show(x) for x in e[1][1:]]
        if len(a) != 1 or not is_elem(a[0], r, k):
            raise Bad("call %d is f(%s); expected f(element %d)" % (k, ", ".join(a), k))
        hv = d.get("has_value(#%d:call)" % i)
        if hv is None and p.outcome[0] == "return":
            raise Bad("whether call %d produced a value is not examined" % k)
        if hv:
            want.append(["some_payload(#%d:call)" % i])
    ins = inserted(p)
    if p.outcome[0] == "return":
        if len(cs) != n_elems(p, r):
            raise Bad("%d elements but %d calls" % (n_elems(p, r), len(cs)))
        if ins != want:
            raise Bad("the result receives %s, expected exactly the produced values in order %s" % (ins, want))


def h_map_concat(fn, p):
    r, f = (x["name"] for x in fn["params"][:2])
    cs = calls_of(p, f)
    for k, (i, e) in enumerate(cs):
        a = [sx.show(x) for x in e[1][1:]]
        if len(a) != 1 or not is_elem(a[0], r, k):
            raise Bad("call %d is f(%s); expected f(element %d)" % (k, ", ".join(a), k))
    if p.outcome[0] == "return":
        if len(cs) != n_elems(p, r):
            raise Bad("%d elements but %d calls" % (n_elems(p, r), len(cs)))
        ins = inserted(p)
        if len(ins) != len(cs):
            raise Bad("%d calls but %d insertions into the result" % (len(cs), len(ins)))
        # each insertion takes [begin, end) of the container returned by the call of the same position
        evs = {i: e for i, e in enumerate(p.events, 1)}
        for (i, e), args in zip(cs, ins):
            srcs = []
            for a in args:
                m = re.findall(r"#(\d+):(?:begin|end|move_iterator_if_rvalue|make_move_iterator)", a)
                j = int(m[0]) if m else None
                # follow move_iterator_if_rvalue(#k:begin) to the begin/end event
                while j is not None and evs[j][0].split("<")[0].split("::")[-1] in ("move_iterator_if_rvalue", "make_move_iterator"):
                    m2 = re.findall(r"#(\d+):", sx.show(evs[j][1][0]))
                    j = int(m2[0]) if m2 else None
                srcs.append((evs[j][0].split("<")[0].split("::")[-1], sx.show(evs[j][1][0])) if j else None)
            if srcs != [("begin", "#%d:call" % i), ("end", "#%d:call" % i)]:
                raise Bad("an insertion does not take [begin, end) of the container returned for its element: %s" % (srcs,))


VISIT = [("contains_if", h_contains_if), ("fold", h_fold), ("fold_break", h_fold_break), ("loop", h_loop), ("loop_break", h_loop_break), ("all_of", h_all_of),
         ("map", h_map), ("map_optional", h_map_optional), ("map_concat", h_map_concat)]


def runtime_range(fn):
    """the first parameter is a run-time std container / fcppt range (not a tuple, mpl list or std::array)"""
    if not fn.get("params"):
        return False
    t = (fn["_unit"].ty(fn["params"][0]["t"]) or "").replace("const ", "").strip()
    return any(t.startswith(x) for x in ("std::vector<", "std::list<", "std::deque<", "std::set<", "std::map<", "std::basic_string<", "std::forward_list<"))


def rule_visit(rep, db, cfg):
    for short, handler in VISIT:
        seen = set()
        for fn in db.fns(A + short):
            if not runtime_range(fn) or len(fn.get("params", [])) < 2:
                continue
            k = tuple(fn.get("targs") or [])
            if k in seen:
                continue
            seen.add(k)
            key = "%s<%s>" % (short, ", ".join(x.replace("std::", "").replace("drv::", "") for x in k)[:110])
            try:
                ps = sx.Interp(db, cfg).paths(fn, limit=400)
            except sx.Unsupported as e:
                rep.note("VISIT: %s is outside the interpreted fragment (%s); not decided" % (key, e))
                continue
            bad = None
            complete = 0
            for p in ps:
                if p.outcome[0] == "return":
                    complete += 1
                try:
                    handler(fn, p)
                except Bad as e:
                    bad = (str(e), p)
                    break
            if not bad and complete < 2:
                bad = ("fewer than two complete paths (empty and non-empty range)", ps[0] if ps else None)
            if bad:
                rep.fail("VISIT", key, F.primary_site(fn), F.describe(fn)[:200], why=bad[0], detail={"path": bad[1].show() if bad[1] else None})
            else:
                rep.ok("VISIT", key, F.primary_site(fn), F.describe(fn)[:200], how="all-paths", detail={"paths": len(ps)})


# ------------------------------------------------------------------------------------------------
# WRAP

def std_calls(p, names):
    return [(i, e) for i, e in enumerate(p.events, 1) if e[0].split("<")[0] in names]


def same_range_args(p, e, r):
    """first two arguments of the std algorithm call are begin / end of the wrapper's own range"""
    evs = {i: x for i, x in enumerate(p.events, 1)}
    out = []
    for a in e[1][:2]:
        m = re.match(r"^(?:__gnu_cxx::__normal_iterator\{)?#(\d+):(\w+)\}?$", sx.show(a))
        if not m:
            return False
        src = evs[int(m.group(1))]
        out.append((m.group(2).lstrip("c"), sx.show(src[1][0])))
    return out == [("begin", r), ("end", r)]


def end_compare(p, i, r):
    """decision on `#i == end(range)` (True: equal), or None"""
    evs = {k: x for k, x in enumerate(p.events, 1)}
    for a, b in p.decisions:
        t, neg = a, False
        while isinstance(t, tuple) and t and t[0] == "not":
            t, neg = t[1], not neg
        if isinstance(t, tuple) and t and t[0] == "ev":
            e = evs[t[1]]
            nm = e[0].split("<")[0]
            if nm.endswith("operator==") or nm.endswith("operator!="):
                args = [sx.show(x) for x in e[1]]
                ends = [x for x in args if re.search(r"#\d+:c?end", x)]
                if any(("#%d:" % i) in x for x in args) and ends:
                    j = int(re.findall(r"#(\d+):", ends[0])[0])
                    if sx.show(evs[j][1][0]) == r:
                        eq = b != neg
                        return eq if nm.endswith("operator==") else not eq
    return None


def path_truth(p, t):
    """truth of a returned condition on this path: a constant, or the value the path's own decisions gave the same atom"""
    s_ = sx.show(t)
    if s_ in ("0", "false"):
        return False
    if s_ in ("1", "true"):
        return True
    neg = False
    while isinstance(t, tuple) and t and t[0] == "not":
        t, neg = t[1], not neg
    for a, b in p.decisions:
        na = False
        while isinstance(a, tuple) and a and a[0] == "not":
            a, na = a[1], not na
        if a == t:
            return (b != na) != neg
    return None


def rule_wrap(rep, db, cfg):
    def each(short):
        seen = set()
        for fn in db.fns(A + short):
            if not runtime_range(fn):
                continue
            k = tuple(fn.get("targs") or [])
            if k in seen or "std::set" in (k[0] if k else "") or "std::map" in (k[0] if k else ""):
                continue
            seen.add(k)
            try:
                ps = sx.Interp(db, cfg).paths(fn, limit=100)
            except sx.Unsupported as e:
                rep.note("WRAP: %s<%s> outside the interpreted fragment (%s)" % (short, k, e))
                continue
            yield fn, ps, "%s<%s>" % (short, ", ".join(x.replace("std::", "").replace("drv::", "") for x in k)[:110])

    def verdict(fn, key, why, ps):
        (rep.fail if why else rep.ok)("WRAP", key, F.primary_site(fn), F.describe(fn)[:200], **({"why": why, "detail": {"paths": [p.show() for p in ps[:4]]}} if why else {"how": "delegates"}))

    for short, algo in (("find_if_opt", "std::find_if"), ("find_opt", "std::find")):
        for fn, ps, key in each(short):
            r, x = fn["params"][0]["name"], fn["params"][1]["name"]
            why = None
            rows = set()
            for p in ps:
                cs = std_calls(p, (algo,))
                if len(cs) != 1 or not same_range_args(p, cs[0][1], r) or sx.show(cs[0][1][1][2]) != x:
                    why = "%s is not called exactly once over [begin, end) of the range with the caller's %s" % (algo, "predicate" if "if" in short else "value")
                    break
                i = cs[0][0]
                eq = end_compare(p, i, r)
                out = sx.show(p.outcome[1])
                if eq is None:
                    why = "the result is not compared with end() of the range"
                elif eq and not out.endswith(":none"):
                    why = "nothing is found but the result is %s" % out
                elif not eq and not re.search(r"\{#%d:\w+\}:some$" % i, out):
                    why = "an element is found but the result is %s, expected the position returned by %s" % (out, algo)
                rows.add(eq)
                if why:
                    break
            if not why and rows != {True, False}:
                why = "found / not found are not both possible"
            verdict(fn, key, why, ps)
    for fn, ps, key in each("index_of"):
        r, x = fn["params"][0]["name"], fn["params"][1]["name"]
        why = None
        for p in ps:
            cs = std_calls(p, ("std::find",))
            if len(cs) != 1 or not same_range_args(p, cs[0][1], r) or sx.show(cs[0][1][1][2]) != x:
                why = "std::find is not called exactly once over [begin, end) of the range with the caller's value"
                break
            i = cs[0][0]
            eq = end_compare(p, i, r)
            out = sx.show(p.outcome[1])
            if eq is None:
                why = "the result is not compared with end() of the range"
            elif eq and not out.endswith(":none"):
                why = "nothing is found but the result is %s" % out
            elif not eq:
                subs = [e for j, e in enumerate(p.events, 1) if e[0].split("<")[0].endswith("operator-")]
                ok = len(subs) == 1 and sx.show(subs[0][1][0]) == "#%d:find" % i and re.match(r"#\d+:c?begin", sx.show(subs[0][1][1]))
                if not ok or not out.endswith(":some"):
                    why = "the index is not (position found) - begin(range): %s" % [sx.show_event(e) for e in subs]
            if why:
                break
        verdict(fn, key, why, ps)
    for short, algo in (("contains", "std::find"),):
        for fn, ps, key in each(short):
            r, x = fn["params"][0]["name"], fn["params"][1]["name"]
            why = None
            for p in ps:
                cs = std_calls(p, (algo,))
                if short == "contains_if" and not cs:
                    # implemented through find_if_opt(...).has_value(): accepted when that is what the path shows
                    cs = std_calls(p, ("std::find_if",))
                if len(cs) != 1 or not same_range_args(p, cs[0][1], r) or sx.show(cs[0][1][1][2]) != x:
                    why = "%s is not called exactly once over [begin, end) of the range with the caller's argument" % algo
                    break
                i = cs[0][0]
                out = sx.show(p.outcome[1])
                eq = end_compare(p, i, r)
                evs = {k2: e for k2, e in enumerate(p.events, 1)}
                cmp_ev = [k2 for k2, e in evs.items() if (e[0].split("<")[0].endswith("operator==") or e[0].split("<")[0].endswith("operator!=")) and any(("#%d:" % i) in sx.show(a) for a in e[1])]
                if eq is not None:
                    want = ("0", "false") if eq else ("1", "true")
                    if out not in want:
                        why = "found=%s but the result is %s" % (not eq, out)
                elif len(cmp_ev) == 1:
                    neq = evs[cmp_ev[0]][0].split("<")[0].endswith("operator!=")
                    want = "#%d:operator!=" % cmp_ev[0] if neq else "!#%d:operator==" % cmp_ev[0]
                    if out != want:
                        why = "the result is %s, expected (position != end)" % out
                else:
                    why = "the result does not depend on whether the position found is end()"
                if why:
                    break
            verdict(fn, key, why, ps)
    for fn, ps, key in each("remove_if"):
        r, x = fn["params"][0]["name"], fn["params"][1]["name"]
        why = None
        rows = set()
        for p in ps:
            cs = std_calls(p, ("std::remove_if",))
            if len(cs) != 1 or not same_range_args(p, cs[0][1], r) or sx.show(cs[0][1][1][2]) != x:
                why = "std::remove_if is not called exactly once over [begin, end) of the container with the caller's predicate"
                break
            i = cs[0][0]
            eq = end_compare(p, i, r)
            er = [e for j, e in enumerate(p.events, 1) if e[0].split("<")[0].endswith("::erase")]
            out = sx.show(p.outcome[1])
            outv = path_truth(p, p.outcome[1])
            if eq is None:
                why = "the new end is not compared with end()"
            elif eq and (er or outv is not False):
                why = "nothing to remove but the container is modified / the result is %s" % out
            elif not eq:
                a = [sx.show(y) for y in er[0][1]] if len(er) == 1 else []
                if len(a) != 3 or a[0] != r or ("#%d:remove_if" % i) not in a[1] or not re.search(r"#\d+:end", a[2]) or outv is not True:
                    why = "the removed tail is not erased as erase(new end, end()) with result true: %s -> %s" % (a, out)
            rows.add(eq)
            if why:
                break
        if not why and rows != {True, False}:
            why = "removed / nothing removed are not both possible"
        verdict(fn, key, why, ps)


# ------------------------------------------------------------------------------------------------
# ORDER / ERASE-SAFE / REMOVE-ALIAS

def _invokes_param(u, n, pids):
    """does expression n (not descending into lambdas) call a function-object PARAMETER of the enclosing function?"""
    for c in F.walk(n, into_lambdas=False):
        if c.get("k") != "call":
            continue
        if c.get("opcall") == "()" and c.get("recv") is not None:
            r = c["recv"]
        elif c.get("fn") is not None and c.get("callee") is None:
            r = c["fn"]
        else:
            continue
        r = T.unwrap(u, r)
        if r is not None and r.get("k") == "ref" and r.get("id") in pids:
            return r.get("id")
    return None


def rule_order(rep, db):
    """several invocations of the caller's function inside ONE expression are sequenced only in a braced-init-list: array / tuple
    construction from a pack of calls must use braces (left-to-right), otherwise a stateful function sees the indices in an
    unspecified order"""
    seen = {}
    for fn in db.functions:
        u = fn["_unit"]
        f = u.file_of(fn["primary"])
        if not f.startswith("libs/core/include/fcppt/") or not fn.get("params"):
            continue
        pids = set(p["id"] for p in fn["params"])
        for n in F.walk(fn.get("body"), into_lambdas=False):
            args = None
            braced = False
            if n.get("k") == "construct":
                args, braced = n.get("args", []), bool(n.get("list"))
            elif n.get("k") == "initlist":
                args, braced = n.get("ch", []), True
            elif n.get("k") == "call":
                args = list(n.get("args", []))
            if not args or len(args) < 2:
                continue
            inv = [i for i in (_invokes_param(u, a, pids) for a in args) if i is not None]
            if len(inv) < 2 or len(set(inv)) != 1:
                continue
            key = "%s@%s" % (F.fn_name(F.top_function(fn)), f.split("fcppt/")[-1])
            a = seen.setdefault(key, {"ok": True, "site": u.loc(n.get("loc")), "fn": F.describe(fn)[:160], "n": 0})
            a["n"] += 1
            if not braced:
                a["ok"] = False
                a["site"] = u.loc(n.get("loc"))
    for key, a in sorted(seen.items()):
        if a["ok"]:
            rep.ok("ORDER", key, a["site"], a["fn"], how="braced-init-list (left-to-right)", detail={"expansions": a["n"]})
        else:
            rep.fail("ORDER", key, a["site"], a["fn"],
                     why="the caller's function is invoked several times as arguments of one parenthesised call / constructor: the order of these "
                         "invocations is unspecified (g++ evaluates right to left); only a braced-init-list guarantees index order")


def rule_erase_safe(rep, db):
    """a loop that removes from / inserts into container X must not compare against an end() of X cached before the loop"""
    from engine import moves as M
    n_loops = 0
    for fn in db.functions:
        u = fn["_unit"]
        if not u.file_of(fn["primary"]).startswith("libs/core/include/fcppt/algorithm/"):
            continue
        for lp in F.walk(fn.get("body"), into_lambdas=False):
            if lp.get("k") not in ("for", "while", "do"):
                continue
            muts = {}
            for c in F.walk(lp.get("body")):
                if c.get("k") == "call" and c.get("recv") is not None:
                    short = (T.callee_qn(u, c) or "").split("::")[-1]
                    if short in ("erase", "insert", "push_back", "pop_back", "clear", "resize", "emplace_back", "emplace"):
                        muts[T.show(T.norm(u, c["recv"]))] = short
            if not muts:
                continue
            n_loops += 1
            cached = {}
            scope = [lp.get("init")] + [x for x in (fn.get("body") or {}).get("ch", []) if x is not lp]
            for v in F.walk(scope, into_lambdas=False):
                if v.get("k") == "var" and v.get("init") is not None:
                    t = T.unwrap(u, v["init"])
                    while t is not None and t.get("k") == "construct" and len(t.get("args", [])) == 1:
                        t = T.unwrap(u, t["args"][0])
                    if t is not None and t.get("k") == "call" and (T.callee_qn(u, t) or "").split("::")[-1] in ("end", "cend") and t.get("recv") is not None:
                        cached[v["id"]] = (T.show(T.norm(u, t["recv"])), v.get("name"))
            bad = None
            for r in F.walk(lp.get("cond"), into_lambdas=False):
                if r.get("k") == "ref" and r.get("id") in cached and cached[r["id"]][0] in muts:
                    bad = (cached[r["id"]], muts[cached[r["id"]][0]])
            key = "%s|loop" % F.fn_name(fn)
            if bad:
                rep.fail("ERASE-SAFE", key, u.loc(lp.get("loc")), F.describe(fn)[:160],
                         why="the loop compares against `%s`, an end() of %s taken before the loop, while its body calls %s() on that container: for "
                             "vector / deque the cached end is invalid after the first removal" % (bad[0][1], bad[0][0], bad[1]))
            else:
                rep.ok("ERASE-SAFE", key, u.loc(lp.get("loc")), F.describe(fn)[:160], how="end() re-evaluated every iteration")
    if not n_loops:
        rep.broken("ERASE-SAFE: no mutating loop found in fcppt/algorithm (sequence_iteration / map_iteration vanished?)")


def rule_remove_alias(rep, db):
    """algorithm::remove(container, element): the predicate handed to remove_if holds a COPY of the element (the element may be
    one of the container's own, which remove_if overwrites while it runs)"""
    seen = set()
    for fn in db.fns(A + "remove"):
        u = fn["_unit"]
        if len(fn.get("params", [])) != 2 or F.primary_site(fn) in seen:
            continue
        seen.add(F.primary_site(fn))
        cont, el = fn["params"][0], fn["params"][1]
        calls = [n for n in F.walk(fn.get("body"), into_lambdas=False) if n.get("k") == "call" and (T.callee_qn(u, n) or "") == A + "remove_if"]
        why = None
        if len(calls) != 1 or T.show(T.norm(u, calls[0]["args"][0])) != cont["name"]:
            why = "remove is not one call of remove_if on its own container"
        else:
            lam = T.unwrap(u, calls[0]["args"][1])
            caps = lam.get("captures", []) if lam is not None and lam.get("k") == "lambda" else None
            if caps is None:
                why = "the predicate is not a lambda over the element"
            else:
                c = [x for x in caps if x.get("id") == el["id"] or x.get("name") == el["name"]]
                if not c:
                    why = "the predicate does not use the element"
                elif c[0].get("by") != "copy":
                    why = ("the predicate captures the element by reference: if it is an element of the container itself, std::remove_if overwrites it "
                           "while the predicate is still comparing against it")
        (rep.fail if why else rep.ok)("REMOVE-ALIAS", "remove<%s>" % ",".join(fn.get("targs") or [])[:60], F.primary_site(fn), F.describe(fn)[:160],
                                      **({"why": why} if why else {"how": "remove_if(container, [copy of element](x){ x == element })"}))
        break


def main(rep, tier, only):
    db = load.load(tier, lib=False, drivers=["drv_algorithms"])
    rep.extra.update(db.stats())
    cfg = sx.Config(inline_prefixes=INLINE, loop_bound=2)
    rep.rule("VISIT", "loop-implemented helpers (fold, fold_break, loop, loop_break, all_of, contains_if, map, map_optional, map_concat) call their function on "
                      "the elements in order, once each, thread the accumulator / stop where documented and build the result from the calls in "
                      "order -- on every path of a twice-unrolled run-time range", floor=40)
    rep.rule("WRAP", "wrappers over std algorithms (find_opt, find_if_opt, index_of, contains, remove_if) call the algorithm once over "
                     "[begin, end) of their own range with their own argument and convert the result as documented", floor=12)
    rep.rule("ORDER", "several invocations of the caller's function inside one expression occur only in a braced-init-list (array / tuple "
                      "construction from a pack of calls is evaluated in index order)", floor=2)
    rep.rule("ERASE-SAFE", "a loop in fcppt::algorithm that removes from its container re-evaluates end() every iteration", floor=1)
    rep.rule("REMOVE-ALIAS", "algorithm::remove compares against a copy of the element, not a reference into the container it mutates", floor=1)
    if only in (None, "ORDER"):
        rule_order(rep, db)
    if only in (None, "ERASE-SAFE"):
        rule_erase_safe(rep, db)
    if only in (None, "REMOVE-ALIAS"):
        rule_remove_alias(rep, db)
    if only in (None, "VISIT"):
        rule_visit(rep, db, cfg)
    if only in (None, "WRAP"):
        rule_wrap(rep, db, cfg)
    if only in (None, "WRAP2", "COUNT"):
        from checks import c16_more
        c16_more.rules(rep, db, INLINE)
    if only in (None, "FIND-BY"):
        from checks import c16_more
        c16_more.rules_find_by(rep, db, INLINE)
    if only in (None, "JOIN"):
        from checks import c16_more
        c16_more.rules_join(rep, load.load(tier, lib=False, drivers=["drv_containers", "drv_algorithms"]), INLINE)
    if only in (None, "ASSOC"):
        from checks import c16_more
        c16_more.rules_assoc(rep, load.load(tier, lib=False, drivers=["drv_containers", "drv_algorithms"]), INLINE)
    if only in (None, "SETOPS"):
        from checks import c16_more
        c16_more.rules_sets(rep, db, INLINE)
    if only in (None, "SPLIT-JOIN"):
        from checks import c16_more
        c16_more.rules_strings(rep, db, INLINE)
    rep.extra["not_covered"] = [
                                "map_iteration / sequence_iteration (end() re-evaluation and erase continuation only: ERASE-SAFE; progress: C01 LOOP)", "find_by_opt",
                                "array:: and tuple:: helpers (only the evaluation order of init: ORDER; value conservation: C05)", "static ranges (tuples, mpl lists)"]
    rep.explanation = ("Opaque functors make every call a named event; run-time ranges are unrolled twice (longer ranges end as a truncated prefix). "
                       "Decides, for the listed helpers, the clause 'visit elements in order, stop where documented, result built from the calls in "
                       "order' and the delegation shape of the std wrappers. It does not decide the remaining functions of the property's list.")
    rep.trusted = ["clang 14 front end", "the std algorithms called by the wrappers (std::find, std::find_if, std::remove_if)",
                   "uniformity of the loop body in the index (lift from length <= 2 to every length, not mechanised)"]
    rep.assumptions = ["functions of C16's list without a rule are named in coverage.not_covered; the property is claimed for the listed clause only"]
