"""Engine K: abstract execution of a small state machine over scalar counters and 2-d lattice positions
(DESIGN.md §4.11; used by C18's SPIRAL rule).

The member functions of fcppt::container::grid::spiral_iterator update their object in place (component swap, negation,
counter increments, position += direction). Engine S models values, not storage, so this module interprets such a
member function directly over the facts AST with an explicit store: fields hold polynomials (engine P) or pairs of
polynomials; lvalues are fields or components of fields. Decisions are comparisons of polynomials: decided when the
difference is a constant, otherwise by the caller's assumptions (the case under analysis); anything else, and any construct
outside the fragment, raises Unsupported (reported as analysis-broken by the caller, never as a verdict).
Nothing is executed and no input is enumerated: the states are symbolic.
"""
from . import terms as T
from .poly import Poly


class Unsupported(Exception):
    pass


class _Return(Exception):
    def __init__(self, v):
        self.v = v


COMPONENTS = {"x": 0, "y": 1, "w": 0, "h": 1}


def is_vec(v):
    return isinstance(v, tuple) and len(v) == 2 and v[0] == "vec"


def vec(a, b):
    return ("vec", (a, b))


class Machine:
    def __init__(self, unit, state, params=None, assume=None):
        self.u = unit
        self.state = dict(state)          # field name -> Poly | ("vec", (Poly, Poly))
        self.params = dict(params or {})  # parameter id -> value
        self.assume = assume or (lambda diff: None)   # Poly (lhs - rhs) -> True (equal) / False / None

    # ---- values
    def callee(self, n):
        return T.callee_qn(self.u, n) or ""

    def val(self, n):
        n = T.unwrap(self.u, n)
        if n is None:
            raise Unsupported("empty expression")
        k = n.get("k")
        if k in ("lit",) or ("c" in n and k in ("unop", "binop", "cast", "icast")):
            try:
                return Poly.const(int(str(n["c"]).rstrip("uUlL")))
            except (TypeError, ValueError):
                raise Unsupported("constant %r" % (n.get("c"),))
        if k == "member" and (n.get("base") or {}).get("k") == "this":
            if n["name"] not in self.state:
                raise Unsupported("field %s" % n["name"])
            return self.state[n["name"]]
        if k == "member":
            b = self.val(n.get("base"))
            if isinstance(b, dict) and n["name"] in b:
                return b[n["name"]]
            raise Unsupported("member %s of a value" % n.get("name"))
        if k == "ref" and n.get("dk") in ("param", "local"):
            if n["id"] not in self.params:
                raise Unsupported("parameter %s" % n.get("name"))
            return self.params[n["id"]]
        if k in ("icast", "cast"):
            return self.val(n.get("e"))
        if k == "unop" and n.get("op") in ("-", "+"):
            v = self.val(n.get("e"))
            if is_vec(v):
                raise Unsupported("negation of a position")
            return -v if n["op"] == "-" else v
        if k == "binop" and n.get("op") in ("+", "-", "*"):
            l, r = self.val(n.get("l")), self.val(n.get("r"))
            if is_vec(l) or is_vec(r):
                raise Unsupported("built-in arithmetic on positions")
            return l + r if n["op"] == "+" else l - r if n["op"] == "-" else l * r
        if k == "construct":
            args = n.get("args", [])
            cls = n.get("cls") or ""
            if n.get("ctor") in ("copy", "move") and len(args) == 1:
                return self.val(args[0])
            if cls == "fcppt::math::vector::object" and len(args) == 2:
                a, b = self.val(args[0]), self.val(args[1])
                if is_vec(a) or is_vec(b):
                    raise Unsupported("position built from positions")
                return vec(a, b)
            return {"__class__": cls, "args": [self.val(a) for a in args]}
        if k == "initlist" and len(n.get("ch", [])) == 1:
            return self.val(n["ch"][0])
        if (k == "call" and n.get("opcall") in ("==", "!=")) or (k == "binop" and n.get("op") in ("==", "!=", "&&", "||")) or (k == "unop" and n.get("op") == "!"):
            return ("bool", self.truth(n))
        if k == "call":
            qn = self.callee(n)
            short = qn.split("::")[-1]
            if n.get("recv") is not None and not n.get("args") and short in COMPONENTS and qn.startswith("fcppt::math::"):
                v = self.val(n["recv"])
                if not is_vec(v):
                    raise Unsupported("component of %r" % (v,))
                return v[1][COMPONENTS[short]]
            if n.get("opcall") in ("+", "-") and len(self.operands(n)) == 2 and qn.startswith("fcppt::math::vector::operator"):
                a, b = [self.val(x) for x in self.operands(n)]
                if is_vec(a) and is_vec(b):
                    f = (lambda x, y: x + y) if n["opcall"] == "+" else (lambda x, y: x - y)
                    return vec(f(a[1][0], b[1][0]), f(a[1][1], b[1][1]))
            raise Unsupported("call of %s" % qn)
        raise Unsupported("expression kind %s" % k)

    def operands(self, n):
        return ([n["recv"]] if n.get("recv") is not None else []) + list(n.get("args", []))

    # ---- decisions
    def eq(self, a, b):
        if is_vec(a) != is_vec(b):
            raise Unsupported("comparison of a position with a number")
        if is_vec(a):
            r0 = self.eq(a[1][0], b[1][0])
            r1 = self.eq(a[1][1], b[1][1])
            return r0 and r1
        d = a - b
        if not d.t:
            return True
        if set(d.t) == {()}:
            return False
        r = self.assume(d)
        if r is None:
            raise Unsupported("comparison not decided by the case under analysis: %s == 0" % d.show())
        return r

    def truth(self, n):
        n = T.unwrap(self.u, n)
        k = n.get("k")
        if k == "binop" and n.get("op") in ("==", "!="):
            r = self.eq(self.val(n["l"]), self.val(n["r"]))
            return r if n["op"] == "==" else not r
        if k == "call" and n.get("opcall") in ("==", "!="):
            a, b = [self.val(x) for x in self.operands(n)]
            r = self.eq(a, b)
            return r if n["opcall"] == "==" else not r
        if k == "unop" and n.get("op") == "!":
            return not self.truth(n["e"])
        if k == "binop" and n.get("op") in ("&&", "||"):
            l = self.truth(n["l"])
            if n["op"] == "&&":
                return l and self.truth(n["r"])
            return l or self.truth(n["r"])
        raise Unsupported("condition kind %s" % k)

    # ---- locations
    def loc(self, n):
        n = T.unwrap(self.u, n)
        k = n.get("k")
        if k == "member" and (n.get("base") or {}).get("k") == "this":
            return ("f", n["name"])
        if k == "call" and n.get("recv") is not None and not n.get("args"):
            short = self.callee(n).split("::")[-1]
            base = self.loc(n["recv"])
            if short in COMPONENTS and base[0] == "f":
                return ("c", base[1], COMPONENTS[short])
        raise Unsupported("assignment target %s" % k)

    def load(self, l):
        if l[0] == "f":
            return self.state[l[1]]
        v = self.state[l[1]]
        if not is_vec(v):
            raise Unsupported("component of the number %s" % l[1])
        return v[1][l[2]]

    def store(self, l, v):
        if l[0] == "f":
            if l[1] not in self.state:
                raise Unsupported("field %s" % l[1])
            if is_vec(self.state[l[1]]) != is_vec(v):
                raise Unsupported("field %s changes its kind" % l[1])
            self.state[l[1]] = v
            return
        cur = self.state[l[1]]
        if not is_vec(cur) or is_vec(v):
            raise Unsupported("component store into %s" % l[1])
        c = list(cur[1])
        c[l[2]] = v
        self.state[l[1]] = vec(c[0], c[1])

    # ---- statements
    def run(self, body):
        try:
            self.exec(body)
        except _Return as r:
            return r.v
        return None

    def exec(self, s):
        if s is None:
            return
        k = s.get("k")
        if k == "compound":
            for c in s.get("ch", []):
                self.exec(c)
            return
        if k == "decl":
            for var in s.get("ch", []):
                if var.get("k") != "var" or var.get("init") is None:
                    raise Unsupported("local declaration without initialiser")
                self.params[var["id"]] = self.val(var["init"])      # locals are read-only values here
            return
        if k == "if":
            if self.truth(s.get("cond")):
                self.exec(s.get("then"))
            else:
                self.exec(s.get("else"))
            return
        if k == "return":
            raise _Return(self.val(s["e"]) if s.get("e") is not None else None)
        if k == "assign":
            self.store(self.loc(s["l"]), self.val(s["r"]))
            return
        if k == "compound_assign" and s.get("op") in ("+=", "-="):
            l = self.loc(s["l"])
            old, r = self.load(l), self.val(s["r"])
            if is_vec(old) or is_vec(r):
                raise Unsupported("built-in compound assignment on positions")
            self.store(l, old + r if s["op"] == "+=" else old - r)
            return
        if k == "unop" and s.get("op") in ("++", "--"):
            l = self.loc(s["e"])
            old = self.load(l)
            if is_vec(old):
                raise Unsupported("increment of a position")
            self.store(l, old + (1 if s["op"] == "++" else -1))
            return
        if k == "call":
            qn = self.callee(s)
            if qn == "std::swap" and len(s.get("args", [])) == 2:
                a, b = self.loc(s["args"][0]), self.loc(s["args"][1])
                va, vb = self.load(a), self.load(b)
                self.store(a, vb)
                self.store(b, va)
                return
            if s.get("opcall") == "=" and s.get("recv") is not None and len(s.get("args", [])) == 1:
                self.store(self.loc(s["recv"]), self.val(s["args"][0]))
                return
            if s.get("opcall") in ("+=", "-=") and s.get("recv") is not None and len(s.get("args", [])) == 1:
                l = self.loc(s["recv"])
                old, r = self.load(l), self.val(s["args"][0])
                if not (is_vec(old) and is_vec(r)):
                    raise Unsupported("%s on a number through an overloaded operator" % s["opcall"])
                f = (lambda x, y: x + y) if s["opcall"] == "+=" else (lambda x, y: x - y)
                self.store(l, vec(f(old[1][0], r[1][0]), f(old[1][1], r[1][1])))
                return
            raise Unsupported("statement call of %s" % qn)
        raise Unsupported("statement kind %s" % k)
