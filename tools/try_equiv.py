#!/usr/bin/env python3
"""try_equiv.py <worktree> <checks,comma|ALL> [k,k,...]
Run the registered checks against every behaviour-preserving refactoring out/<k>/patch.diff of a scratch worktree,
applied as an include-path OVERLAY (/repo is not touched, so this can run next to anything else).
Prints one line per (refactoring, check): exit code and the first violation / analysis-broken line.
A violation (exit 1) on a refactoring that keeps the behaviour is a FALSE ALARM of the check."""
import os
import shutil
import subprocess
import sys
import tempfile

VERIF = os.path.dirname(os.path.dirname(os.path.abspath(__file__)))
REPO = "/repo"
wt, checks = sys.argv[1], sys.argv[2]
only = set(sys.argv[3].split(",")) if len(sys.argv) > 3 else None
ALL = ["C%02d" % i for i in range(1, 21)]
checks = ALL if checks == "ALL" else checks.split(",")
for k in sorted(os.listdir(os.path.join(wt, "out"))):
    patch_p = os.path.join(wt, "out", k, "patch.diff")
    if not os.path.exists(patch_p) or (only and k not in only):
        continue
    title = ""
    np_ = os.path.join(wt, "out", k, "notes.md")
    if os.path.exists(np_):
        title = open(np_).readline().strip().lstrip("# ")[:90]
    ov = tempfile.mkdtemp(prefix="eq-", dir=os.path.join(VERIF, ".work"))
    try:
        files = [l[6:].split("\t")[0].strip() for l in open(patch_p) if l.startswith("+++ b/")]
        for f in files:
            src, dst = os.path.join(REPO, f), os.path.join(ov, f)
            os.makedirs(os.path.dirname(dst), exist_ok=True)
            if os.path.exists(src):
                shutil.copy(src, dst)
        r = subprocess.run(["patch", "-p1", "-s", "-d", ov, "-i", patch_p], stdout=subprocess.PIPE, stderr=subprocess.STDOUT, text=True)
        if r.returncode != 0:
            print("EQ %s %s PATCH-FAILED %s" % (os.path.basename(wt), k, r.stdout[-150:].replace("\n", " ")))
            continue
        print("== %s/%s  %s  [%s]" % (os.path.basename(wt), k, title, ", ".join(f.split("fcppt/")[-1] for f in files)))
        for prop in checks:
            env = dict(os.environ, FCPPT_OVERLAY=ov, VERIF_EVIDENCE_DIR=os.path.join(ov, "_evidence"))
            r = subprocess.run([os.path.join(VERIF, "bin", "check"), prop], stdout=subprocess.PIPE, stderr=subprocess.PIPE, text=True, env=env, cwd=VERIF)
            first = [l.strip() for l in r.stdout.split("\n") if l.startswith("  violated:") or l.startswith("ANALYSIS-BROKEN")]
            tag = {0: "ok", 1: "FALSE-ALARM?", 2: "broken"}.get(r.returncode, "rc%d" % r.returncode)
            print("   %s %s%s" % (prop, tag, (": " + first[0][:260]) if first and r.returncode else ""))
    finally:
        shutil.rmtree(ov, ignore_errors=True)
