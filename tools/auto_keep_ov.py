#!/usr/bin/env python3
"""auto_keep_ov.py <worktree> <property> <confirm.log> <checks,comma> [round-tag]
Like auto_keep.py, but the seed is presented to the checks as an include-path OVERLAY (FCPPT_OVERLAY), so /repo is not touched and
the tool can run next to background self-tests."""
import os
import re
import subprocess
import sys
VERIF = os.path.dirname(os.path.dirname(os.path.abspath(__file__)))
wt, prop, log, checks = sys.argv[1:5]
tag = sys.argv[5] if len(sys.argv) > 5 else "r3"
logtxt = open(log).read()
for k in sorted(os.listdir(os.path.join(wt, "out"))):
    d = os.path.join(wt, "out", k)
    if not os.path.exists(os.path.join(d, "patch.diff")):
        continue
    m = re.search(r"^CONFIRM %s %s (.*)$" % (re.escape(wt), re.escape(k)), logtxt, re.M)
    blk = logtxt[m.start():m.start() + 900] if m else ""
    ok = bool(m) and "build=ok" in m.group(1) and "[0 failed of 433]" in m.group(1) and \
        (("demo_with=0 demo_without=0" not in m.group(1) and "demo_without=0" in m.group(1) and "demo_with=0" not in m.group(1)) or
         ("with: exit=1" in blk and "without: exit=0" in blk) or
         (re.search(r"^\s+with: [1-9]\d*\s*$", blk, re.M) and re.search(r"^\s+without: 0\s*$", blk, re.M)))
    if not ok:
        print("NOT CONFIRMED", wt, k, m.group(1)[:120] if m else "no CONFIRM line")
        continue
    import shutil, tempfile
    ov = tempfile.mkdtemp(prefix="seed-", dir=os.path.join(VERIF, ".work"))
    out = ""
    try:
        pf = os.path.join(d, "patch.diff")
        for f in [l[6:].split("\t")[0].strip() for l in open(pf) if l.startswith("+++ b/")]:
            os.makedirs(os.path.dirname(os.path.join(ov, f)), exist_ok=True)
            if os.path.exists(os.path.join("/repo", f)):
                shutil.copy(os.path.join("/repo", f), os.path.join(ov, f))
        subprocess.run(["patch", "-p1", "-s", "-d", ov, "-i", pf], check=True)
        for c in checks.split(","):
            r = subprocess.run([os.path.join(VERIF, "bin", "check"), c], capture_output=True, text=True, cwd=VERIF,
                               env=dict(os.environ, FCPPT_OVERLAY=ov, VERIF_EVIDENCE_DIR=os.path.join(ov, "_evidence")))
            out += "== %s exit=%d\n%s\n" % (c, r.returncode, r.stdout)
    finally:
        shutil.rmtree(ov, ignore_errors=True)
    rules = []
    cur = None
    for l in out.split("\n"):
        mm = re.match(r"^== (C\d+) exit=(\d+)", l)
        if mm:
            cur = (mm.group(1), mm.group(2))
        mv = re.match(r"^\s+violated: (\S+) ", l)
        if mv and cur and cur[1] == "1":
            r = "%s:%s" % (cur[0], mv.group(1))
            if r not in rules:
                rules.append(r)
    notes = open(os.path.join(d, "notes.md")).read() if os.path.exists(os.path.join(d, "notes.md")) else k
    title = re.sub(r"^#+\s*", "", notes.split("\n", 1)[0])
    title = re.sub(r"^Change \d+\s*[—:-]*\s*", "", title)
    slug = re.sub(r"[^a-z0-9]+", "-", title.lower()).strip("-")[:40].strip("-")
    sid = "s-%s-%s%s-%s" % (prop, tag, k, slug)
    det = ",".join(rules) if rules else "-"
    args = [os.path.join(VERIF, "tools", "keep_seed.py"), wt, k, sid, prop, log, det]
    if not rules:
        args.append("NOT YET ANALYSED: no rule of %s reports it" % checks)
    print(subprocess.run(args, capture_output=True, text=True).stdout.strip())
