#include <fcppt/random/distribution/basic.hpp>
#include <fcppt/random/distribution/parameters/uniform_int.hpp>
#include <fcppt/random/generator/minstd_rand.hpp>
#include <fcppt/random/generator/seed_from_chrono.hpp>
#include <iostream>
int main()
{
  using params = fcppt::random::distribution::parameters::uniform_int<int>;
  using dist = fcppt::random::distribution::basic<params>;
  dist d{params{typename params::min{0}, typename params::max{9}}};
  fcppt::random::generator::minstd_rand g{fcppt::random::generator::minstd_rand::seed{1U}};
  int const v{d(g, params{typename params::min{100}, typename params::max{100}})};   // draw with explicit parameters
  params const p{d.param()};                                       // read the parameters back
  auto const w{p.convert_from()};
  std::cout << v << " " << w.a() << " " << w.b() << "\n";
  return (v == 100 && w.a() == 0 && w.b() == 9) ? 0 : 1;
}
