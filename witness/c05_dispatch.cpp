// C05 (c): value-category dispatch helpers select move exactly for rvalue arguments.
// Type equalities only (no value is computed).
#include "probe.hpp"
#include <fcppt/move_if_rvalue.hpp>
#include <fcppt/move_if.hpp>
#include <fcppt/move_iterator_if_rvalue.hpp>
#include <fcppt/optional/move_type.hpp>
#include <fcppt/optional/object_impl.hpp>
#include <fcppt/either/object_impl.hpp>
#include <fcppt/either/success_move_type.hpp>
#include <fcppt/either/failure_move_type.hpp>
#include <vector>
#include <iterator>

using probe::mo;
using probe::mo2;

WITNESS(c05_move_if_rvalue_rvalue_arg, "move_if_rvalue<T&&-deduced>(x) yields an rvalue reference")
{
  static_assert(std::is_same_v<decltype(fcppt::move_if_rvalue<mo>(probe::lvalue<mo>())), mo &&>);
  static_assert(std::is_same_v<decltype(fcppt::move_if_rvalue<mo &&>(probe::lvalue<mo>())), mo &&>);
}
WITNESS(c05_move_if_rvalue_lvalue_arg, "move_if_rvalue<T&>(x) yields an lvalue reference (lvalue arguments are not stolen from)")
{
  static_assert(std::is_same_v<decltype(fcppt::move_if_rvalue<mo &>(probe::lvalue<mo>())), mo &>);
  static_assert(std::is_same_v<decltype(fcppt::move_if_rvalue<mo const &>(probe::clvalue<mo>())), mo const &>);
  static_assert(std::is_same_v<decltype(fcppt::move_if_rvalue<mo const &>(probe::lvalue<mo>())), mo &>);
}
WITNESS(c05_move_if, "move_if<true> moves, move_if<false> keeps the lvalue")
{
  static_assert(std::is_same_v<decltype(fcppt::move_if<true>(probe::lvalue<mo>())), mo &&>);
  static_assert(std::is_same_v<decltype(fcppt::move_if<false>(probe::lvalue<mo>())), mo &>);
}
WITNESS(c05_move_iterator_if_rvalue, "move_iterator_if_rvalue wraps the iterator in std::move_iterator exactly for rvalue ranges")
{
  using it = std::vector<mo>::iterator;
  static_assert(std::is_same_v<decltype(fcppt::move_iterator_if_rvalue<std::vector<mo>>(probe::make<it>())), std::move_iterator<it>>);
  static_assert(std::is_same_v<decltype(fcppt::move_iterator_if_rvalue<std::vector<mo> &&>(probe::make<it>())), std::move_iterator<it>>);
  static_assert(std::is_same_v<decltype(fcppt::move_iterator_if_rvalue<std::vector<mo> &>(probe::make<it>())), it>);
}
WITNESS(c05_optional_move_type, "optional::move_type is T&& for rvalue optionals, T& / T const& for lvalues")
{
  using o = fcppt::optional::object<mo>;
  static_assert(std::is_same_v<fcppt::optional::move_type<o>, mo &&>);
  static_assert(std::is_same_v<fcppt::optional::move_type<o &&>, mo &&>);
  static_assert(std::is_same_v<fcppt::optional::move_type<o &>, mo &>);
  static_assert(std::is_same_v<fcppt::optional::move_type<o const &>, mo const &>);
}
WITNESS(c05_either_move_types, "either::success_move_type / failure_move_type follow the value category of the either")
{
  using e = fcppt::either::object<mo2, mo>;
  static_assert(std::is_same_v<fcppt::either::success_move_type<e>, mo &&>);
  static_assert(std::is_same_v<fcppt::either::success_move_type<e &>, mo &>);
  static_assert(std::is_same_v<fcppt::either::success_move_type<e const &>, mo const &>);
  static_assert(std::is_same_v<fcppt::either::failure_move_type<e>, mo2 &&>);
  static_assert(std::is_same_v<fcppt::either::failure_move_type<e &>, mo2 &>);
  static_assert(std::is_same_v<fcppt::either::failure_move_type<e const &>, mo2 const &>);
}
