"""Per-coordinate analysis shared by C08 / C13: a function whose body is
   all_of(int_range_count<N>, generic lambda)   or   init(generic lambda)
is decided by (1) index coverage of the lambda's specialisations, (2) evaluation of each
specialisation under every weak order of the scalars it reads (domain O), (3) the outer structure.
"""
from . import facts as F
from . import orders as O
from . import sx


def app_index(term):
    """index template argument of an at<I,...>(x) accessor term"""
    if isinstance(term, tuple) and term and term[0] == "app" and "<" in term[1]:
        return term[1][term[1].index("<") + 1:].split(",")[0].rstrip("UL")
    return None


def dims_of(fn):
    for x in fn.get("targs") or []:
        s = str(x).rstrip("UL")
        if s.isdigit():
            return int(s)
    return None


def capture_closures(db, fn, pure_prefixes, capture, inline_prefixes=("fcppt::cond",), extra_hooks=None, pure=()):
    """interpret fn with hooks that capture the closures passed to the callees named in `capture`
    (dict callee -> marker). Returns (paths, captured [(marker, closure)], cfg)."""
    captured = []

    def mk(marker):
        def hook(it, recv, args, d, unit, n):
            cl = [a for a in args if isinstance(a, sx.Closure)]
            if cl:
                captured.append((marker, cl[-1]))
                return ("sym", marker)
            return None
        return hook
    hooks = {k: mk(v) for k, v in capture.items()}
    if extra_hooks:
        hooks.update(extra_hooks)
    cfg = sx.Config(inline_prefixes=inline_prefixes, pure_prefixes=pure_prefixes, hooks=hooks, pure=pure)
    paths = sx.Interp(db, cfg).paths(fn)
    return paths, captured, cfg


def check_indices(closure, N):
    ops = closure.node.get("ops", [])
    idx = []
    for op in ops:
        ia = [str(x).rstrip("UL") for x in (op.get("targs") or [])]
        idx.append(int(ia[0]) if ia and ia[0].isdigit() else None)
    ok = sorted(i for i in idx if i is not None) == list(range(N)) and len(idx) == N
    return ok, ops, idx


def eval_orders(db, cfg, closure, op, i, scalars, domain, verdict):
    """scalars: {name: show-string}. verdict(r, value, rank_of) -> None or reason. Returns (bad, n)."""
    names = list(scalars.keys())
    shows = [scalars[n] for n in names]
    n_checked = 0
    for ranks in O.weak_orders(len(names)):
        r = type("R", (), dict(zip(names, ranks)))()
        if not domain(r):
            continue
        n_checked += 1

        def rank_of(term, _ranks=ranks):
            s = sx.show(term)
            if s in shows:
                ia = app_index(term)
                if ia is not None and ia != str(i):
                    raise sx.Unsupported("coordinate %s read inside the lambda for coordinate %d" % (ia, i))
                return _ranks[shows.index(s)]
            return None
        it = sx.Interp(db, cfg, oracle=O.make_oracle(rank_of))
        try:
            v, _ = it.run_lambda(closure, op, [("k", None)])
            if isinstance(v, tuple) and v and v[0] in ("cmp", "not", "and", "or"):
                v = sx.TRUE if it.decide(v) else sx.FALSE   # a returned comparison is a truth value of the domain
        except sx.Unsupported as e:
            return str(e), n_checked
        except sx.NeedDecision as e:
            return "atom not decided by the abstract domain: %s" % sx.show(e.atom), n_checked
        why = verdict(r, v, rank_of)
        if why:
            return "order %s: %s" % (dict(zip(names, ranks)), why), n_checked
    return None, n_checked
