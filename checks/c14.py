"""C14 Vector, dim and matrix arithmetic over exact scalars (DESIGN.md §6 C14).

The operators under fcppt::math::{vector,dim,matrix} contain no branch on an element value: each
result element is a ring expression (+, -, *, literals) over operand elements, selected by
compile-time indices. Engine S expands the whole fcppt::math / fcppt::array / static-loop plumbing
of an instantiation (int scalars, dimensions 1..4, static and row-view storage) down to the result's
storage array of provenance terms; engine P normalises each term to a polynomial over operand-element
atoms (exact canonical form of the ring expression).

 LAYOUT   reader side of the storage layout: at_r_c<r,c> / vector::at<i> / dim::at<i> (and .x() .. .w())
          read one storage cell each, distinct cells for distinct indices, all cells covered; the
          maps found here translate storage cells to indices everywhere else (no layout is assumed)
 FORMULA  every result element of every listed operation equals the textbook formula at the same
          index: component-wise +, -, *, unary -, scalar multiples, dot, cross, length_square,
          contents, matrix product, matrix-vector product, transpose, determinant (Leibniz formula),
          adjugate (transposed cofactors), identity, delete_row_and_column, translation / scaling
          builders, row construction, null, fill, structure_cast, narrow_cast, push_back,
          to_dim / to_vector; as polynomial identities, hence for every operand value
 INPLACE  +=, -=, *= (element-wise and scalar) write every element of *this exactly once with the
          formula's value
 VIEW     the same operations on row views of a matrix (view storage) read the viewed row
 IDENT    the identities the property names, evaluated on the *code-derived* polynomial maps
          (no specification formula in between): (AB)C = A(BC), A(B+C) = AB+AC, (A^T)^T = A,
          (AB)^T = B^T A^T, det(AB) = det(A)det(B), A adj(A) = det(A) I, I A = A = A I
Not decided: comparison operators (C17), division operators (optional results), bit_strings, the
floating-point functions (inverse, rotations, exponential, logarithm ...), machine-integer overflow.
"""
import re

from engine import facts as F
from engine import load
from engine import poly as P
from engine import sx
from engine import terms as T
from engine.poly import Poly

LEVEL = "proof"

INLINE = ("fcppt::math", "fcppt::array", "fcppt::algorithm", "fcppt::type_traits", "fcppt::cast", "fcppt::literal",
          "fcppt::tuple", "fcppt::container", "fcppt::mpl", "(anonymous namespace)::scenario_", "(anonymous namespace)::view_storage")
RECORDS = ("fcppt::math", "fcppt::array")
PURE = ("fcppt::array::object::get_unsafe",)

_OBJ = re.compile(r"fcppt::math::(matrix|vector|dim)::object<\s*([^,<>]+?)\s*,\s*(\d+)\s*(?:,\s*(\d+)\s*)?,")


def shape_of(ty):
    """('mat', R, C) / ('vec', N) / ('dim', N) / ('scalar',) for a parameter or result type"""
    ty = (ty or "").strip()
    core = re.sub(r"^const\s+", "", ty).rstrip("&").strip()
    core = re.sub(r"\s+const$", "", core)
    m = _OBJ.match(core)
    if m:
        kind = m.group(1)
        if kind == "matrix":
            if m.group(4) is None:
                return None
            return ("mat", int(m.group(3)), int(m.group(4)))
        return ("vec" if kind == "vector" else "dim", int(m.group(3)))
    if core in ("int", "long", "unsigned int", "unsigned long", "short", "signed char"):
        return ("scalar",)
    return None


def is_static(ty):
    """the math object type uses its own static storage (not a view of another object's storage)"""
    ty = re.sub(r"^const\s+", "", (ty or "").strip())
    m = _OBJ.match(ty)
    return bool(m) and ty[m.end():].lstrip().startswith("fcppt::math::detail::static_storage<")


def is_plain(ty):
    """static storage or the driver's view storage (elements addressed by their linear cell)"""
    ty = re.sub(r"^const\s+", "", (ty or "").strip())
    m = _OBJ.match(ty)
    rest = ty[m.end():].lstrip() if m else ""
    return plain_storage(rest)


def plain_storage(s):
    return s.startswith("fcppt::math::detail::static_storage<") or s.startswith("(anonymous namespace)::view_storage<") or s.startswith("view_storage<")


def hook_get(it, recv, args, d, unit, n):
    ta = d.get("targs") or []
    if not ta or not str(ta[0]).rstrip("ULul").isdigit() or len(args) != 1:
        return None
    i = int(str(ta[0]).rstrip("ULul"))
    a = args[0]
    if isinstance(a, tuple) and a and a[0] == "tuple":
        return a[1][i] if i < len(a[1]) else None
    try:
        kind, x = P.root_of(a)
    except P.Unresolved:
        return None
    if kind == "list" and i < len(x):
        return x[i]
    return None


def hook_tuple(it, recv, args, d, unit, n):
    return ("tuple", tuple(args))


_WIDTH = {"bool": 1, "char": 8, "signed char": 8, "unsigned char": 8, "short": 16, "unsigned short": 16, "int": 32, "unsigned int": 32,
          "long": 64, "unsigned long": 64, "long long": 64, "unsigned long long": 64}


def _w(ty):
    return _WIDTH.get(re.sub(r"^const\s+", "", (ty or "").strip()))


def hook_cast(it, ty, v, unit, n):
    """keep integral conversions that lose width visible: ("narrow", to, from, value)"""
    src = unit.ty((n.get("e") or {}).get("t")) if isinstance(n, dict) else None
    wt, ws = _w(ty), _w(src)
    if wt is not None and ws is not None and wt < ws and not sx.is_const(v):
        return ("narrow", ty, src, v)
    return None


HOOKS = {"cast": hook_cast, "std::get": hook_get, "std::forward_as_tuple": hook_tuple, "std::make_tuple": hook_tuple, "std::tie": hook_tuple}


def config():
    return sx.Config(inline_prefixes=INLINE, record_prefixes=RECORDS, pure=PURE, hooks=HOOKS, ref_writes=True, max_depth=80, max_steps=2000000)


class Broken(Exception):
    pass


def run(db, cfg, fn, this=None):
    """the single path of a branch-free function: (result term, events)"""
    it = sx.Interp(db, cfg)
    ps = it.paths(fn, this=this, limit=8)
    if len(ps) != 1:
        raise Broken("%d paths (expected branch-free code); first decision: %s" % (len(ps), ps[0].show()["decisions"][:1]))
    p = ps[0]
    if p.outcome[0] != "return":
        raise Broken("outcome %s" % (p.outcome[0],))
    return p.outcome[1], p.events


def run_paths(db, cfg, fn, this=None, limit=400):
    """all paths of a function whose only branches test an operand element against a constant"""
    ps = sx.Interp(db, cfg).paths(fn, this=this, limit=limit)
    out = []
    for p in ps:
        if p.outcome[0] != "return":
            raise Broken("outcome %s" % (p.outcome[0],))
        out.append((p.decisions, p.outcome[1], p.events))
    return out


def path_subst(res, decisions):
    """{atom: constant} implied by a path's decisions; every decision must compare one operand element with a constant"""
    sub = {}
    for atom, truth in decisions:
        a = atom
        if not (isinstance(a, tuple) and a and a[0] == "cmp" and a[1] in ("==", "!=")):
            raise Broken("a branch on %s (only tests of an element against a constant are followed)" % sx.show(atom))
        l, r = res.poly(a[2]), res.poly(a[3])
        d = l - r
        mons = [k for k in d.t if k != ()]
        if len(mons) != 1 or len(mons[0]) != 1 or d.t[mons[0]] not in (1, -1):
            raise Broken("a branch on %s (not an element compared with a constant)" % sx.show(atom))
        c = -d.t.get((), 0) * d.t[mons[0]]
        if (a[1] == "==") == truth:
            sub[mons[0][0]] = c
    return sub


def apply_subst(p, sub):
    if not sub:
        return p
    return p.subst(lambda a: Poly.const(sub[a]) if a in sub else Poly.atom(a))


# --------------------------------------------------------------------------------------------
# LAYOUT

class Layout:
    def __init__(self):
        self.mat = {}    # (R,C) -> {(r,c): cell}
        self.vec = {}    # N -> {i: cell}
        self.dim = {}

    def mat_inv(self, R, C):
        return {k: rc for rc, k in self.mat[(R, C)].items()}

    def lin_inv(self, kind, N):
        return {k: i for i, k in (self.vec if kind == "vec" else self.dim)[N].items()}


def single_cell(v, events, rootname):
    """the storage cell an accessor returns: app get_unsafe(root..., k)"""
    if isinstance(v, tuple) and v and v[0] == "app" and v[1].split("<")[0] == "fcppt::array::object::get_unsafe":
        base, idx = v[2]
        kind, x = P.root_of(base)
        if kind == "root" and x == rootname and sx.is_const(idx):
            return int(str(idx[1]).rstrip("ULul"))
    raise Broken("accessor does not reduce to one storage cell of its argument: %s" % sx.show(v))


def rule_layout(rep, db, cfg):
    rep.rule("LAYOUT", "element accessors read one storage cell each, distinct cells for distinct indices, every cell covered", floor=40)
    lay = Layout()
    got = {}
    for fn in db.fns("fcppt::math::matrix::at_r_c"):
        ta = fn.get("targs") or []
        sh = shape_of(fn["_unit"].ty(fn["params"][0]["t"]))
        if sh is None or sh[0] != "mat" or not is_static(str(ta[2])):
            continue
        r, c = int(ta[0].rstrip("U")), int(ta[1].rstrip("U"))
        try:
            v, ev = run(db, cfg, fn)
            k = single_cell(v, ev, fn["params"][0]["name"])
        except (Broken, sx.Unsupported, P.Unresolved) as e:
            rep.broken("C14 LAYOUT: at_r_c<%d,%d> on %dx%d: %s" % (r, c, sh[1], sh[2], e))
            continue
        const = "const" if str(ta[2]).startswith("const") else "mut"
        got.setdefault((sh[1], sh[2], const), {})[(r, c)] = (k, fn)
    for (R, C, const), m in sorted(got.items()):
        cells = sorted(k for k, _ in m.values())
        key = "at_r_c|%dx%d|%s" % (R, C, const)
        fn0 = next(iter(m.values()))[1]
        if set(m.keys()) != {(r, c) for r in range(R) for c in range(C)}:
            rep.broken("C14 LAYOUT: the driver does not instantiate every at_r_c of a %dx%d matrix" % (R, C))
            continue
        if cells != list(range(R * C)):
            rep.fail("LAYOUT", key, F.primary_site(fn0), F.describe(fn0),
                     "the %d accessors of a %dx%d matrix read the storage cells %s: not one distinct cell per index" % (R * C, R, C, [k for k, _ in m.values()]))
            continue
        cur = {rc: k for rc, (k, _) in m.items()}
        if (R, C) in lay.mat and lay.mat[(R, C)] != cur:
            rep.fail("LAYOUT", key, F.primary_site(fn0), F.describe(fn0), "const and non-const at_r_c disagree on the cell of an index")
            continue
        lay.mat[(R, C)] = cur
        rep.ok("LAYOUT", key, F.primary_site(fn0), F.describe(fn0), "bijection", detail={"cells": {"%d,%d" % rc: k for rc, k in sorted(cur.items())}})
    for nm, store in (("fcppt::math::vector::at", lay.vec), ("fcppt::math::dim::at", lay.dim)):
        got = {}
        for fn in db.fns(nm):
            ta = fn.get("targs") or []
            sh = shape_of(fn["_unit"].ty(fn["params"][0]["t"]))
            if sh is None or sh[0] not in ("vec", "dim") or not is_static(str(ta[1])):
                continue
            if (sh[0] == "vec") != nm.endswith("vector::at"):
                continue
            i = int(ta[0].rstrip("U"))
            try:
                v, ev = run(db, cfg, fn)
                k = single_cell(v, ev, fn["params"][0]["name"])
            except (Broken, sx.Unsupported, P.Unresolved) as e:
                rep.broken("C14 LAYOUT: %s<%d> on dimension %d: %s" % (nm, i, sh[1], e))
                continue
            got.setdefault(sh[1], {})[i] = (k, fn)
        for N, m in sorted(got.items()):
            key = "%s|%d" % (nm.split("fcppt::math::")[1], N)
            fn0 = next(iter(m.values()))[1]
            if set(m.keys()) != set(range(N)):
                continue    # partially instantiated dimension (used inside other code only)
            cells = sorted(k for k, _ in m.values())
            if cells != list(range(N)):
                rep.fail("LAYOUT", key, F.primary_site(fn0), F.describe(fn0), "accessors of dimension %d read the cells %s" % (N, [k for k, _ in m.values()]))
                continue
            store[N] = {i: k for i, (k, _) in m.items()}
            rep.ok("LAYOUT", key, F.primary_site(fn0), F.describe(fn0), "bijection")
    # named accessors x() y() z() w() agree with at<0..3>
    for cls, store, names in (("fcppt::math::vector::object", lay.vec, ("x", "y", "z", "w")), ("fcppt::math::dim::object", lay.dim, ("w", "h", "d"))):
        for j, nm in enumerate(names):
            for fn in db.fns(cls + "::" + nm):
                rt = fn.get("rec_targs") or []
                if len(rt) < 3 or not str(rt[2]).startswith("fcppt::math::detail::static_storage<") or not fn.get("const"):
                    continue
                N = int(str(rt[1]).rstrip("U"))
                key = "%s::%s()|%d" % (cls.split("::")[2], nm, N)
                if N not in store:
                    continue
                try:
                    v, ev = run(db, cfg, fn)
                    k = single_cell(v, ev, "this")
                except (Broken, sx.Unsupported, P.Unresolved) as e:
                    rep.broken("C14 LAYOUT: %s() of dimension %d: %s" % (nm, N, e))
                    continue
                if k != store[N][j]:
                    rep.fail("LAYOUT", key, F.primary_site(fn), F.describe(fn), "%s() reads cell %d, at<%d> reads cell %d" % (nm, k, j, store[N][j]))
                else:
                    rep.ok("LAYOUT", key, F.primary_site(fn), F.describe(fn), "same cell as at<%d>" % j)
    return lay


# --------------------------------------------------------------------------------------------
# operands and results as index -> Poly maps

class Operand:
    def __init__(self, name, shape):
        self.name = name
        self.shape = shape

    def __call__(self, *idx):
        return Poly.atom((self.name,) + tuple(idx))

    def scalar(self):
        return Poly.atom((self.name,))


def make_resolver(lay, operands, events):
    byname = {o.name: o for o in operands}

    def atom_of(root, k):
        o = byname.get(root)
        if o is None:
            raise P.Unresolved("element of an object that is not an operand: %s" % root)
        sh = o.shape
        if sh[0] == "mat":
            if (sh[1], sh[2]) not in lay.mat:
                raise P.Unresolved("no layout for a %dx%d matrix" % (sh[1], sh[2]))
            inv = lay.mat_inv(sh[1], sh[2])
            if k not in inv:
                raise P.Unresolved("cell %d outside a %dx%d matrix" % (k, sh[1], sh[2]))
            return o(*inv[k])
        if sh[0] in ("vec", "dim"):
            store = lay.vec if sh[0] == "vec" else lay.dim
            if sh[1] not in store:
                raise P.Unresolved("no layout for dimension %d" % sh[1])
            inv = lay.lin_inv(sh[0], sh[1])
            if k not in inv:
                raise P.Unresolved("cell %d outside dimension %d" % (k, sh[1]))
            return o(inv[k])
        raise P.Unresolved("element access into the scalar operand %s" % root)

    def scalar(name):
        o = byname.get(name)
        if o is None or o.shape[0] != "scalar":
            raise P.Unresolved("symbol %s used as a number" % name)
        return o.scalar()
    return NarrowAware(atom_of, scalar, events)


class Narrowed(Exception):
    pass


class NarrowAware(P.Resolver):
    def poly(self, v, depth=0):
        if isinstance(v, tuple) and v and v[0] == "narrow":
            raise Narrowed("a value of type %s is converted to %s on its way into the result: %s" % (v[2], v[1], sx.show(v[3])[:120]))
        return P.Resolver.poly(self, v, depth)


def result_map(lay, res, shape, value):
    """index -> Poly of a result value of the given shape"""
    if shape[0] == "scalar":
        return {(): res.poly(value)}
    cells = P.storage_list(value)
    if shape[0] == "mat":
        R, C = shape[1], shape[2]
        if (R, C) not in lay.mat:
            raise P.Unresolved("no layout for a %dx%d result" % (R, C))
        if len(cells) != R * C:
            raise P.Unresolved("result storage has %d cells, shape is %dx%d" % (len(cells), R, C))
        return {rc: res.poly(cells[k]) for rc, k in lay.mat[(R, C)].items()}
    store = lay.vec if shape[0] == "vec" else lay.dim
    N = shape[1]
    if N not in store:
        raise P.Unresolved("no layout for dimension %d" % N)
    if len(cells) != N:
        raise P.Unresolved("result storage has %d cells, dimension is %d" % (len(cells), N))
    return {(i,): res.poly(cells[k]) for i, k in store[N].items()}


# --------------------------------------------------------------------------------------------
# specifications: (operands, result shape, fn) -> {index: Poly}

def all_idx(shape):
    if shape[0] == "mat":
        return [(r, c) for r in range(shape[1]) for c in range(shape[2])]
    if shape[0] == "scalar":
        return [()]
    return [(i,) for i in range(shape[1])]


def kinds(ops):
    return tuple(o.shape[0] for o in ops)


def minor_det(entry, n, dr, dc):
    rows = [r for r in range(n) if r != dr]
    cols = [c for c in range(n) if c != dc]
    return P.leibniz(n - 1, lambda r, c: entry(rows[r], cols[c]))


def spec_for(fn, name, ops, rshape):
    """textbook formula of the operation, or None when the function is not in C14's list"""
    k = kinds(ops)
    short = name.split("::")[-1]
    ns = name.split("::")[2] if name.startswith("fcppt::math::") else ""
    ta = fn.get("targs") or []
    same = lambda a, b: a.shape == b.shape
    if short in ("operator+", "operator-") and len(ops) == 2 and k[0] == k[1] and k[0] in ("mat", "vec", "dim") and same(*ops):
        f = (lambda x, y: x + y) if short == "operator+" else (lambda x, y: x - y)
        return {i: f(ops[0](*i), ops[1](*i)) for i in all_idx(ops[0].shape)}, "component-wise " + short[-1]
    if short == "operator-" and len(ops) == 1 and k[0] in ("vec", "dim"):
        return {i: -ops[0](*i) for i in all_idx(ops[0].shape)}, "component-wise negation"
    if short == "operator*" and len(ops) == 2:
        a, b = ops
        if k == ("mat", "mat") and a.shape[2] == b.shape[1]:
            out = {}
            for r in range(a.shape[1]):
                for c in range(b.shape[2]):
                    s = Poly()
                    for j in range(a.shape[2]):
                        s = s + a(r, j) * b(j, c)
                    out[(r, c)] = s
            return out, "matrix product: sum_k a(r,k) * b(k,c)"
        if k == ("mat", "vec") and a.shape[2] == b.shape[1]:
            out = {}
            for r in range(a.shape[1]):
                s = Poly()
                for j in range(a.shape[2]):
                    s = s + a(r, j) * b(j)
                out[(r,)] = s
            return out, "matrix-vector product: sum_k a(r,k) * v(k)"
        if k[0] in ("vec", "dim") and k[1] == k[0] and same(a, b):
            return {i: a(*i) * b(*i) for i in all_idx(a.shape)}, "component-wise *"
        if k[0] in ("mat", "vec", "dim") and k[1] == "scalar":
            return {i: a(*i) * b.scalar() for i in all_idx(a.shape)}, "element * scalar"
        if k[0] == "scalar" and k[1] in ("mat", "vec", "dim"):
            return {i: a.scalar() * b(*i) for i in all_idx(b.shape)}, "scalar * element"
    if name == "fcppt::math::vector::dot" and k == ("vec", "vec"):
        s = Poly()
        for i in range(ops[0].shape[1]):
            s = s + ops[0](i) * ops[1](i)
        return {(): s}, "sum_i a(i) * b(i)"
    if name == "fcppt::math::vector::length_square" and k == ("vec",):
        s = Poly()
        for i in range(ops[0].shape[1]):
            s = s + ops[0](i) * ops[0](i)
        return {(): s}, "sum_i a(i)^2"
    if name == "fcppt::math::dim::contents" and k == ("dim",):
        s = Poly.const(1)
        for i in range(ops[0].shape[1]):
            s = s * ops[0](i)
        return {(): s}, "product of all extents"
    if name == "fcppt::math::vector::cross" and k == ("vec", "vec"):
        a, b = ops
        return {(0,): a(1) * b(2) - a(2) * b(1), (1,): a(2) * b(0) - a(0) * b(2), (2,): a(0) * b(1) - a(1) * b(0)}, "cross product"
    if name == "fcppt::math::matrix::transpose" and k == ("mat",):
        a = ops[0]
        return {(r, c): a(c, r) for r in range(a.shape[2]) for c in range(a.shape[1])}, "result(r,c) = a(c,r)"
    if name in ("fcppt::math::matrix::determinant", "fcppt::math::matrix::detail::determinant") and k == ("mat",):
        a = ops[0]
        return {(): P.leibniz(a.shape[1], a)}, "Leibniz formula"
    if name == "fcppt::math::matrix::adjugate" and k == ("mat",):
        a = ops[0]
        n = a.shape[1]
        return {(r, c): Poly.const(-1 if (r + c) % 2 else 1) * minor_det(a, n, c, r) for r in range(n) for c in range(n)}, \
            "result(r,c) = (-1)^(r+c) * det(a without row c and column r)"
    if name == "fcppt::math::matrix::identity" and not ops and rshape[0] == "mat":
        return {(r, c): Poly.const(1 if r == c else 0) for r, c in all_idx(rshape)}, "1 on the diagonal, 0 elsewhere"
    if name == "fcppt::math::matrix::delete_row_and_column" and k == ("mat",):
        a = ops[0]
        dr, dc = int(ta[0].rstrip("U")), int(ta[1].rstrip("U"))
        rows = [r for r in range(a.shape[1]) if r != dr]
        cols = [c for c in range(a.shape[2]) if c != dc]
        return {(r, c): a(rows[r], cols[c]) for r in range(len(rows)) for c in range(len(cols))}, "rows != %d, columns != %d in order" % (dr, dc)
    if short == "structure_cast" and len(ops) == 1 and k[0] in ("mat", "vec", "dim"):
        return {i: ops[0](*i) for i in all_idx(ops[0].shape)}, "same element at the same index"
    if short in ("to_dim", "to_vector") and len(ops) == 1:
        return {i: ops[0](*i) for i in all_idx(ops[0].shape)}, "same element at the same index"
    if short == "narrow_cast" and len(ops) == 1 and rshape[0] in ("vec", "dim"):
        return {(i,): ops[0](i) for i in range(rshape[1])}, "the first %d elements" % rshape[1]
    if short == "push_back" and len(ops) == 2 and k[1] == "scalar":
        n = ops[0].shape[1]
        out = {(i,): ops[0](i) for i in range(n)}
        out[(n,)] = ops[1].scalar()
        return out, "the elements followed by the new one"
    if short == "null" and not ops:
        return {i: Poly() for i in all_idx(rshape)}, "all zero"
    if short == "fill" and k == ("scalar",):
        return {i: ops[0].scalar() for i in all_idx(rshape)}, "the value everywhere"
    if name in ("fcppt::math::matrix::translation", "fcppt::math::matrix::scaling"):
        if k == ("scalar",) * 3:
            x = [o.scalar() for o in ops]
        elif k == ("vec",):
            x = [ops[0](i) for i in range(3)]
        else:
            return None
        out = {(r, c): Poly.const(1 if r == c else 0) for r in range(4) for c in range(4)}
        for i in range(3):
            if name.endswith("translation"):
                out[(i, 3)] = x[i]
            else:
                out[(i, i)] = x[i]
        return out, "homogeneous %s matrix" % name.split("::")[-1]
    return None


def operands_of(fn):
    u = fn["_unit"]
    ops = []
    for p in fn.get("params", []):
        sh = shape_of(u.ty(p["t"]))
        if sh is None:
            return None
        ops.append(Operand(p["name"], sh))
    return ops


def show_idx(i):
    return "(" + ",".join(str(x) for x in i) + ")" if i else ""


def compare(rep, rid, key, fn, got, want, text, names=None):
    bad = []
    for i in sorted(want):
        if i not in got:
            bad.append("element %s missing" % show_idx(i))
        elif got[i] != want[i]:
            bad.append("element %s is %s, formula gives %s" % (show_idx(i), got[i].show(names), want[i].show(names)))
    extra = sorted(set(got) - set(want))
    if extra:
        bad.append("unexpected elements %s" % extra)
    if bad:
        rep.fail(rid, key, F.primary_site(fn), F.describe(fn), "%s: %s" % (text, "; ".join(bad[:3])))
    else:
        rep.ok(rid, key, F.primary_site(fn), F.describe(fn), text, detail={"elements": len(want)})
    return not bad


FORMULA_FUNCS = [
    "fcppt::math::vector::operator+", "fcppt::math::vector::operator-", "fcppt::math::vector::operator*",
    "fcppt::math::dim::operator+", "fcppt::math::dim::operator-", "fcppt::math::dim::operator*",
    "fcppt::math::matrix::operator+", "fcppt::math::matrix::operator-", "fcppt::math::matrix::operator*",
    "fcppt::math::vector::dot", "fcppt::math::vector::cross", "fcppt::math::vector::length_square", "fcppt::math::dim::contents",
    "fcppt::math::matrix::transpose", "fcppt::math::matrix::determinant", "fcppt::math::matrix::adjugate",
    "fcppt::math::matrix::identity", "fcppt::math::matrix::delete_row_and_column",
    "fcppt::math::matrix::translation", "fcppt::math::matrix::scaling",
    "fcppt::math::vector::structure_cast", "fcppt::math::dim::structure_cast", "fcppt::math::matrix::structure_cast",
    "fcppt::math::vector::narrow_cast", "fcppt::math::dim::narrow_cast", "fcppt::math::vector::push_back", "fcppt::math::dim::push_back",
    "fcppt::math::vector::null", "fcppt::math::dim::null", "fcppt::math::vector::fill", "fcppt::math::dim::fill",
    "fcppt::math::vector::to_dim", "fcppt::math::dim::to_vector",
]


def fn_key(name, fn, ops, rshape):
    def sh(s):
        return "x".join(str(x) for x in s[1:]) if s[0] != "scalar" else "s"
    extra = ""
    if name.endswith("delete_row_and_column"):
        ta = fn.get("targs") or []
        extra = "<%s,%s>" % (ta[0].rstrip("U"), ta[1].rstrip("U"))
    u = fn["_unit"]
    tys = [(_OBJ.match(re.sub(r"^const\s+", "", (u.ty(p["t"]) or "").strip())) or [None, None, None])[2] for p in fn["params"]]
    mixed = "|mixed:" + "/".join(t or "s" for t in tys) if any(t not in (None, "int") for t in tys) else ""
    return "%s%s|%s->%s%s" % (name.replace("fcppt::math::", ""), extra, ",".join(o.shape[0] + sh(o.shape) for o in ops),
                              rshape[0] + sh(rshape), mixed)


def evaluate(db, cfg, lay, fn, ops, rshape, this=None):
    v, ev = run(db, cfg, fn, this=this)
    res = make_resolver(lay, ops, ev)
    return result_map(lay, res, rshape, v), ev, res


def evaluate_paths(db, cfg, lay, fn, ops, rshape):
    """[(substitution implied by the path, result map)] for every path"""
    out = []
    for decisions, v, ev in run_paths(db, cfg, fn):
        res = make_resolver(lay, ops, ev)
        out.append((path_subst(res, decisions), result_map(lay, res, rshape, v)))
    return out


def rule_formula(rep, db, cfg, lay):
    rep.rule("FORMULA", "every result element equals the textbook formula at the same index (polynomial identity over the operand elements)", floor=150)
    derived = {}
    for name in FORMULA_FUNCS:
        fns = db.fns(name)
        n_here = 0
        for fn in fns:
            u = fn["_unit"]
            ops = operands_of(fn)
            rshape = shape_of(u.ty(fn.get("ret")))
            if ops is None or rshape is None:
                continue
            if any(not is_static(u.ty(p["t"])) for p, o in zip(fn["params"], ops) if o.shape[0] != "scalar"):
                continue    # view operands are decided through the VIEW scenarios
            sp = spec_for(fn, name, ops, rshape)
            if sp is None:
                continue
            want, text = sp
            key = fn_key(name, fn, ops, rshape)
            try:
                paths = evaluate_paths(db, cfg, lay, fn, ops, rshape)
            except Narrowed as e:
                rep.fail("FORMULA", key, F.primary_site(fn), F.describe(fn), "%s: %s" % (text, e))
                n_here += 1
                continue
            except (Broken, sx.Unsupported, P.Unresolved) as e:
                rep.broken("C14 FORMULA %s at %s: the result does not reduce to a ring expression over the operands' elements: %s"
                           % (key, F.primary_site(fn), e))
                n_here += 1
                continue
            if len(paths) == 1 and not paths[0][0]:
                compare(rep, "FORMULA", key, fn, paths[0][1], want, text)
                derived[key] = (fn, ops, rshape, paths[0][1])
            else:
                # value-dependent shortcuts: on each path the result must equal the formula under the path's own assumptions
                bad = None
                for sub, got in paths:
                    for i in sorted(want):
                        w = apply_subst(want[i], sub)
                        g = apply_subst(got.get(i, Poly.atom(("missing",))), sub)
                        if g != w:
                            bad = "on the path where %s: element %s is %s, formula gives %s" % (
                                ", ".join("%s[%s] = %d" % (a[0], ",".join(str(x) for x in a[1:]), c) for a, c in sorted(sub.items())) or "no element is tested",
                                show_idx(i), g.show(), w.show())
                            break
                    if bad:
                        break
                if bad:
                    rep.fail("FORMULA", key, F.primary_site(fn), F.describe(fn), "%s: %s" % (text, bad))
                else:
                    rep.ok("FORMULA", key, F.primary_site(fn), F.describe(fn), text + " (on each of %d paths)" % len(paths))
            n_here += 1
        if n_here == 0:
            rep.broken("C14 FORMULA: no analysable instantiation of %s" % name)
    return derived


# --------------------------------------------------------------------------------------------
# INPLACE

INPLACE = {"+=": lambda x, y: x + y, "-=": lambda x, y: x - y, "*=": lambda x, y: x * y, "=": lambda x, y: y}


def rule_inplace(rep, db, cfg, lay):
    rep.rule("INPLACE", "+=, -=, *= and the cross-storage assignment write every element of *this exactly once with the formula's value", floor=60)
    for cls, kind in (("fcppt::math::vector::object", "vec"), ("fcppt::math::dim::object", "dim"), ("fcppt::math::matrix::object", "mat")):
        for opn in ("+=", "-=", "*=", "="):
            for fn in db.fns(cls + "::operator" + opn):
                rt = [str(x).rstrip("U") for x in (fn.get("rec_targs") or [])]
                u = fn["_unit"]
                if kind == "mat":
                    if len(rt) < 4 or not plain_storage(rt[3]):
                        continue
                    tshape = ("mat", int(rt[1]), int(rt[2]))
                else:
                    if len(rt) < 3 or not plain_storage(rt[2]):
                        continue
                    tshape = (kind, int(rt[1]))
                ops = operands_of(fn)
                if ops is None or len(ops) != 1:
                    continue
                if ops[0].shape[0] != "scalar" and not is_plain(u.ty(fn["params"][0]["t"])):
                    continue
                if opn == "=" and (fn.get("defaulted") or fn.get("body") is None or ops[0].shape[0] == "scalar"):
                    continue
                stor = "|view<-static" if "view_storage" in str(rt[-1]) else "|static<-view" if "view_storage" in (u.ty(fn["params"][0]["t"]) or "") else ""
                me = Operand("this", tshape)
                rhs = ops[0]
                if rhs.shape[0] != "scalar" and rhs.shape != tshape:
                    continue
                key = "%s::operator%s|%s%s" % (cls.replace("fcppt::math::", ""), opn,
                                               ("s" if rhs.shape[0] == "scalar" else "same") + "|" + "x".join(str(x) for x in tshape[1:]), stor)
                try:
                    v, ev = run(db, cfg, fn)
                    res = make_resolver(lay, [me, rhs], ev)
                    writes = {}
                    others = []
                    for name, args, loc in ev:
                        if name in ("refwrite", "write") and len(args) == 2:
                            tgt = res.poly(args[0])
                            if len(tgt.t) != 1 or list(tgt.t.values()) != [1] or len(list(tgt.t)[0]) != 1 or list(tgt.t)[0][0][0] != "this":
                                raise P.Unresolved("write to something that is not an element of *this: %s" % sx.show(args[0]))
                            idx = list(tgt.t)[0][0][1:]
                            writes.setdefault(idx, []).append(res.poly(args[1]))
                        else:
                            others.append(name)
                    if others:
                        raise P.Unresolved("opaque effects: %s" % others[:2])
                except (Broken, sx.Unsupported, P.Unresolved) as e:
                    rep.broken("C14 INPLACE %s at %s: does not reduce to element writes of *this: %s" % (key, F.primary_site(fn), e))
                    continue
                f = INPLACE[opn]
                bad = []
                for i in all_idx(tshape):
                    want = f(me(*i), rhs.scalar() if rhs.shape[0] == "scalar" else rhs(*i))
                    w = writes.get(tuple(i), [])
                    if len(w) != 1:
                        bad.append("element %s written %d times" % (show_idx(i), len(w)))
                    elif w[0] != want:
                        bad.append("element %s becomes %s, expected %s" % (show_idx(i), w[0].show(), want.show()))
                extra = set(writes) - {tuple(i) for i in all_idx(tshape)}
                if extra:
                    bad.append("writes outside the object: %s" % sorted(extra))
                if bad:
                    rep.fail("INPLACE", key, F.primary_site(fn), F.describe(fn), "; ".join(bad[:3]))
                else:
                    rep.ok("INPLACE", key, F.primary_site(fn), F.describe(fn), "element-wise " + opn, detail={"elements": len(all_idx(tshape))})


# --------------------------------------------------------------------------------------------
# ALIAS: v *= v.x()

def _uses(fn, pid):
    """(node, parent chain) of every reference to declaration pid in fn's body, lambdas included; a lambda that captures pid by copy
    hides its inner uses (they read the copy)"""
    out = []

    def visit(n, parents):
        if isinstance(n, dict):
            if n.get("k") == "ref" and n.get("id") == pid:
                out.append((n, list(parents)))
            if n.get("k") == "lambda":
                caps = {c.get("id"): c.get("by") for c in n.get("captures", [])}
                if caps.get(pid) == "copy":
                    out.append(({"k": "capture-by-copy", "loc": n.get("loc")}, list(parents)))
                    return
                for op in n.get("ops", []):
                    visit(op.get("body"), parents + [n])
                return
            for c in F.children(n):
                visit(c, parents + [n])
    visit(fn.get("body"), [])
    return out


def copied_before_use(db, fn, pid, depth=0):
    """None if every use of the reference parameter pid hands it to a by-value parameter / capture / local, else a reason"""
    u = fn["_unit"]
    if depth > 4:
        return "call chain too deep"
    for node, parents in _uses(fn, pid):
        if node.get("k") == "capture-by-copy":
            continue
        par = None
        child = node
        for q in reversed(parents):
            if T.unwrap(u, q) is child or q.get("k") in ("icast", "cast", "initlist") or (q.get("k") == "call" and T.callee_qn(u, q) in T.TRANSPARENT_CALLS):
                child = q
                continue
            par = q
            break
        if par is not None and par.get("k") == "var" and "&" not in (u.ty(par.get("t")) or ""):
            continue
        if par is not None and par.get("k") == "call" and par.get("callee") is not None:
            args = par.get("args", [])
            idx = next((i for i, a in enumerate(args) if a is child or T.unwrap(u, a) is node), None)
            callee = db.resolve(u, par["callee"])
            if idx is not None and callee is not None and idx < len(callee.get("params", [])):
                cp = callee["params"][idx]
                if cp.get("ref") == "val":
                    continue
                why = copied_before_use(db, callee, cp["id"], depth + 1)
                if why is None:
                    continue
                return why
        return "%s reads it through the reference at %s" % (F.fn_name(fn).split("fcppt::math::")[-1], u.loc(node.get("loc")))
    return None


def rule_alias(rep, db):
    rep.rule("ALIAS", "an in-place scalar multiplication reads the scalar from a copy made before the first element is overwritten (v *= v.x())", floor=6)
    for cls in ("fcppt::math::vector::object", "fcppt::math::dim::object", "fcppt::math::matrix::object"):
        seen = set()
        for fn in db.fns(cls + "::operator*="):
            ops = operands_of(fn)
            if ops is None or len(ops) != 1 or ops[0].shape[0] != "scalar":
                continue
            rt = tuple(str(x) for x in (fn.get("rec_targs") or []))
            if rt in seen:
                continue
            seen.add(rt)
            key = "%s::operator*=|%s" % (cls.replace("fcppt::math::", ""), "x".join(x.rstrip("U") for x in rt[1:-1]))
            p = fn["params"][0]
            why = None if p.get("ref") == "val" else copied_before_use(db, fn, p["id"])
            if why:
                rep.fail("ALIAS", key, F.primary_site(fn), F.describe(fn),
                         "the multiplier may be an element of the object itself and is not copied before the elements are overwritten: " + why)
            else:
                rep.ok("ALIAS", key, F.primary_site(fn), F.describe(fn), "copied into a by-value parameter")


# --------------------------------------------------------------------------------------------
# VIEW scenarios (driver functions whose bodies apply library operations to row views)

def rule_view(rep, db, cfg, lay):
    rep.rule("VIEW", "operations on a row view of a matrix read the elements of the viewed row; construction from rows / elements keeps their order", floor=15)
    specs = {
        "scenario_row_plus": lambda ta, o: ({(c,): o[0](ta[2], c) + o[1](c) for c in range(ta[1])}, "row I + v"),
        "scenario_row_dot": lambda ta, o: ({(): sum((o[0](ta[2], c) * o[0](ta[3], c) for c in range(ta[1])), Poly())}, "row I . row J"),
        "scenario_row_scale": lambda ta, o: ({(c,): o[0](ta[2], c) * o[1].scalar() for c in range(ta[1])}, "row I * s"),
        "scenario_row_copy": lambda ta, o: ({(c,): o[0](ta[2], c) for c in range(ta[1])}, "copy of row I"),
    }
    def scal(o, n):
        return [x.scalar() for x in o[:n]]
    specs.update({
        "scenario_rows_2x3": lambda ta, o: ({(r, c): o[r * 3 + c].scalar() for r in range(2) for c in range(3)}, "rows in order, elements in order"),
        "scenario_rows_3x2": lambda ta, o: ({(r, c): o[r * 2 + c].scalar() for r in range(3) for c in range(2)}, "rows in order, elements in order"),
        "scenario_elements_4": lambda ta, o: ({(i,): o[i].scalar() for i in range(4)}, "elements in order"),
        "scenario_dim_elements_3": lambda ta, o: ({(i,): o[i].scalar() for i in range(3)}, "elements in order"),
        "scenario_convert_matrix": lambda ta, o: ({(r, c): o[0](r, c) for r in range(ta[0]) for c in range(ta[1])}, "converting constructor copies every element"),
        "scenario_convert_vector": lambda ta, o: ({(i,): o[0](i) for i in range(ta[0])}, "converting constructor copies every element"),
    })
    for nm, mk in specs.items():
        fns = db.fns("(anonymous namespace)::" + nm)
        if not fns:
            rep.broken("C14 VIEW: driver scenario %s not found" % nm)
        for fn in fns:
            ta = [int(str(x).rstrip("U")) for x in fn.get("targs") or []]
            ops = operands_of(fn)
            rshape = shape_of(fn["_unit"].ty(fn.get("ret")))
            key = "%s<%s>" % (nm, ",".join(str(x) for x in ta))
            if ops is None or rshape is None:
                rep.broken("C14 VIEW: %s: operand or result type not recognised" % key)
                continue
            want, text = mk(ta, ops)
            try:
                got, ev, _ = evaluate(db, cfg, lay, fn, ops, rshape)
            except (Broken, sx.Unsupported, P.Unresolved) as e:
                rep.broken("C14 VIEW %s: does not reduce to a ring expression over the matrix elements: %s" % (key, e))
                continue
            compare(rep, "VIEW", key, fn, got, want, text)


# --------------------------------------------------------------------------------------------
# IDENT: the property's identities on the code-derived maps

class Derived:
    """code-derived polynomial map of an operation, applicable to polynomial arguments"""

    def __init__(self, fn, ops, rshape, got):
        self.fn, self.ops, self.rshape, self.got = fn, ops, rshape, got

    def __call__(self, *args):
        """args: one {index: Poly} map (or Poly for scalars) per operand"""
        byname = {o.name: a for o, a in zip(self.ops, args)}

        def f(atom):
            a = byname[atom[0]]
            if isinstance(a, Poly):
                return a
            return a[tuple(atom[1:])]
        return {i: p.subst(f) for i, p in self.got.items()}


def sym_mat(name, R, C):
    return {(r, c): Poly.atom((name, r, c)) for r in range(R) for c in range(C)}


def rule_ident(rep, derived):
    rep.rule("IDENT", "ring and module identities hold for the code-derived polynomial maps", floor=20)
    D = {k: Derived(*v) for k, v in derived.items()}

    def get(k):
        if k not in D:
            raise KeyError(k)
        return D[k]

    def sq(n):
        return "mat%dx%d" % (n, n)

    def check(key, fnkey, lhs, rhs, text):
        fn = D[fnkey].fn
        if lhs == rhs:
            rep.ok("IDENT", key, F.primary_site(fn), F.describe(fn), text)
        else:
            diff = [i for i in sorted(lhs) if lhs[i] != rhs.get(i)]
            i = diff[0] if diff else None
            rep.fail("IDENT", key, F.primary_site(fn), F.describe(fn), "%s fails at element %s: %s vs %s" % (
                text, show_idx(i) if i is not None else "?", lhs[i].show() if i is not None else "?", rhs[i].show() if i is not None and i in rhs else "missing"))

    for n in (1, 2, 3, 4):
        A, B, C = sym_mat("A", n, n), sym_mat("B", n, n), sym_mat("C", n, n)
        kp = "matrix::operator*|%s,%s->%s" % (sq(n), sq(n), sq(n))
        ka = "matrix::operator+|%s,%s->%s" % (sq(n), sq(n), sq(n))
        kt = "matrix::transpose|%s->%s" % (sq(n), sq(n))
        kd = "matrix::determinant|%s->scalars" % sq(n)
        kj = "matrix::adjugate|%s->%s" % (sq(n), sq(n))
        ki = "matrix::identity|->%s" % sq(n)
        ks = "matrix::operator*|%s,scalars->%s" % (sq(n), sq(n))
        try:
            mul, add, tr, det, idm = get(kp), get(ka), get(kt), get(kd), get(ki)
        except KeyError as e:
            rep.broken("C14 IDENT: no code-derived map for %s" % e)
            continue
        if n <= 3:
            check("assoc|%d" % n, kp, mul(mul(A, B), C), mul(A, mul(B, C)), "(AB)C = A(BC)")
        check("distrib|%d" % n, kp, mul(A, add(B, C)), add(mul(A, B), mul(A, C)), "A(B+C) = AB + AC")
        check("transpose-involution|%d" % n, kt, tr(tr(A)), A, "(A^T)^T = A")
        check("transpose-product|%d" % n, kt, tr(mul(A, B)), mul(tr(B), tr(A)), "(AB)^T = B^T A^T")
        check("identity-neutral|%d" % n, ki, mul(idm(), A), A, "I A = A")
        check("identity-neutral-right|%d" % n, ki, mul(A, idm()), A, "A I = A")
        if n <= 3:
            dab = det(mul(A, B))[()]
            check("det-multiplicative|%d" % n, kd, {(): dab}, {(): det(A)[()] * det(B)[()]}, "det(AB) = det(A) det(B)")
        if n >= 2:
            try:
                adj, scal = get(kj), get(ks)
            except KeyError as e:
                rep.broken("C14 IDENT: no code-derived map for %s" % e)
                continue
            check("adjugate|%d" % n, kj, mul(A, adj(A)), scal(idm(), det(A)[()]), "A adj(A) = det(A) I")
            check("adjugate-left|%d" % n, kj, mul(adj(A), A), scal(idm(), det(A)[()]), "adj(A) A = det(A) I")


def main(rep, tier, only):
    db = load.load(tier, lib=False, drivers=["drv_math"])
    rep.extra.update(db.stats())
    cfg = config()
    lay = rule_layout(rep, db, cfg)
    derived = {}
    if only in (None, "FORMULA", "IDENT"):
        derived = rule_formula(rep, db, cfg, lay)
    if only in (None, "INPLACE"):
        rule_inplace(rep, db, cfg, lay)
    if only in (None, "ALIAS"):
        rule_alias(rep, db)
    if only in (None, "VIEW"):
        rule_view(rep, db, cfg, lay)
    if only in (None, "IDENT"):
        rule_ident(rep, derived)
    if only in (None, "BITS"):
        from checks import c13_arith
        c13_arith.rule_bits(rep, db)
    rep.explanation = (
        "The operators contain no branch on an element value, so each instantiation (int scalars, dimensions 1-4) reduces, with the "
        "fcppt::math / fcppt::array / static-loop plumbing expanded by abstract interpretation, to one path whose result is the storage "
        "array of provenance terms over operand elements. Each term is normalised to a polynomial with integer coefficients (canonical "
        "form of the ring expression) and compared with the textbook formula at the same index; indices are translated through the "
        "accessor layout derived from the same tree. The property's identities are then evaluated on the code-derived maps themselves.")
    rep.trusted = ["clang 14 front end", "std::array / std::get / std::tuple element access", "ring axioms of the scalar type (exact integers; machine overflow excluded)"]
    rep.assumptions = ["dimension-generic code: decided for dimensions 1..4 (the property's range); larger dimensions instantiate the same templates"]
    rep.extra["not_covered"] = ["comparison operators of vector / dim / matrix (C17 LT-LEX / EQ-FORM)", "division operators (optional results)",
                                "floating-point functions (inverse, rotation_*, exponential_pade, logarithm, sqrt, normalize, length)"]
