// Instantiation driver: fcppt::container::grid (N in {1,2,3}) and fcppt::math::box
// (N in {1,2,3}, T in {int, unsigned, float}). Parsed only; never linked or run.
#include "drv.hpp"
#include <fcppt/no_init.hpp>
#include <fcppt/cast/float_to_int_fun.hpp>
#include <fcppt/cast/int_to_float_fun.hpp>
#include <fcppt/cast/static_cast_fun.hpp>
#include <fcppt/cast/to_signed_fun.hpp>
#include <fcppt/container/grid/apply.hpp>
#include <fcppt/container/grid/at_optional.hpp>
#include <fcppt/container/grid/clamped_min.hpp>
#include <fcppt/container/grid/clamped_sup.hpp>
#include <fcppt/container/grid/clamped_sup_signed.hpp>
#include <fcppt/container/grid/comparison.hpp>
#include <fcppt/container/grid/dim.hpp>
#include <fcppt/container/grid/end_position.hpp>
#include <fcppt/container/grid/fill.hpp>
#include <fcppt/container/grid/in_range.hpp>
#include <fcppt/container/grid/in_range_dim.hpp>
#include <fcppt/container/grid/interpolate.hpp>
#include <fcppt/container/grid/make_min.hpp>
#include <fcppt/container/grid/make_pos_range.hpp>
#include <fcppt/container/grid/make_pos_range_start_end.hpp>
#include <fcppt/container/grid/make_pos_ref_crange.hpp>
#include <fcppt/container/grid/make_pos_ref_crange_start_end.hpp>
#include <fcppt/container/grid/make_pos_ref_range.hpp>
#include <fcppt/container/grid/make_pos_ref_range_start_end.hpp>
#include <fcppt/container/grid/make_spiral_range.hpp>
#include <fcppt/container/grid/make_sup.hpp>
#include <fcppt/container/grid/map.hpp>
#include <fcppt/container/grid/min.hpp>
#include <fcppt/container/grid/min_less_sup.hpp>
#include <fcppt/container/grid/moore_neighbors.hpp>
#include <fcppt/container/grid/neumann_neighbors.hpp>
#include <fcppt/container/grid/next_position.hpp>
#include <fcppt/container/grid/object.hpp>
#include <fcppt/container/grid/offset.hpp>
#include <fcppt/container/grid/output.hpp>
#include <fcppt/container/grid/pos.hpp>
#include <fcppt/container/grid/pos_range.hpp>
#include <fcppt/container/grid/pos_ref_range.hpp>
#include <fcppt/container/grid/pos_reference.hpp>
#include <fcppt/container/grid/range_dim.hpp>
#include <fcppt/container/grid/range_size.hpp>
#include <fcppt/container/grid/resize.hpp>
#include <fcppt/container/grid/spiral_iterator_impl.hpp>
#include <fcppt/container/grid/spiral_range_impl.hpp>
#include <fcppt/container/grid/static_row.hpp>
#include <fcppt/container/grid/sup.hpp>
#include <fcppt/math/interval_distance.hpp>
#include <fcppt/math/size_constant.hpp>
#include <fcppt/math/size_type.hpp>
#include <fcppt/math/box/center.hpp>
#include <fcppt/math/box/comparison.hpp>
#include <fcppt/math/box/componentwise_equal.hpp>
#include <fcppt/math/box/contains.hpp>
#include <fcppt/math/box/contains_point.hpp>
#include <fcppt/math/box/corner_points.hpp>
#include <fcppt/math/box/distance.hpp>
#include <fcppt/math/box/extend_bounding_box.hpp>
#include <fcppt/math/box/init_dim.hpp>
#include <fcppt/math/box/init_max.hpp>
#include <fcppt/math/box/intersection.hpp>
#include <fcppt/math/box/intersects.hpp>
#include <fcppt/math/box/interval.hpp>
#include <fcppt/math/box/null.hpp>
#include <fcppt/math/box/object.hpp>
#include <fcppt/math/box/output.hpp>
#include <fcppt/math/box/shrink.hpp>
#include <fcppt/math/box/stretch_absolute.hpp>
#include <fcppt/math/box/stretch_relative.hpp>
#include <fcppt/math/box/structure_cast.hpp>
#include <fcppt/math/dim/contents.hpp>
#include <fcppt/math/dim/static.hpp>
#include <fcppt/math/vector/static.hpp>
#include <fcppt/tuple/object.hpp>
#include <cstddef>
#include <ostream>

namespace drv_grid_box
{
namespace grid = fcppt::container::grid;
namespace box = fcppt::math::box;

struct elem
{
  int a;
  long b;
};

using usz = std::size_t;
using ssz = std::ptrdiff_t;

template <typename T, usz N>
using grid_t = grid::object<T, N>;
template <usz N>
using pos_t = grid::pos<usz, N>;
template <usz N>
using dim_t = grid::dim<usz, N>;
template <usz N>
using spos_t = grid::pos<ssz, N>;
template <usz N>
using min_t = grid::min<usz, N>;
template <usz N>
using sup_t = grid::sup<usz, N>;

// polymorphic opaque functor for box::init_max / box::init_dim
template <typename T>
struct index_fn
{
  template <fcppt::math::size_type I>
  fcppt::tuple::object<T, T> operator()(fcppt::math::size_constant<I>) const;
};
}
using namespace drv_grid_box;

// ---------------------------------------------------------------- grid::object, all members
template class fcppt::container::grid::object<int, 1>;
template class fcppt::container::grid::object<int, 2>;
template class fcppt::container::grid::object<int, 3>;
template class fcppt::container::grid::object<drv_grid_box::elem, 1>;
template class fcppt::container::grid::object<drv_grid_box::elem, 2>;
template class fcppt::container::grid::object<drv_grid_box::elem, 3>;
template class fcppt::container::grid::object<float, 1>;
template class fcppt::container::grid::object<float, 2>;
template class fcppt::container::grid::object<float, 3>;

#define DRV_GRID_NS(M) M(1) M(2) M(3)

// ---------------------------------------------------------------- constructors, swap
#define M(N) \
  DRV(drv_grid_object_ctor_##N) \
  { \
    (void)grid_t<int, N>(); \
    (void)grid_t<int, N>(drv::clv<dim_t<N>>(), drv::clv<int>()); \
    (void)grid_t<int, N>(drv::clv<dim_t<N>>(), drv::clv<drv::fn<int(pos_t<N>)>>()); \
    (void)grid_t<elem, N>(drv::clv<dim_t<N>>(), drv::clv<drv::fn<elem(pos_t<N>)>>()); \
    (void)grid_t<int, N>(drv::clv<grid_t<int, N>>()); \
    (void)grid_t<int, N>(drv::make<grid_t<int, N>>()); \
    drv::lv<grid_t<int, N>>() = drv::clv<grid_t<int, N>>(); \
    drv::lv<grid_t<int, N>>() = drv::make<grid_t<int, N>>(); \
    (void)drv::lv<grid_t<int, N>>().get_unsafe(drv::clv<pos_t<N>>()); \
    (void)drv::clv<grid_t<int, N>>().get_unsafe(drv::clv<pos_t<N>>()); \
    (void)drv::clv<grid_t<int, N>>().size(); \
    (void)drv::clv<grid_t<int, N>>().content(); \
    (void)drv::clv<grid_t<int, N>>().empty(); \
    (void)drv::lv<grid_t<int, N>>().begin(); \
    (void)drv::lv<grid_t<int, N>>().end(); \
    (void)drv::clv<grid_t<int, N>>().begin(); \
    (void)drv::clv<grid_t<int, N>>().end(); \
    drv::lv<grid_t<int, N>>().swap(drv::lv<grid_t<int, N>>()); \
    swap(drv::lv<grid_t<int, N>>(), drv::lv<grid_t<int, N>>()); \
  }
DRV_GRID_NS(M)
#undef M

DRV(drv_grid_object_ctor_static_row)
{
  (void)grid::object<int, 2>(
      grid::static_row(drv::clv<int>(), drv::clv<int>(), drv::clv<int>()),
      grid::static_row(drv::clv<int>(), drv::clv<int>(), drv::clv<int>()));
  (void)grid::object<int, 2>(grid::static_row(drv::make<int>(), drv::make<int>()));
}

// ---------------------------------------------------------------- position arithmetic
#define M(N) \
  DRV(drv_grid_offset_##N) { (void)grid::offset(drv::clv<pos_t<N>>(), drv::clv<dim_t<N>>()); } \
  DRV(drv_grid_next_position_##N) \
  { \
    (void)grid::next_position( \
        drv::clv<pos_t<N>>(), drv::clv<min_t<N>>(), drv::clv<sup_t<N>>()); \
  } \
  DRV(drv_grid_end_position_##N) \
  { \
    (void)grid::end_position(drv::clv<min_t<N>>(), drv::clv<sup_t<N>>()); \
  } \
  DRV(drv_grid_range_size_##N) \
  { \
    (void)grid::range_size(drv::clv<min_t<N>>(), drv::clv<sup_t<N>>()); \
  } \
  DRV(drv_grid_range_dim_##N) \
  { \
    (void)grid::range_dim(drv::clv<min_t<N>>(), drv::clv<sup_t<N>>()); \
  } \
  DRV(drv_grid_min_less_sup_##N) \
  { \
    (void)grid::min_less_sup(drv::clv<min_t<N>>(), drv::clv<sup_t<N>>()); \
  } \
  DRV(drv_grid_make_min_sup_##N) \
  { \
    (void)grid::make_min(drv::clv<pos_t<N>>()); \
    (void)grid::make_sup(drv::clv<pos_t<N>>()); \
  } \
  DRV(drv_grid_in_range_##N) \
  { \
    (void)grid::in_range(drv::clv<grid_t<int, N>>(), drv::clv<pos_t<N>>()); \
  } \
  DRV(drv_grid_in_range_dim_##N) \
  { \
    (void)grid::in_range_dim(drv::clv<dim_t<N>>(), drv::clv<pos_t<N>>()); \
  } \
  DRV(drv_grid_at_optional_##N) \
  { \
    (void)grid::at_optional(drv::lv<grid_t<int, N>>(), drv::clv<pos_t<N>>()); \
    (void)grid::at_optional(drv::clv<grid_t<int, N>>(), drv::clv<pos_t<N>>()); \
    (void)grid::at_optional(drv::lv<grid_t<elem, N>>(), drv::clv<pos_t<N>>()); \
    (void)grid::at_optional(drv::clv<grid_t<elem, N>>(), drv::clv<pos_t<N>>()); \
  } \
  DRV(drv_grid_dim_contents_##N) { (void)fcppt::math::dim::contents(drv::clv<dim_t<N>>()); } \
  DRV(drv_grid_clamped_min_##N) { (void)grid::clamped_min(drv::clv<spos_t<N>>()); } \
  DRV(drv_grid_clamped_sup_##N) \
  { \
    (void)grid::clamped_sup(drv::clv<pos_t<N>>(), drv::clv<dim_t<N>>()); \
  } \
  DRV(drv_grid_clamped_sup_signed_##N) \
  { \
    (void)grid::clamped_sup_signed(drv::clv<spos_t<N>>(), drv::clv<dim_t<N>>()); \
  }
DRV_GRID_NS(M)
#undef M

// ---------------------------------------------------------------- ranges and iterators
#define M(N) \
  DRV(drv_grid_pos_range_##N) \
  { \
    for (auto const &p : grid::make_pos_range(drv::clv<dim_t<N>>())) \
    { \
      (void)p; \
    } \
    auto const r(grid::make_pos_range_start_end(drv::clv<min_t<N>>(), drv::clv<sup_t<N>>())); \
    for (auto const &p : r) \
    { \
      (void)p; \
    } \
    (void)r.size(); \
    (void)r.min(); \
    (void)r.sup(); \
    auto it(r.begin()); \
    (void)*it; \
    ++it; \
    (void)it++; \
    (void)(it == r.end()); \
    (void)(it != r.end()); \
    it.increment(); \
    (void)it.dereference(); \
    (void)it.equal(r.end()); \
  } \
  DRV(drv_grid_pos_ref_range_##N) \
  { \
    for (auto const &e : grid::make_pos_ref_range(drv::lv<grid_t<int, N>>())) \
    { \
      (void)e.pos(); \
      (void)e.value(); \
    } \
    auto const r(grid::make_pos_ref_range_start_end( \
        drv::lv<grid_t<int, N>>(), drv::clv<min_t<N>>(), drv::clv<sup_t<N>>())); \
    for (auto const &e : r) \
    { \
      (void)e.pos(); \
      (void)e.value(); \
    } \
    (void)r.size(); \
    (void)r.min(); \
    (void)r.sup(); \
    auto it(r.begin()); \
    (void)*it; \
    ++it; \
    (void)it++; \
    (void)(it == r.end()); \
    (void)(it != r.end()); \
    it.increment(); \
    (void)it.dereference(); \
    (void)it.equal(r.end()); \
  } \
  DRV(drv_grid_pos_ref_crange_##N) \
  { \
    for (auto const &e : grid::make_pos_ref_crange(drv::clv<grid_t<int, N>>())) \
    { \
      (void)e.pos(); \
      (void)e.value(); \
    } \
    auto const r(grid::make_pos_ref_crange_start_end( \
        drv::clv<grid_t<int, N>>(), drv::clv<min_t<N>>(), drv::clv<sup_t<N>>())); \
    for (auto const &e : r) \
    { \
      (void)e.pos(); \
      (void)e.value(); \
    } \
    (void)r.size(); \
    (void)r.min(); \
    (void)r.sup(); \
    for (auto const &e : grid::make_pos_ref_range(drv::clv<grid_t<elem, N>>())) \
    { \
      (void)e.pos(); \
      (void)e.value(); \
    } \
    auto it(r.begin()); \
    (void)*it; \
    ++it; \
    (void)it++; \
    (void)(it == r.end()); \
    it.increment(); \
    (void)it.dereference(); \
    (void)it.equal(r.end()); \
  }
DRV_GRID_NS(M)
#undef M

DRV(drv_grid_spiral_range)
{
  auto const r(grid::make_spiral_range(drv::clv<grid::pos<int, 2>>(), drv::clv<int>()));
  for (auto const &p : r)
  {
    (void)p;
  }
  auto it(r.begin());
  (void)*it;
  ++it;
  (void)it++;
  (void)(it == r.end());
  (void)(it != r.end());
  it.increment();
  (void)it.dereference();
  (void)it.equal(r.end());
  for (auto const &p : grid::make_spiral_range(drv::clv<spos_t<2>>(), drv::clv<ssz>()))
  {
    (void)p;
  }
}

// ---------------------------------------------------------------- higher-order functions
#define M(N) \
  DRV(drv_grid_resize_##N) \
  { \
    (void)grid::resize( \
        drv::lv<grid_t<int, N>>(), drv::clv<dim_t<N>>(), drv::clv<drv::fn<int(pos_t<N>)>>()); \
    (void)grid::resize( \
        drv::clv<grid_t<int, N>>(), drv::clv<dim_t<N>>(), drv::clv<drv::fn<int(pos_t<N>)>>()); \
    (void)grid::resize( \
        drv::make<grid_t<int, N>>(), drv::clv<dim_t<N>>(), drv::clv<drv::fn<int(pos_t<N>)>>()); \
    (void)grid::resize( \
        drv::make<grid_t<elem, N>>(), \
        drv::clv<dim_t<N>>(), \
        drv::clv<drv::fn<elem(pos_t<N>)>>()); \
  } \
  DRV(drv_grid_map_##N) \
  { \
    (void)grid::map(drv::clv<grid_t<int, N>>(), drv::clv<drv::fn<long(int)>>()); \
    (void)grid::map(drv::lv<grid_t<int, N>>(), drv::clv<drv::fn<long(int &)>>()); \
    (void)grid::map(drv::make<grid_t<int, N>>(), drv::clv<drv::fn<long(int &&)>>()); \
    (void)grid::map(drv::make<grid_t<elem, N>>(), drv::clv<drv::fn<elem(elem &&)>>()); \
    (void)grid::map(drv::clv<grid_t<elem, N>>(), drv::clv<drv::fn<int(elem const &)>>()); \
  } \
  DRV(drv_grid_apply_##N) \
  { \
    (void)grid::apply(drv::clv<drv::fn<long(int)>>(), drv::clv<grid_t<int, N>>()); \
    (void)grid::apply( \
        drv::clv<drv::fn<long(int, elem const &)>>(), \
        drv::clv<grid_t<int, N>>(), \
        drv::clv<grid_t<elem, N>>()); \
    (void)grid::apply( \
        drv::clv<drv::fn<elem(int, elem &&, float &)>>(), \
        drv::clv<grid_t<int, N>>(), \
        drv::make<grid_t<elem, N>>(), \
        drv::lv<grid_t<float, N>>()); \
  } \
  DRV(drv_grid_fill_##N) \
  { \
    grid::fill(drv::lv<grid_t<int, N>>(), drv::clv<drv::fn<int(pos_t<N>)>>()); \
    grid::fill(drv::lv<grid_t<elem, N>>(), drv::clv<drv::fn<elem(pos_t<N>)>>()); \
  } \
  DRV(drv_grid_comparison_##N) \
  { \
    (void)(drv::clv<grid_t<int, N>>() == drv::clv<grid_t<int, N>>()); \
    (void)(drv::clv<grid_t<int, N>>() != drv::clv<grid_t<int, N>>()); \
    (void)(drv::clv<grid_t<int, N>>() < drv::clv<grid_t<int, N>>()); \
    (void)(drv::clv<grid_t<int, N>>() > drv::clv<grid_t<int, N>>()); \
    (void)(drv::clv<grid_t<int, N>>() <= drv::clv<grid_t<int, N>>()); \
    (void)(drv::clv<grid_t<int, N>>() >= drv::clv<grid_t<int, N>>()); \
  } \
  DRV(drv_grid_interpolate_##N) \
  { \
    (void)grid::interpolate( \
        drv::clv<grid_t<float, N>>(), \
        drv::clv<fcppt::math::vector::static_<float, N>>(), \
        drv::clv<drv::fn<float(float, float, float)>>()); \
  } \
  DRV(drv_grid_output_##N) \
  { \
    (void)(drv::lv<std::ostream>() << drv::clv<grid_t<int, N>>()); \
  }
DRV_GRID_NS(M)
#undef M

// moore_neighbors / neumann_neighbors use x(), y() and two-argument constructors: N == 2 only
DRV(drv_grid_moore_neighbors)
{
  (void)grid::moore_neighbors(drv::clv<pos_t<2>>());
  (void)grid::moore_neighbors(drv::clv<spos_t<2>>());
  (void)grid::moore_neighbors(drv::clv<grid::pos<int, 2>>());
}
DRV(drv_grid_neumann_neighbors)
{
  (void)grid::neumann_neighbors(drv::clv<pos_t<2>>());
  (void)grid::neumann_neighbors(drv::clv<spos_t<2>>());
  (void)grid::neumann_neighbors(drv::clv<grid::pos<int, 2>>());
}

// ================================================================ math::box
// front()/back() need N >= 3 and top()/bottom() need N >= 2, so only N == 3 can be
// explicitly instantiated as a whole.
template class fcppt::math::box::object<int, 3>;
template class fcppt::math::box::object<unsigned, 3>;
template class fcppt::math::box::object<float, 3>;

#define DRV_BOX_MEMBERS_1(T, N) \
  (void)box::object<T, N>(fcppt::no_init{}); \
  (void)box::object<T, N>( \
      drv::make<box::object<T, N>::vector>(), drv::make<box::object<T, N>::dim>()); \
  (void)box::object<T, N>( \
      drv::make<box::object<T, N>::vector>(), drv::make<box::object<T, N>::vector>()); \
  (void)drv::lv<box::object<T, N>>().pos(); \
  (void)drv::clv<box::object<T, N>>().pos(); \
  (void)drv::lv<box::object<T, N>>().max(); \
  (void)drv::clv<box::object<T, N>>().max(); \
  (void)drv::clv<box::object<T, N>>().size(); \
  (void)drv::clv<box::object<T, N>>().left(); \
  (void)drv::clv<box::object<T, N>>().right();
#define DRV_BOX_MEMBERS_2(T, N) \
  DRV_BOX_MEMBERS_1(T, N) \
  (void)drv::clv<box::object<T, N>>().top(); \
  (void)drv::clv<box::object<T, N>>().bottom();
#define DRV_BOX_MEMBERS_3(T, N) \
  DRV_BOX_MEMBERS_2(T, N) \
  (void)drv::clv<box::object<T, N>>().front(); \
  (void)drv::clv<box::object<T, N>>().back();

#define DRV_BOX_COMMON(T, TN, N) \
  DRV(drv_box_object_##TN##_##N) { DRV_BOX_MEMBERS_##N(T, N) } \
  DRV(drv_box_contains_point_##TN##_##N) \
  { \
    (void)box::contains_point( \
        drv::clv<box::object<T, N>>(), drv::clv<box::object<T, N>::vector>()); \
  } \
  DRV(drv_box_contains_##TN##_##N) \
  { \
    (void)box::contains(drv::clv<box::object<T, N>>(), drv::clv<box::object<T, N>>()); \
  } \
  DRV(drv_box_intersects_##TN##_##N) \
  { \
    (void)box::intersects(drv::clv<box::object<T, N>>(), drv::clv<box::object<T, N>>()); \
  } \
  DRV(drv_box_intersection_##TN##_##N) \
  { \
    (void)box::intersection(drv::clv<box::object<T, N>>(), drv::clv<box::object<T, N>>()); \
  } \
  DRV(drv_box_extend_bounding_box_##TN##_##N) \
  { \
    (void)box::extend_bounding_box( \
        drv::clv<box::object<T, N>>(), drv::clv<box::object<T, N>::vector>()); \
    (void)box::extend_bounding_box( \
        drv::clv<box::object<T, N>>(), drv::clv<box::object<T, N>>()); \
  } \
  DRV(drv_box_corner_points_##TN##_##N) \
  { \
    (void)box::corner_points(drv::clv<box::object<T, N>>()); \
  } \
  DRV(drv_box_center_##TN##_##N) { (void)box::center(drv::clv<box::object<T, N>>()); } \
  DRV(drv_box_shrink_##TN##_##N) \
  { \
    (void)box::shrink(drv::clv<box::object<T, N>>(), drv::clv<box::object<T, N>::vector>()); \
  } \
  DRV(drv_box_stretch_absolute_##TN##_##N) \
  { \
    (void)box::stretch_absolute( \
        drv::clv<box::object<T, N>>(), drv::clv<box::object<T, N>::vector>()); \
  } \
  DRV(drv_box_stretch_relative_##TN##_##N) \
  { \
    (void)box::stretch_relative( \
        drv::clv<box::object<T, N>>(), drv::clv<box::object<T, N>::vector>()); \
  } \
  DRV(drv_box_distance_##TN##_##N) \
  { \
    (void)box::distance(drv::clv<box::object<T, N>>(), drv::clv<box::object<T, N>>()); \
  } \
  DRV(drv_box_interval_##TN##_##N) \
  { \
    (void)box::interval<0>(drv::clv<box::object<T, N>>()); \
    (void)box::interval<N - 1>(drv::clv<box::object<T, N>>()); \
  } \
  DRV(drv_box_null_##TN##_##N) { (void)box::null<box::object<T, N>>(); } \
  DRV(drv_box_init_max_##TN##_##N) \
  { \
    (void)box::init_max<box::object<T, N>>(drv::clv<index_fn<T>>()); \
  } \
  DRV(drv_box_init_dim_##TN##_##N) \
  { \
    (void)box::init_dim<box::object<T, N>>(drv::clv<index_fn<T>>()); \
  } \
  DRV(drv_box_comparison_##TN##_##N) \
  { \
    (void)(drv::clv<box::object<T, N>>() == drv::clv<box::object<T, N>>()); \
    (void)(drv::clv<box::object<T, N>>() != drv::clv<box::object<T, N>>()); \
    (void)(drv::clv<box::object<T, N>>() < drv::clv<box::object<T, N>>()); \
  } \
  DRV(drv_box_output_##TN##_##N) \
  { \
    (void)(drv::lv<std::ostream>() << drv::clv<box::object<T, N>>()); \
    (void)(drv::lv<std::wostream>() << drv::clv<box::object<T, N>>()); \
  }

#define M(N) \
  DRV_BOX_COMMON(int, int, N) \
  DRV_BOX_COMMON(unsigned, unsigned, N) \
  DRV_BOX_COMMON(float, float, N) \
  DRV(drv_box_componentwise_equal_##N) \
  { \
    (void)box::componentwise_equal( \
        drv::clv<box::object<float, N>>(), \
        drv::clv<box::object<float, N>>(), \
        drv::clv<float>()); \
  } \
  DRV(drv_box_structure_cast_##N) \
  { \
    (void)box::structure_cast<box::object<float, N>, fcppt::cast::int_to_float_fun>( \
        drv::clv<box::object<int, N>>()); \
    (void)box::structure_cast<box::object<int, N>, fcppt::cast::float_to_int_fun>( \
        drv::clv<box::object<float, N>>()); \
    (void)box::structure_cast<box::object<int, N>, fcppt::cast::to_signed_fun>( \
        drv::clv<box::object<unsigned, N>>()); \
    (void)box::structure_cast<box::object<long, N>, fcppt::cast::static_cast_fun>( \
        drv::clv<box::object<unsigned, N>>()); \
  }
DRV_GRID_NS(M)
#undef M

DRV(drv_math_interval_distance)
{
  (void)fcppt::math::interval_distance(
      drv::make<fcppt::tuple::object<int, int>>(), drv::make<fcppt::tuple::object<int, int>>());
  (void)fcppt::math::interval_distance(
      drv::make<fcppt::tuple::object<unsigned, unsigned>>(),
      drv::make<fcppt::tuple::object<unsigned, unsigned>>());
  (void)fcppt::math::interval_distance(
      drv::make<fcppt::tuple::object<float, float>>(),
      drv::make<fcppt::tuple::object<float, float>>());
}

// ---------------------------------------------------------------- value builders for the arithmetic rules (C08 OFFSET / NEXT / END):
// the analysis evaluates these to obtain the element-wise representation of a position / dimension / min / sup
namespace drv_grid_box
{
inline auto scenario_pos1(usz const a) { return pos_t<1>{a}; }
inline auto scenario_pos2(usz const a, usz const b) { return pos_t<2>{a, b}; }
inline auto scenario_pos3(usz const a, usz const b, usz const c) { return pos_t<3>{a, b, c}; }
inline auto scenario_dim1(usz const a) { return dim_t<1>{a}; }
inline auto scenario_dim2(usz const a, usz const b) { return dim_t<2>{a, b}; }
inline auto scenario_dim3(usz const a, usz const b, usz const c) { return dim_t<3>{a, b, c}; }
inline auto scenario_min1(usz const a) { return grid::make_min(pos_t<1>{a}); }
inline auto scenario_min2(usz const a, usz const b) { return grid::make_min(pos_t<2>{a, b}); }
inline auto scenario_min3(usz const a, usz const b, usz const c) { return grid::make_min(pos_t<3>{a, b, c}); }
inline auto scenario_sup1(usz const a) { return grid::make_sup(pos_t<1>{a}); }
inline auto scenario_sup2(usz const a, usz const b) { return grid::make_sup(pos_t<2>{a, b}); }
inline auto scenario_sup3(usz const a, usz const b, usz const c) { return grid::make_sup(pos_t<3>{a, b, c}); }
}

DRV(drv_grid_value_builders)
{
  usz const &s{drv::clv<usz>()};
  (void)scenario_pos1(s);
  (void)scenario_pos2(s, s);
  (void)scenario_pos3(s, s, s);
  (void)scenario_dim1(s);
  (void)scenario_dim2(s, s);
  (void)scenario_dim3(s, s, s);
  (void)scenario_min1(s);
  (void)scenario_min2(s, s);
  (void)scenario_min3(s, s, s);
  (void)scenario_sup1(s);
  (void)scenario_sup2(s, s);
  (void)scenario_sup3(s, s, s);
}
