"""C08, arithmetic clauses (DESIGN.md §6 C08, "As built", second part): the linear offset, the successor of a position inside a
range, the end position, and the iterator that strings them together. Engine S with the storage model (cfg.lvalues) reduces
the real code -- folds over static index ranges, strong-typedef accumulators, in-place updates through at<I>() -- to its
paths; engine P compares the results as polynomials.

 OFFSET    offset(pos, size) = sum_i pos_i * prod_{j<i} size_j for N in {1,2,3} (mixed-radix value, first index least significant):
           with in-range positions this is the bijection onto [0, content) in storage order
 NEXT      next_position(cur, min, sup), path by path: the result is the mixed-radix successor of cur inside the box -- increment
           component 0; while component i (i < N-1) has reached sup_i, rewind it to min_i and increment component i+1
 END       end_position(min, sup) is (min_0, .., min_{N-2}, sup_{N-1}) when min < sup in every component, else min
 LAST-END  the code-derived successor of the last position (sup - 1 in every component) is the code-derived end position:
           iteration from min by NEXT therefore visits exactly the positions of the box, in storage order, and stops at end
 POSIT     pos_range::begin / end / size and pos_iterator::increment / dereference / equal use exactly these functions on
           the range's own min and sup
"""
from engine import facts as F
from engine import poly as P
from engine import sx
from engine.poly import Poly

G = "fcppt::container::grid::"
RECORDS = ("fcppt::math", "fcppt::array", "fcppt::strong_typedef", "fcppt::container::grid")


def config(opaque=()):
    return sx.Config(inline_prefixes=("fcppt::", "drv_grid_box::scenario_"), record_prefixes=RECORDS, pure=("fcppt::array::object::get_unsafe",),
                     ref_writes=True, lvalues=True, max_depth=80, max_steps=400000, opaque=opaque)


class Broken(Exception):
    pass


def subst(v, m):
    if isinstance(v, tuple):
        if v and v[0] == "sym" and v[1] in m:
            return ("sym", m[v[1]])
        return tuple(subst(x, m) for x in v)
    return v


def builder(db, cfg, kind, N, prefix):
    """element-wise value of a pos / dim / min / sup with the scalars named prefix0.."""
    fns = db.fns("drv_grid_box::scenario_%s%d" % (kind, N))
    if not fns:
        raise Broken("driver value builder scenario_%s%d not found" % (kind, N))
    fn = fns[0]
    ps = sx.Interp(db, cfg).paths(fn)
    if len(ps) != 1 or ps[0].outcome[0] != "return":
        raise Broken("value builder scenario_%s%d does not reduce to one value" % (kind, N))
    return subst(ps[0].outcome[1], {p["name"]: "%s%d" % (prefix, i) for i, p in enumerate(fn["params"])})


def resolver(events=None):
    return P.Resolver(lambda root, k: Poly.atom(("%s%d" % (root, k),)), lambda name: Poly.atom((name,)), events or [])


def elems(res, v):
    return [res.poly(e) for e in P.storage_list(v)]


def A(name):
    return Poly.atom((name,))


def dims(fn):
    for x in fn.get("targs") or []:
        s = str(x).rstrip("UL")
        if s.isdigit():
            return int(s)
    return None


def decisions_of(res, p):
    """[(op, lhs poly, rhs poly, truth)] of a path"""
    out = []
    for atom, truth in p.decisions:
        if not (isinstance(atom, tuple) and atom and atom[0] == "cmp"):
            raise Broken("decision %s is not a comparison" % sx.show(atom))
        out.append((atom[1], res.poly(atom[2]), res.poly(atom[3]), truth))
    return out


def _next_verdict(table, N):
    bad = None
    for dec, got in table:
        known = {}
        for op, l, r, t in dec:
            if op not in ("==", "!="):
                raise Broken("a path is decided by %s %s %s: only equality tests against sup are followed" % (l.show(), op, r.show()))
            known[frozenset((l - r).t.items())] = t if op == "==" else not t
            known[frozenset((r - l).t.items())] = t if op == "==" else not t
        if bad:
            break
        # the specification, following the same decisions
        r_ = [A("c%d" % i) for i in range(N)]
        r_[0] = r_[0] + 1
        used = 0
        for i in range(N - 1):
            d = frozenset((r_[i] - A("s%d" % i)).t.items())
            if d not in known:
                if not (r_[i] - A("s%d" % i)).t:
                    eq = True
                else:
                    bad = "on the path %s the code never tests component %d against sup_%d" % (
                        [(l.show(), op, r.show(), t) for op, l, r, t in dec], i, i)
                    break
            else:
                eq = known[d]
                used += 1
            if eq:
                r_[i] = A("m%d" % i)
                r_[i + 1] = r_[i + 1] + 1
        if bad:
            break
        if len(got) != N or any(g != w for g, w in zip(got, r_)):
            bad = "on the path %s the result is (%s), the successor is (%s)" % (
                ["%s %s %s: %s" % (l.show(), op, r.show(), t) for op, l, r, t in dec], ", ".join(g.show() for g in got), ", ".join(w.show() for w in r_))
            break

    return bad


def rules(rep, db, only):
    rep.rule("OFFSET", "offset(pos, size) is the mixed-radix value sum_i pos_i * prod_{j<i} size_j", floor=3)
    rep.rule("NEXT", "next_position is the mixed-radix successor inside [min, sup), on every path", floor=3)
    rep.rule("END", "end_position is (min_0..min_{N-2}, sup_{N-1}) for a non-empty range, min otherwise", floor=3)
    rep.rule("LAST-END", "the successor of the last position of a range is its end position (code-derived on both sides)", floor=3)
    rep.rule("POSIT", "pos_range / pos_iterator use next_position, end_position and range_size on the range's own min and sup", floor=6)
    cfg = config()
    res = resolver()
    # ---------------- OFFSET
    seen = set()
    for fn in db.fns(G + "offset"):
        N = dims(fn)
        if N is None or N in seen or N > 3:
            continue
        seen.add(N)
        key = "offset|N=%d" % N
        try:
            ps = sx.Interp(db, cfg).paths(fn)
            if len(ps) != 1 or ps[0].outcome[0] != "return":
                raise Broken("%d paths" % len(ps))
            p0, s0 = fn["params"][0]["name"], fn["params"][1]["name"]
            got = res.poly(ps[0].outcome[1])
        except (Broken, sx.Unsupported, P.Unresolved) as e:
            rep.broken("C08 OFFSET %s: %s" % (key, e))
            continue
        want = Poly()
        stride = Poly.const(1)
        for i in range(N):
            want = want + A("%s%d" % (p0, i)) * stride
            stride = stride * A("%s%d" % (s0, i))
        if got == want:
            rep.ok("OFFSET", key, F.primary_site(fn), F.describe(fn), "polynomial identity")
        else:
            rep.fail("OFFSET", key, F.primary_site(fn), F.describe(fn), "offset is %s, expected %s (positions %s*, sizes %s*)" % (got.show(), want.show(), p0, s0))
    # ---------------- NEXT / END
    next_maps, end_maps = {}, {}
    seen = set()
    for fn in db.fns(G + "next_position"):
        N = dims(fn)
        if N is None or N in seen or N > 3:
            continue
        seen.add(N)
        key = "next_position|N=%d" % N
        try:
            args = [builder(db, cfg, "pos", N, "c"), builder(db, cfg, "min", N, "m"), builder(db, cfg, "sup", N, "s")]
            ps = sx.Interp(db, cfg).paths(fn, args=args)
            table = []
            for p in ps:
                if p.outcome[0] != "return" or p.events:
                    raise Broken("outcome %s / %d effects" % (p.outcome[0], len(p.events)))
                table.append((decisions_of(res, p), elems(res, p.outcome[1])))
        except (Broken, sx.Unsupported, P.Unresolved) as e:
            rep.broken("C08 NEXT %s: %s" % (key, e))
            continue
        bad = None
        try:
            bad = _next_verdict(table, N)
        except Broken as e:
            rep.broken("C08 NEXT %s: %s" % (key, e))
            continue
        if bad:
            rep.fail("NEXT", key, F.primary_site(fn), F.describe(fn), bad)
        else:
            rep.ok("NEXT", key, F.primary_site(fn), F.describe(fn), "%d paths" % len(table))
            next_maps[N] = table
    seen = set()
    for fn in db.fns(G + "end_position"):
        N = dims(fn)
        if N is None or N in seen or N > 3:
            continue
        seen.add(N)
        key = "end_position|N=%d" % N
        try:
            args = [builder(db, cfg, "min", N, "m"), builder(db, cfg, "sup", N, "s")]
            ps = sx.Interp(db, cfg).paths(fn, args=args)
            table = []
            for p in ps:
                if p.outcome[0] != "return" or p.events:
                    raise Broken("outcome %s / %d effects" % (p.outcome[0], len(p.events)))
                table.append((decisions_of(res, p), elems(res, p.outcome[1])))
        except (Broken, sx.Unsupported, P.Unresolved) as e:
            rep.broken("C08 END %s: %s" % (key, e))
            continue
        bad = None
        nonempty = None
        for dec, got in table:
            lt = {}
            for op, l, r, t in dec:
                for i in range(N):
                    if l == A("m%d" % i) and r == A("s%d" % i) and op in ("<", ">="):
                        lt[i] = t if op == "<" else not t
                    elif l == A("s%d" % i) and r == A("m%d" % i) and op in (">", "<="):
                        lt[i] = t if op == ">" else not t
            if len(lt) != len(dec):
                bad = "a path is decided by something other than min_i < sup_i: %s" % ["%s %s %s" % (l.show(), op, r.show()) for op, l, r, t in dec]
                break
            if all(lt.get(i) for i in range(N)):
                want = [A("m%d" % i) for i in range(N - 1)] + [A("s%d" % (N - 1))]
                nonempty = got
                what = "non-empty range"
            elif any(v is False for v in lt.values()):
                want = [A("m%d" % i) for i in range(N)]
                what = "empty range"
            else:
                bad = "a path returns without having compared every component of min with sup"
                break
            if got != want:
                bad = "for a %s the end position is (%s), expected (%s)" % (what, ", ".join(g.show() for g in got), ", ".join(w.show() for w in want))
                break
        if bad:
            rep.fail("END", key, F.primary_site(fn), F.describe(fn), bad)
        else:
            rep.ok("END", key, F.primary_site(fn), F.describe(fn), "%d paths" % len(table))
            end_maps[N] = nonempty
    # ---------------- LAST-END (code-derived on both sides)
    for N in sorted(set(next_maps) & set(end_maps)):
        key = "last-to-end|N=%d" % N
        fn = db.fns(G + "next_position")[0]
        last = {("c%d" % i,): A("s%d" % i) - 1 for i in range(N)}

        def at_last(p):
            return p.subst(lambda a: last.get(a, Poly.atom(a)))
        chosen = []
        for dec, got in next_maps[N]:
            ok = True
            for op, l, r, t in dec:
                d = at_last(l) - at_last(r)
                if d.t and set(d.t) != {()}:
                    ok = None       # depends on the relation of min and sup: not needed for the last position of a non-empty range
                    break
                holds = not d.t
                if (holds if op == "==" else not holds) != t:
                    ok = False
                    break
            if ok:
                chosen.append([at_last(g) for g in got])
        if len(chosen) != 1 or end_maps[N] is None:
            rep.broken("C08 LAST-END %s: %d paths of next_position apply to the last position" % (key, len(chosen)))
            continue
        if chosen[0] == end_maps[N]:
            rep.ok("LAST-END", key, F.primary_site(fn), F.describe(fn), "next_position(sup - 1) = end_position")
        else:
            rep.fail("LAST-END", key, F.primary_site(fn), F.describe(fn), "the successor of the last position is (%s) but end_position is (%s): the iteration does not stop after the last element" % (
                ", ".join(g.show() for g in chosen[0]), ", ".join(g.show() for g in end_maps[N])))
    # ---------------- POSIT
    ocfg = config(opaque=(G + "next_position", G + "end_position", G + "range_size"))
    seen = set()

    def names(v):
        return sx.show(v).replace(" ", "")
    for fn in db.fns(G + "pos_iterator::increment"):
        N = dims({"targs": fn.get("rec_targs")})
        if N in seen:
            continue
        seen.add(N)
        key = "pos_iterator::increment|N=%s" % N
        try:
            ps = sx.Interp(db, ocfg).paths(fn)
            ok = len(ps) == 1 and len(ps[0].events) == 2 and ps[0].events[0][0].split("<")[0] == G + "next_position" and \
                [names(a) for a in ps[0].events[0][1]] == ["this.current_", "this.min_", "this.sup_"] and \
                ps[0].events[1][0] == "write" and names(ps[0].events[1][1][0]) == "this.current_" and ps[0].events[1][1][1][0] == "ev" and ps[0].events[1][1][1][1] == 1
            why = None if ok else "increment is not current_ = next_position(current_, min_, sup_): %s" % [sx.show_event(e) for e in ps[0].events][:3]
        except sx.Unsupported as e:
            rep.broken("C08 POSIT %s: %s" % (key, e))
            continue
        (rep.fail("POSIT", key, F.primary_site(fn), F.describe(fn), why) if why else rep.ok("POSIT", key, F.primary_site(fn), F.describe(fn)))
    for nm, chk in (("pos_iterator::dereference", lambda v, ev: None if names(v) == "this.current_" and not ev else "dereference yields %s" % names(v)),
                    ("pos_iterator::equal", lambda v, ev: None if names(v).replace("r_a0", "o") in ("(this.current_==o.current_)",) or
                     (len(ev) == 1 and sorted(names(a) for a in ev[0][1]) == sorted(["this.current_", "r_a0.current_"]) and ev[0][0].split("<")[0].endswith("operator==")) else "equal compares %s" % names(v))):
        seen = set()
        for fn in db.fns(G + nm):
            N = dims({"targs": fn.get("rec_targs")})
            if N in seen:
                continue
            seen.add(N)
            key = "%s|N=%s" % (nm, N)
            try:
                c2 = sx.Config(inline_prefixes=(), ref_writes=True)
                ps = sx.Interp(db, c2).paths(fn)
                why = chk(ps[0].outcome[1], ps[0].events) if len(ps) == 1 and ps[0].outcome[0] == "return" else "%d paths" % len(ps)
            except sx.Unsupported as e:
                rep.broken("C08 POSIT %s: %s" % (key, e))
                continue
            (rep.fail("POSIT", key, F.primary_site(fn), F.describe(fn), why) if why else rep.ok("POSIT", key, F.primary_site(fn), F.describe(fn)))
    for nm in ("pos_range::begin", "pos_range::end", "pos_range::size"):
        seen = set()
        for fn in db.fns(G + nm):
            N = dims({"targs": fn.get("rec_targs")})
            if N in seen:
                continue
            seen.add(N)
            key = "%s|N=%s" % (nm, N)
            try:
                ps = sx.Interp(db, ocfg).paths(fn)
                if len(ps) != 1 or ps[0].outcome[0] != "return":
                    raise sx.Unsupported("%d paths" % len(ps))
                v, ev = ps[0].outcome[1], ps[0].events
                evn = [(e[0].split("<")[0].replace(G, ""), [names(a) for a in e[1]]) for e in ev]
                if nm.endswith("size"):
                    ok = evn == [("range_size", ["this.min_", "this.sup_"])] and v[0] == "ev"
                    why = None if ok else "size() is not range_size(min_, sup_): %s" % evn
                else:
                    f = dict(v[2]) if isinstance(v, tuple) and v and v[0] == "rec" else {}
                    cur = f.get("current_")
                    if nm.endswith("begin"):
                        ok = cur is not None and names(cur) in ("this.min_.value_", "this.min_") and not ev
                    else:
                        ok = evn == [("end_position", ["this.min_", "this.sup_"])] and cur is not None and cur[0] == "ev"
                    ok = ok and names(f.get("min_")) == "this.min_" and names(f.get("sup_")) == "this.sup_"
                    why = None if ok else "%s builds the iterator %s after %s" % (nm.split("::")[-1], names(v)[:160], evn)
            except sx.Unsupported as e:
                rep.broken("C08 POSIT %s: %s" % (key, e))
                continue
            (rep.fail("POSIT", key, F.primary_site(fn), F.describe(fn), why) if why else rep.ok("POSIT", key, F.primary_site(fn), F.describe(fn)))
