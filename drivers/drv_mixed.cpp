// Mixed value categories for multi-argument forwarding functions (C05 rule M5): each forwarded
// parameter must be moved / forwarded with ITS OWN template parameter. Instantiation only.
#include "drv.hpp"
#include <fcppt/array/append.hpp>
#include <fcppt/array/join.hpp>
#include <fcppt/array/object.hpp>
#include <fcppt/container/join.hpp>
#include <fcppt/container/grid/apply.hpp>
#include <fcppt/container/grid/object.hpp>
#include <fcppt/either/apply.hpp>
#include <fcppt/either/object.hpp>
#include <fcppt/optional/apply.hpp>
#include <fcppt/optional/combine.hpp>
#include <fcppt/optional/maybe_multi.hpp>
#include <fcppt/optional/object.hpp>
#include <fcppt/tuple/concat.hpp>
#include <fcppt/tuple/object.hpp>
#include <fcppt/record/multiply_disjoint.hpp>
#include <fcppt/record/element.hpp>
#include <fcppt/record/make_label.hpp>
#include <fcppt/record/object.hpp>
#include <string>
#include <vector>

namespace drv_mixed
{
struct A
{
  int a;
};
struct B
{
  int b;
};
struct X
{
  int x;
};
using arr2 = fcppt::array::object<A, 2>;
using arr3 = fcppt::array::object<A, 3>;
using oA = fcppt::optional::object<A>;
using oB = fcppt::optional::object<B>;
using eXA = fcppt::either::object<X, A>;
using eXB = fcppt::either::object<X, B>;
using vecA = std::vector<A>;
using grid = fcppt::container::grid::object<A, 2>;
using tupA = fcppt::tuple::object<A>;
using tupB = fcppt::tuple::object<B>;
FCPPT_RECORD_MAKE_LABEL(la);
FCPPT_RECORD_MAKE_LABEL(lb);
using recA = fcppt::record::object<fcppt::record::element<la, A>>;
using recB = fcppt::record::object<fcppt::record::element<lb, B>>;
using drv::clv;
using drv::fn;
using drv::lv;
using drv::make;

DRV(mixed_array)
{
  (void)fcppt::array::append(make<arr2>(), lv<arr3>());
  (void)fcppt::array::append(make<arr2>(), clv<arr3>());
  (void)fcppt::array::join(make<arr2>(), lv<arr3>(), make<arr2>());
}
DRV(mixed_optional)
{
  (void)fcppt::optional::combine(make<oA>(), lv<oA>(), clv<fn<A(A &&, A &)>>());
  (void)fcppt::optional::combine(lv<oA>(), make<oA>(), clv<fn<A(A &, A &&)>>());
  (void)fcppt::optional::apply(clv<fn<X(A &&, B &)>>(), make<oA>(), lv<oB>());
  (void)fcppt::optional::apply(clv<fn<X(A &, B &&)>>(), lv<oA>(), make<oB>());
  (void)fcppt::optional::maybe_multi(clv<fn<X()>>(), clv<fn<X(A &&, B &)>>(), make<oA>(), lv<oB>());
}
DRV(mixed_either)
{
  (void)fcppt::either::apply(clv<fn<B(A &&, B &)>>(), make<eXA>(), lv<eXB>());
  (void)fcppt::either::apply(clv<fn<B(A &, B &&)>>(), lv<eXA>(), make<eXB>());
}
DRV(mixed_container)
{
  (void)fcppt::container::join(make<vecA>(), lv<vecA>());
  (void)fcppt::container::join(lv<vecA>(), make<vecA>());
  (void)fcppt::container::join(make<vecA>(), clv<vecA>(), make<vecA>());
}
DRV(mixed_grid)
{
  (void)fcppt::container::grid::apply(clv<fn<B(A &&, A &)>>(), make<grid>(), lv<grid>());
  (void)fcppt::container::grid::apply(clv<fn<B(A &, A &&)>>(), lv<grid>(), make<grid>());
}
DRV(mixed_tuple_record)
{
  // tuple::concat rejects lvalue tuples (is_object on a reference type): rvalues only
  (void)fcppt::tuple::concat(make<tupA>(), make<tupB>());
  (void)fcppt::record::multiply_disjoint(make<recA>(), lv<recB>());
  (void)fcppt::record::multiply_disjoint(lv<recA>(), make<recB>());
}
}
