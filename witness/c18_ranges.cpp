// C18 must-compile witnesses: the integer range over every integer-like type the property names
// (plain, narrow, strong typedef). Compiled with -fsyntax-only; never linked or run.
#include <fcppt/int_range_impl.hpp>
#include <fcppt/make_int_range.hpp>
#include <fcppt/make_int_range_count.hpp>
#include <fcppt/make_literal_strong_typedef.hpp>
#include <fcppt/make_strong_typedef.hpp>
#include <fcppt/strong_typedef.hpp>
#include <fcppt/strong_typedef_arithmetic.hpp>
#include <fcppt/strong_typedef_comparison.hpp>
#include <fcppt/enum/make_range.hpp>
#include <fcppt/enum/make_range_start.hpp>
#include <fcppt/enum/make_range_start_end.hpp>
#include <fcppt/enum/range_impl.hpp>
#include <cstdint>
#include <type_traits>

#define WITNESS(id, text)

namespace c18w
{
FCPPT_MAKE_STRONG_TYPEDEF(int, strong_int);
enum class three { a, b, c, fcppt_maximum = c };
template <typename T>
T const &cv();

}

// one non-template function per type, so that every diagnostic is located at the witness's own line
#define C18_RANGE_MEMBERS(name, Int) \
  void name() \
  { \
    fcppt::int_range<Int> const r{fcppt::make_int_range(c18w::cv<Int>(), c18w::cv<Int>())}; \
    auto it{r.begin()}; \
    (void)(it == r.end()); \
    (void)(it != r.end()); \
    ++it; \
    Int const v{*it}; \
    (void)v; \
    static_assert(std::is_same_v<decltype(r.size()), typename fcppt::int_range<Int>::size_type>); \
    (void)r.size(); \
    for (Int const x : r) \
    { \
      (void)x; \
    } \
    (void)fcppt::make_int_range_count(c18w::cv<Int>()); \
  }

WITNESS(c18_int, "int_range<int>: construction, iteration, size(), count form compile")
C18_RANGE_MEMBERS(c18w_int, int)
WITNESS(c18_unsigned, "int_range<unsigned>: construction, iteration, size(), count form compile")
C18_RANGE_MEMBERS(c18w_unsigned, unsigned)
WITNESS(c18_int8, "int_range<int8_t>: construction, iteration, size(), count form compile")
C18_RANGE_MEMBERS(c18w_std_int8_t, std::int8_t)
WITNESS(c18_uint8, "int_range<uint8_t>: construction, iteration, size(), count form compile")
C18_RANGE_MEMBERS(c18w_std_uint8_t, std::uint8_t)
WITNESS(c18_long, "int_range<long>: construction, iteration, size(), count form compile")
C18_RANGE_MEMBERS(c18w_long, long)
WITNESS(c18_strong_int, "int_range<strong typedef of int>: construction, iteration, size(), count form compile")
C18_RANGE_MEMBERS(c18w_c18w_strong_int, c18w::strong_int)
WITNESS(c18_enum, "enum range: all three factories, iteration and size() compile; dereference yields the enum")
void c18w_enum()
{
  auto const r{fcppt::enum_::make_range_start_end(c18w::three::a, c18w::three::c)};
  (void)fcppt::enum_::make_range_start(c18w::three::b);
  (void)fcppt::enum_::make_range<c18w::three>();
  auto it{r.begin()};
  ++it;
  static_assert(std::is_same_v<decltype(*it), c18w::three>);
  (void)(it == r.end());
  (void)r.size();
}
