"""Finite abstract domain R: integer regions (DESIGN.md §4.4).

A function of one integer argument x that compares x only against constants is evaluated per
*region* of x: the source type's range cut at every bound of every integer type of the registry
(and 0). Inside a region every conversion is either value-preserving or a uniform wrap (offset
by a multiple of 2^bits), or non-uniform ("junk"). Abstract scalar values:
   ("k", n)        constant
   ("ival", c)     x + c    (c = 0: the value itself)
   ("junk",)       a value with no uniform relation to x
Comparisons are decided by interval separation; an undecidable comparison is reported, never guessed.
"""
from . import sx

INT_TYPES = {
    "signed char": (8, True), "unsigned char": (8, False), "char": (8, True), "short": (16, True), "unsigned short": (16, False),
    "int": (32, True), "unsigned int": (32, False), "long": (64, True), "unsigned long": (64, False),
    "long long": (64, True), "unsigned long long": (64, False), "bool": (1, False), "wchar_t": (32, True),
}


def type_range(t):
    t = (t or "").replace("const ", "").strip()
    if t not in INT_TYPES:
        return None
    bits, signed = INT_TYPES[t]
    if signed:
        return (-(1 << (bits - 1)), (1 << (bits - 1)) - 1, bits)
    return (0, (1 << bits) - 1, bits)


def cut_points():
    pts = {0}
    for bits in (8, 16, 32, 64):
        pts |= {-(1 << (bits - 1)), (1 << (bits - 1)), (1 << bits)}
    return sorted(pts)


def regions_of(t, extra_cuts=()):
    lo, hi, _ = type_range(t)
    pts = sorted(set(p for p in list(cut_points()) + list(extra_cuts) if lo < p <= hi) | {lo, hi + 1})
    return [(a, b - 1) for a, b in zip(pts, pts[1:])]


class RegionDomain:
    def __init__(self, region, source_sym="_source"):
        self.lo, self.hi = region
        self.sym = source_sym

    def interval(self, v):
        if v == ("sym", self.sym):
            return (self.lo, self.hi)
        if isinstance(v, tuple) and v[0] == "k":
            try:
                n = int(v[1])
            except (TypeError, ValueError):
                return None
            return (n, n)
        if isinstance(v, tuple) and v[0] == "ival":
            return (self.lo + v[1], self.hi + v[1])
        return None

    def norm(self, v):
        if v == ("sym", self.sym):
            return ("ival", 0)
        return v

    def convert(self, ty, v):
        """conversion of abstract value v to integer type ty"""
        r = type_range(ty)
        if r is None:
            return v
        tlo, thi, bits = r
        v = self.norm(v)
        if isinstance(v, tuple) and v[0] == "k":
            try:
                n = int(v[1])
            except (TypeError, ValueError):
                return v
            m = 1 << bits
            n = ((n - tlo) % m) + tlo
            return ("k", str(n))
        if isinstance(v, tuple) and v[0] == "ival":
            lo, hi = self.lo + v[1], self.hi + v[1]
            if tlo <= lo and hi <= thi:
                return v
            m = 1 << bits
            k = (lo - tlo) // m
            c2 = v[1] - k * m
            lo2, hi2 = self.lo + c2, self.hi + c2
            if tlo <= lo2 and hi2 <= thi:
                return ("ival", c2)
            return ("junk",)
        if isinstance(v, tuple) and v[0] == "junk":
            return v
        return v

    def oracle(self, it, atom):
        if isinstance(atom, tuple) and atom and atom[0] == "cmp":
            a, b = self.norm(atom[2]), self.norm(atom[3])
            if ("junk",) in (a, b):
                raise sx.Unsupported("comparison of a value that went through a lossy (non-uniform) conversion")
            ia, ib = self.interval(a), self.interval(b)
            if ia is None or ib is None:
                return None
            op = atom[1]
            if a == b:
                return {"==": True, "!=": False, "<": False, "<=": True, ">": False, ">=": True}[op]
            if ia[1] < ib[0]:
                return {"==": False, "!=": True, "<": True, "<=": True, ">": False, ">=": False}[op]
            if ib[1] < ia[0]:
                return {"==": False, "!=": True, "<": False, "<=": False, ">": True, ">=": True}[op]
            if ia[1] == ib[0] and op in ("<=", ">"):
                return op == "<="
            if ib[1] == ia[0] and op in (">=", "<"):
                return op == ">="
            raise sx.Unsupported("comparison %s not decided inside region [%d, %d]" % (sx.show(atom), self.lo, self.hi))
        return None
