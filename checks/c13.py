"""C13 Axis-aligned boxes behave as half-open point sets (DESIGN.md §6 C13).

The comparison / min-max functions of fcppt::math::box touch their scalars only through
<, <=, >=, std::min, std::max. For each of them, for N in {1,2,3}:
 IDX   the per-coordinate lambda is instantiated for exactly the indices 0..N-1 and every scalar
       it reads is taken at its own index (index coverage, uniformity)
 ORD   the per-coordinate expression is evaluated under EVERY weak order of its scalars (finite
       abstract domain O: 13 orders of 3 scalars, 75 of 4) and must equal the point-set
       specification; exhaustive, hence valid for every totally ordered coordinate type
 OUT   the outer structure: conjunction over all coordinates (all_of) / box built from the
       per-coordinate (min,max) pairs (init_max) / null box when not intersecting
 CMP   ==, <, != of boxes read the same component set (pos, size)
shrink, stretch_absolute, center and corner_points are decided in c13_arith.py (polynomial identities; truncated division as an opaque atom). Declined: distance, stretch_relative.
"""
import re

from engine import facts as F
from engine import load
from engine import orders as O
from engine import sx
from engine import terms as T

LEVEL = "proof"

PURE_PREFIX = ("fcppt::math::vector::at", "fcppt::math::box::object::pos", "fcppt::math::box::object::max",
               "fcppt::math::box::object::size", "fcppt::math::dim::at")


def R(d):
    class _R:
        pass
    r = _R()
    r.__dict__.update(d)
    return r


SPECS = {
    "fcppt::math::box::contains_point": {
        "kind": "all_of", "scalars": {"p": "at(r_a1)", "lo": "at(pos(r_a0))", "hi": "at(max(r_a0))"},
        "domain": lambda r: True,
        "pred": lambda r: r.lo <= r.p < r.hi,
        "text": "pos <= p < max in every coordinate"},
    "fcppt::math::box::contains": {
        "kind": "all_of", "scalars": {"op": "at(pos(r_a0))", "om": "at(max(r_a0))", "ip": "at(pos(r_a1))", "im": "at(max(r_a1))"},
        "domain": lambda r: r.ip < r.im,
        "pred": lambda r: r.op <= r.ip and r.im <= r.om,
        "text": "for non-empty inner: inner is a subset iff outer.pos <= inner.pos and inner.max <= outer.max"},
    "fcppt::math::box::intersects": {
        "kind": "all_of", "scalars": {"ap": "at(pos(r_a0))", "am": "at(max(r_a0))", "bp": "at(pos(r_a1))", "bm": "at(max(r_a1))"},
        "domain": lambda r: r.ap < r.am and r.bp < r.bm,
        "pred": lambda r: max(r.ap, r.bp) < min(r.am, r.bm),
        "text": "for non-empty boxes: a common point exists iff max(pos) < min(max)"},
    "fcppt::math::box::intersection": {
        "kind": "init_max", "scalars": {"ap": "at(pos(r_a0))", "am": "at(max(r_a0))", "bp": "at(pos(r_a1))", "bm": "at(max(r_a1))"},
        "domain": lambda r: True,
        "pair": lambda r: (max(r.ap, r.bp), min(r.am, r.bm)),
        "text": "intersection = (max of the positions, min of the maxima)", "guard": "fcppt::math::box::intersects"},
    "fcppt::math::box::extend_bounding_box#box": {
        "kind": "init_max", "scalars": {"ap": "at(pos(r_a0))", "am": "at(max(r_a0))", "bp": "at(pos(r_a1))", "bm": "at(max(r_a1))"},
        "domain": lambda r: True,
        "pair": lambda r: (min(r.ap, r.bp), max(r.am, r.bm)),
        "text": "bounding box = (min of the positions, max of the maxima)"},
    "fcppt::math::box::extend_bounding_box#point": {
        "kind": "init_max", "scalars": {"p": "at(r_a1)", "lo": "at(pos(r_a0))", "hi": "at(max(r_a0))"},
        "domain": lambda r: True,
        "pair": lambda r: (min(r.p, r.lo), max(r.p, r.hi)),
        "text": "extended box = (min(p, pos), max(p, max))"},
}


def variant_of(fn):
    nm = F.fn_name(fn)
    if nm == "fcppt::math::box::extend_bounding_box":
        u = fn["_unit"]
        t1 = u.ty(fn["params"][1]["t"]) or ""
        return nm + ("#box" if "box::object" in t1 else "#point")
    return nm


def main(rep, tier, only):
    db = load.load(tier, lib=False, drivers=["drv_grid_box"])
    rep.extra.update(db.stats())
    rep.rule("IDX", "per-coordinate lambda instantiated for exactly the indices 0..N-1", floor=12)
    rep.rule("ORD", "per-coordinate expression equals the point-set specification under every weak order of its scalars", floor=12)
    rep.rule("OUT", "outer structure: conjunction over all coordinates / box of per-coordinate pairs / null box when disjoint", floor=12)
    rep.rule("IVL", "box::interval<I> pairs (pos_I, max_I)", floor=1)
    rep.rule("ACC", "representation contract: pos() / max() (const and non-const) return the stored corners, size() is max - min, the named edges read "
                    "the matching corner and coordinate, the constructors store (pos, pos + size) / (min, max)", floor=12)
    rep.rule("CMP", "==, != and < of boxes read the component set {pos, size} on both operands", floor=3)
    domain_sizes = {}
    for name in sorted(set(k.split("#")[0] for k in SPECS)):
        fns = db.fns(name)
        if not fns:
            rep.broken("C13: no instantiation of %s" % name)
            continue
        done = set()
        for fn in fns:
            spec = SPECS[variant_of(fn)]
            ta = fn.get("targs") or []
            N = None
            for x in ta:
                if str(x).rstrip("UL").isdigit():
                    N = int(str(x).rstrip("UL"))
            key0 = "%s<N=%s>" % (variant_of(fn).replace("fcppt::math::box::", ""), N)
            if key0 in done or N is None:
                continue
            done.add(key0)
            captured = []

            def hook_all_of(it, recv, args, d, unit, n):
                if len(args) == 2 and isinstance(args[1], sx.Closure):
                    captured.append(("all_of", args[1]))
                    return ("sym", "ALLOF")
                return None

            def hook_init_max(it, recv, args, d, unit, n):
                if len(args) == 1 and isinstance(args[0], sx.Closure):
                    captured.append(("init_max", args[0]))
                    return ("sym", "INITMAX")
                return None
            cfg = sx.Config(inline_prefixes=("fcppt::cond",), pure_prefixes=PURE_PREFIX,
                            hooks={"fcppt::algorithm::all_of": hook_all_of, "fcppt::math::box::init_max": hook_init_max})
            it = sx.Interp(db, cfg)
            try:
                paths = it.paths(fn)
            except sx.Unsupported as e:
                rep.broken("C13: %s outside the interpreted fragment: %s" % (key0, e))
                continue
            if not captured:
                # the per-coordinate part is not handed to all_of / init_max as a closure. When the function still reads
                # coordinates some other way (a fold expression over an index pack, a hand-written loop) that is a form this
                # rule does not follow -- analysis-broken, not a verdict; a function that reads no coordinate at all is judged below
                reads = [n_ for n_ in F.walk(fn.get("body"), into_lambdas=True) if n_.get("k") == "call" and re.search(r"math::vector::(at|object::(x|y|z|w|get_unsafe))$|::operator\[\]$", T.callee_qn(fn["_unit"], n_) or "")]
                if reads:
                    rep.broken("C13 OUT/IDX %s at %s: the per-coordinate computation is not a closure passed to %s; this form is not followed" % (
                        key0, F.primary_site(fn), "fcppt::algorithm::all_of" if spec["kind"] == "all_of" else "fcppt::math::box::init_max"))
                    continue
            # ---- OUT
            why = None
            if spec["kind"] == "all_of":
                if len(paths) != 1 or sx.show(paths[0].outcome[1]) != "ALLOF" or paths[0].events:
                    why = "the result is not the conjunction over all coordinates (all_of over int_range_count<N>)"
            elif spec.get("guard"):
                seen_t = seen_f = False
                for p in paths:
                    ev = [e for e in p.events]
                    g = [e for e in ev if e[0].split("<")[0] == spec["guard"]]
                    if len(g) != 1 or sorted(sx.show(a) for a in g[0][1]) != ["r_a0", "r_a1"]:
                        why = "the guard %s(a, b) on the function's own two boxes is not evaluated exactly once" % spec["guard"]
                        break
                    dec = [b for a, b in p.decisions]
                    if dec and dec[0]:
                        seen_t = True
                        if sx.show(p.outcome[1]) != "INITMAX":
                            why = "intersecting boxes do not yield the per-coordinate box"
                    else:
                        seen_f = True
                        nul = [e for e in ev if e[0].split("<")[0] == "fcppt::math::box::null"]
                        if not nul or not sx.show(p.outcome[1]).startswith("#"):
                            why = "disjoint boxes do not yield the null box"
                if not why and not (seen_t and seen_f):
                    why = "the result does not depend on the guard"
            else:
                if len(paths) != 1 or sx.show(paths[0].outcome[1]) != "INITMAX":
                    why = "the result is not the box built from the per-coordinate pairs"
            (rep.fail if why else rep.ok)("OUT", key0, F.primary_site(fn), F.describe(fn)[:160], **({"why": why} if why else {"how": "structure-equal"}))
            clos = [c for (k, c) in captured if k == spec["kind"]]
            if not clos:
                rep.fail("IDX", key0, F.primary_site(fn), F.describe(fn)[:160], why="no per-coordinate lambda found")
                continue
            cl = clos[0]
            ops = cl.node.get("ops", [])
            idx = []
            for op in ops:
                ia = [str(x).rstrip("UL") for x in (op.get("targs") or [])]
                idx.append(int(ia[0]) if ia and ia[0].isdigit() else None)
            if sorted(i for i in idx if i is not None) != list(range(N)):
                rep.fail("IDX", key0, F.primary_site(fn), F.describe(fn)[:160],
                         why="per-coordinate lambda instantiated for indices %s, expected 0..%d" % (sorted(idx, key=str), N - 1))
                continue
            rep.ok("IDX", key0, F.primary_site(fn), F.describe(fn)[:160], how="indices 0..%d" % (N - 1))
            # ---- ORD per index
            names = list(spec["scalars"].keys())
            shows = [spec["scalars"][n] for n in names]
            wos = O.weak_orders(len(names))
            domain_sizes[key0] = len(wos)
            for op, i in zip(ops, idx):
                key = "%s[%d]" % (key0, i)
                bad = None
                nchecked = 0
                for ranks in wos:
                    r = R(dict(zip(names, ranks)))
                    if not spec["domain"](r):
                        continue
                    nchecked += 1
                    # every scalar must be read at index i: terms carry the index in the at<...> key
                    def rank_of(term, _shows=shows, _ranks=ranks, _i=i):
                        s = sx.show(term)
                        if s in _shows:
                            # index check: the app key holds the template arguments of vector::at
                            key_ = term[1] if isinstance(term, tuple) and term[0] == "app" else ""
                            ia = key_[key_.index("<") + 1:].split(",")[0].rstrip("UL") if "<" in key_ else ""
                            if ia != str(_i):
                                raise sx.Unsupported("coordinate %s read inside the lambda for coordinate %d" % (ia, _i))
                            return _ranks[_shows.index(s)]
                        return None
                    it2 = sx.Interp(db, cfg, oracle=O.make_oracle(rank_of))
                    try:
                        v, _ = it2.run_lambda(cl, op, [("k", None)])
                    except sx.Unsupported as e:
                        bad = str(e)
                        break
                    if spec["kind"] == "all_of":
                        if isinstance(v, tuple) and v and v[0] in ("cmp", "not", "and", "or"):
                            try:
                                v = sx.TRUE if it2.decide(v) else sx.FALSE     # a returned comparison is a truth value of the domain
                            except (sx.NeedDecision, sx.Unsupported) as e:
                                bad = "a returned comparison is not decided by the order domain: %s" % sx.show(v)
                                break
                        if isinstance(v, tuple) and v and v[0] == "k" and str(v[1]) in ("0", "1", "true", "false"):
                            v = sx.TRUE if str(v[1]) in ("1", "true") else sx.FALSE       # a literal truth value
                        got = (v == sx.TRUE) if v in (sx.TRUE, sx.FALSE) else None
                        want = bool(spec["pred"](r))
                        if got is None or got != want:
                            bad = "order %s: implementation %s, specification %s (%s)" % (dict(zip(names, ranks)), sx.show(v), want, spec["text"])
                            break
                    else:
                        if not (isinstance(v, tuple) and v[0] == "tuple" and len(v[1]) == 2):
                            bad = "the lambda does not return a (pos, max) pair: %s" % sx.show(v)
                            break
                        gp, gm = rank_of(v[1][0]), rank_of(v[1][1])
                        wp, wm = spec["pair"](r)
                        if gp != wp or gm != wm:
                            bad = "order %s: implementation selects (%s, %s), specification has ranks (%s, %s): %s" % (
                                dict(zip(names, ranks)), sx.show(v[1][0]), sx.show(v[1][1]), wp, wm, spec["text"])
                            break
                if bad:
                    rep.fail("ORD", key, F.site(op), F.describe(fn)[:160], why=bad)
                else:
                    rep.ok("ORD", key, F.site(op), F.describe(fn)[:160], how="exhaustive", detail={"weak_orders": nchecked})
    # ---- interval
    seen = set()
    for fn in db.fns("fcppt::math::box::interval"):
        ta = [str(x).rstrip("UL") for x in (fn.get("targs") or [])]
        key = "interval<%s>" % ",".join(ta)
        if key in seen:
            continue
        seen.add(key)
        cfg = sx.Config(pure_prefixes=PURE_PREFIX)
        try:
            ps = sx.Interp(db, cfg).paths(fn)
        except sx.Unsupported as e:
            rep.broken("C13: interval outside fragment: %s" % e)
            continue
        v = ps[0].outcome[1]
        ok = isinstance(v, tuple) and v[0] == "tuple" and [sx.show(x) for x in v[1]] == ["at(pos(r_a0))", "at(max(r_a0))"]
        if ok:
            for x in v[1]:
                k_ = x[1]
                ia = k_[k_.index("<") + 1:].split(",")[0].rstrip("UL")
                ok = ok and ia == ta[0]
        (rep.ok if ok else rep.fail)("IVL", key, F.primary_site(fn), F.describe(fn)[:160], **({"how": "(pos_I,max_I)"} if ok else {"why": "returns %s" % sx.show(v)}))
    # ---- comparison
    for opname, want in (("fcppt::math::box::operator==", "eq"), ("fcppt::math::box::operator!=", "ne"), ("fcppt::math::box::operator<", "lt")):
        seen = set()
        for fn in db.fns(opname):
            if F.primary_site(fn) in seen:
                continue
            seen.add(F.primary_site(fn))
            cfg = sx.Config(pure_prefixes=PURE_PREFIX)
            try:
                ps = sx.Interp(db, cfg).paths(fn)
            except sx.Unsupported as e:
                rep.broken("C13: %s outside fragment: %s" % (opname, e))
                continue
            text = " ".join(sx.show_event(e) for p in ps for e in p.events) + " " + " ".join(sx.show(a) for p in ps for a, b in p.decisions)
            comps = {c: ("%s(r_a0)" % c in text and "%s(r_a1)" % c in text) for c in ("pos", "size")}
            key = opname.replace("fcppt::math::box::", "box ")
            if want == "ne":
                ok = "operator==" in text and all(p.outcome[0] == "return" for p in ps)
                why = "!= is not the negation of =="
            else:
                ok = all(comps.values())
                why = "components read: %s (both pos and size of both operands are required)" % comps
            (rep.ok if ok else rep.fail)("CMP", key, F.primary_site(fn), F.describe(fn)[:160], **({"how": "components{pos,size}"} if ok else {"why": why}))
    rep.extra["abstract_domain_sizes"] = domain_sizes
    rep.extra["exhaustive"] = True
    # ---- ACC: representation contract the other rules rely on (pos()/max() ARE the stored corners)
    want = {("pos", 0): "min_", ("max", 0): "max_", ("size", 0): "to_dim(operator-(max_, min_))",
            ("left", 0): "min_.x()", ("right", 0): "max_.x()", ("top", 0): "min_.y()", ("bottom", 0): "max_.y()",
            ("front", 0): "min_.z()", ("back", 0): "max_.z()"}
    seen = set()
    from engine import lrules as L2
    for fn in L2.method_fns(db, "fcppt::math::box::object"):
        u = fn["_unit"]
        short = F.fn_name(fn).split("::")[-1]
        if fn.get("kind") == "ctor":
            inits = {}
            for i in fn.get("inits", []):
                if not i.get("field"):
                    continue
                t_ = T.show(T.norm(u, i["init"]))
                # a member initialised EARLIER (initialisation order) and read here stands for the value it was given
                for f0, v0 in list(inits.items()):
                    core = re.sub(r"^fcppt::math::(?:vector|dim)::object\{(.*)\}$", r"\1", v0)
                    t_ = re.sub(r"(?<![\w.])(?:this\.)?%s\b" % re.escape(f0), core, t_)
                inits[i["field"]] = t_
            names = [p_["name"] for p_ in fn.get("params", [])]
            ptys = [(u.ty(p_["t"]) or "") for p_ in fn.get("params", [])]
            kinds = ["dim" if "dim::object" in t_ else ("vec" if "vector::object" in t_ else "?") for t_ in ptys]
            key = "object(%s)" % ",".join(kinds)
            exp = None
            if kinds == ["vec", "dim"]:       # (pos, size)
                exp = {"min_": ("r_a0",), "max_": ("operator+(r_a0, r_a1)", "(r_a0 + r_a1)")}
            elif kinds == ["vec", "vec"]:     # (min, max)
                exp = {"min_": ("r_a0",), "max_": ("r_a1",)}
            if exp is None or key in seen:
                continue
            seen.add(key)
            bad = [f for f, vs in exp.items() if not any(v in inits.get(f, "") and len(inits.get(f, "")) <= len(v) + 40 for v in vs)]
            swapped = exp and kinds == ["vec", "vec"] and "r_a1" in inits.get("min_", "")
            (rep.fail if bad or swapped else rep.ok)("ACC", key, F.primary_site(fn), F.describe(fn)[:160],
                                                     **({"why": "constructor stores %s" % inits} if bad or swapped else {"how": str(inits)}))
            continue
        k = (short, 0)
        if k not in want or fn.get("params"):
            continue
        key = "%s()%s" % (short, " const" if fn.get("const") else "")
        if key in seen:
            continue
        seen.add(key)
        rets = [T.show(T.snorm(u, fn, r.get("e"))) for r in F.walk(fn.get("body"), into_lambdas=False) if r.get("k") == "return"]
        ok = len(rets) == 1 and rets[0] == want[k]
        if not ok and len(rets) == 1 and short not in ("pos", "max"):
            # a member may go through the accessors pos() / max(), which this rule separately shows to BE min_ / max_
            r2 = re.sub(r"(?:this\.)?pos\(\)", "min_", re.sub(r"(?:this\.)?max\(\)", "max_", rets[0])).replace("this.", "")
            ok = r2 == want[k]
        (rep.ok if ok else rep.fail)("ACC", key, F.primary_site(fn), F.describe(fn)[:160],
                                     **({"how": rets[0]} if ok else {"why": "%s returns %s, the box's representation contract says %s" % (key, rets, want[k])}))
    if only in (None, "BOXARITH", "CORNERS"):
        from checks import c13_arith
        c13_arith.rules(rep, db, only)
    rep.explanation = ("Each per-coordinate expression is evaluated by abstract interpretation under every weak order of the scalars it "
                       "reads (finite domain; comparisons, std::min and std::max are interpreted exactly) and compared with the half-open "
                       "point-set specification; index coverage makes the result hold for every coordinate of every N analysed. No "
                       "repository code is executed; exact for every totally ordered coordinate type.")
    rep.trusted = ["clang 14 front end", "the coordinate type's <, <= form a total order consistent with std::min/std::max",
                   "math::vector::at<I> / box::pos / box::max are plain accessors (treated as symbolic scalars)"]
