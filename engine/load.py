"""Unit-set selection (DESIGN.md §3): quick = library units + drivers; thorough adds the
repository's own test/example units as additional instantiation sources."""
import os
import time

from . import facts as F
from . import plumbing as P


def load(tier, lib=True, drivers=None, tests=None, lib_filter=None, test_filter=None):
    """drivers: list of driver base names (None = all, [] = none). tests: None -> by tier."""
    t0 = time.time()
    cd = P.cache_dir()
    units = []
    if lib:
        b, lu = P.library_units(cd)
        if lib_filter:
            lu = [u for u in lu if lib_filter(P.rel(u[0]))]
        units += lu
    if drivers is None or drivers:
        units += P.driver_units(cd, drivers)
    res = P.extract_units(cd, units)
    if tests is None:
        tests = tier == "thorough"
    if tests:
        cdt = P.cache_dir(with_tests=True)
        tu = P.test_units(cdt)
        if test_filter:
            tu = [u for u in tu if test_filter(P.rel(u[0]))]
        res.update(P.extract_units(cdt, tu))
    db = F.DB(res)
    db.load_s = round(time.time() - t0, 1)
    return db
