"""Verdicts, evidence, replay files, known findings, exit codes (DESIGN.md §5).

exit 0: every obligation discharged (or listed as an open known finding)
exit 1: + 'VIOLATION property=<id> replay=<path>' per undischarged obligation instance
exit 2: + 'ANALYSIS-BROKEN: <reason>' (anchor vanished, floor not met, unit does not parse)
"""
import json
import os
import sys
import time

from . import plumbing as P

KNOWN = os.path.join(P.VERIF, "known_findings.json")


def load_known():
    if not os.path.exists(KNOWN):
        return []
    with open(KNOWN) as f:
        return json.load(f).get("findings", [])


class Report:
    def __init__(self, prop, tier, level, checker_cmd):
        self.prop = prop
        self.tier = tier
        self.level = level
        self.checker_cmd = checker_cmd
        self.t0 = time.time()
        self.rules = {}        # rule id -> {"text":..., "instances":0, "discharged":0, "floor":n}
        self.obls = []         # all obligations
        self.viol = {}         # (rule,key) -> obligation (first) + specialisations
        self.justified = []
        self.notes = []
        self.assumptions = []
        self.trusted = []
        self.extra = {}
        self.broken_msgs = []
        self.explanation = ""

    # -- registration ----------------------------------------------------------------------
    def rule(self, rid, text, floor=0):
        self.rules.setdefault(rid, {"text": text, "instances": 0, "discharged": 0, "floor": floor,
                                    "by": {}})

    def ok(self, rid, key, site, function="", how="", detail=None):
        r = self.rules[rid]
        r["instances"] += 1
        r["discharged"] += 1
        r["by"][how or "rule"] = r["by"].get(how or "rule", 0) + 1
        self.obls.append({"rule": rid, "instance": key, "site": site, "function": function,
                          "verdict": "discharged", "by": how or "rule", **({"detail": detail} if detail else {})})

    def fail(self, rid, key, site, function="", why="", detail=None):
        r = self.rules[rid]
        r["instances"] += 1
        try:
            from . import facts as _F
            why = (why or "") + _F.legend_for(function or key.split("|")[0], "%s %s" % (key, why))
        except Exception:   # the legend is a reading aid only
            pass
        o = {"rule": rid, "instance": key, "site": site, "function": function,
             "verdict": "VIOLATED", "why": why, **({"detail": detail} if detail else {})}
        self.obls.append(o)
        k = (rid, key)
        if k not in self.viol:
            self.viol[k] = dict(o, specialisations=[function] if function else [])
        elif function and function not in self.viol[k]["specialisations"]:
            self.viol[k]["specialisations"].append(function)

    def justify(self, rid, key, reason):
        self.justified.append({"rule": rid, "instance": key, "reason": reason})

    def broken(self, msg):
        self.broken_msgs.append(msg)

    def note(self, msg):
        self.notes.append(msg)

    # -- finish ----------------------------------------------------------------------------
    def finish(self):
        for rid, r in sorted(self.rules.items()):
            if r["instances"] < r["floor"]:
                self.broken("rule %s matched %d instances, floor confirmed by hand is %d "
                            "(anchor vanished or instantiation lost)" % (rid, r["instances"], r["floor"]))
        known = [k for k in load_known() if k.get("property") == self.prop and k.get("status", "open") == "open"]
        exit_code = 0
        out = []
        for rid, r in sorted(self.rules.items()):
            by = " ".join("%s=%d" % kv for kv in sorted(r["by"].items()))
            out.append("RULE %s instances=%d discharged=%d [%s] -- %s" %
                       (rid, r["instances"], r["discharged"], by, r["text"]))
        for j in self.justified:
            out.append("JUSTIFIED %s %s: %s" % (j["rule"], j["instance"], j["reason"]))
        nviol = 0
        nknown = 0
        edir = os.environ.get("VERIF_EVIDENCE_DIR") or os.path.join(P.VERIF, "evidence")
        rdir = os.path.join(edir, "replay")
        os.makedirs(rdir, exist_ok=True)
        # remove stale replay files of this property
        for f in os.listdir(rdir):
            if f.startswith(self.prop + "-"):
                os.unlink(os.path.join(rdir, f))
        n = 0
        for (rid, key), o in sorted(self.viol.items()):
            kf = None
            for k in known:
                if k.get("rule") == rid and k.get("instance") == key:
                    kf = k
                    break
            if kf is not None:
                nknown += 1
                out.append("KNOWN-FINDING: property=%s %s [%s at %s]" % (self.prop, kf.get("what", ""), rid, o["site"]))
                continue
            n += 1
            nviol += 1
            path = os.path.join(rdir, "%s-%d.json" % (self.prop, n))
            rep = {"property": self.prop, "rule": rid, "rule_text": self.rules[rid]["text"],
                   "instance": key, "site": o["site"], "function": o.get("function"),
                   "specialisations": o.get("specialisations", [])[:10], "why": o.get("why"),
                   "evidence": o.get("detail"),
                   "rerun": "%s --only %s" % (self.checker_cmd, rid)}
            with open(path, "w") as f:
                json.dump(rep, f, indent=1)
            out.append("  violated: %s %s at %s: %s" % (rid, key, o["site"], o.get("why", "")))
            out.append("VIOLATION property=%s replay=%s" % (self.prop, path))
            exit_code = 1
        for m in self.broken_msgs:
            out.append("ANALYSIS-BROKEN: " + m)
        if self.broken_msgs and exit_code == 0:
            # a violation that was established by a rule that ran stays a violation (exit 1);
            # without one, an analysis that could not be completed is exit 2, never a pass
            exit_code = 2
        nob = sum(r["instances"] for r in self.rules.values())
        ndis = sum(r["discharged"] for r in self.rules.values())
        samples = self._samples()
        cov = {
            "obligations": nob,
            "discharged": ndis + nknown_instances(self, known),
            "checker_cmd": self.checker_cmd,
            "trusted_base": self.trusted,
            "explanation": self.explanation,
            "rules": {rid: {"text": r["text"], "instances": r["instances"],
                            "discharged": r["discharged"], "by": r["by"], "floor": r["floor"]}
                      for rid, r in sorted(self.rules.items())},
            "justified": self.justified,
            "known_findings_reported": nknown,
            "samples": samples,
            "notes": self.notes,
        }
        cov.update(self.extra)
        ev = {"property_id": self.prop, "tier": self.tier,
              "seed": int(os.environ.get("VERIF_SEED", "0") or 0), "level": self.level,
              "coverage": cov, "assumptions": self.assumptions,
              "wall_s": round(time.time() - self.t0, 2), "violations": nviol,
              "analysis_broken": self.broken_msgs}
        os.makedirs(edir, exist_ok=True)
        with open(os.path.join(edir, self.prop + ".json"), "w") as f:
            json.dump(ev, f, indent=1, default=str)
        out.append("RESULT %s exit=%d obligations=%d discharged=%d violations=%d known=%d wall=%.1fs" %
                   (self.prop, exit_code, nob, ndis, nviol, nknown, time.time() - self.t0))
        print("\n".join(out), flush=True)
        return exit_code

    def _samples(self):
        # a few obligations of every rule, violated ones first
        out = []
        per = {}
        for o in sorted(self.obls, key=lambda o: o["verdict"] != "VIOLATED"):
            c = per.get(o["rule"], 0)
            if c >= 6:
                continue
            per[o["rule"]] = c + 1
            out.append(o)
        return out[:120]


def nknown_instances(rep, known):
    # obligations that are violated but covered by an open known finding count as accounted for
    # only in the textual report; they are NOT counted as discharged.
    return 0


def run_check(prop, tier, level, main, checker_cmd):
    """Common driver: exit-code policy around a property's main(report) function."""
    rep = Report(prop, tier, level, checker_cmd)
    try:
        main(rep)
    except P.AnalysisBroken as e:
        rep.broken(str(e))
    except Exception as e:       # an internal error of the checker is never a verdict: exit 2 unless a rule already established a violation
        import traceback
        tb = traceback.extract_tb(e.__traceback__)
        where = "%s:%d" % (os.path.basename(tb[-1].filename), tb[-1].lineno) if tb else "?"
        rep.broken("internal error of the checker (%s: %s at %s)" % (type(e).__name__, e, where))
    code = rep.finish()
    if os.environ.get("VERIF_CACHE_EPHEMERAL") and os.environ.get("FCPPT_OVERLAY"):
        # self-test runs present each mutant / refactoring as its own overlay: its cache entry is of no further use
        import shutil
        for d_ in list(P.USED_CACHE_DIRS):
            shutil.rmtree(d_, ignore_errors=True)
    sys.exit(code)
