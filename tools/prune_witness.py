#!/usr/bin/env python3
"""prune_witness.py <file.cpp> <id>...: remove WITNESS blocks by id (used once to drop witnesses
that demand more than their property states; kept for reproducibility)."""
import re
import sys
path = sys.argv[1]
ids = set(sys.argv[2:])
lines = open(path).read().split("\n")
out = []
skip = False
pat = re.compile(r'^\s*WITNESS\(\s*([A-Za-z0-9_]+)\s*,')
removed = set()
for l in lines:
    m = pat.match(l)
    if m:
        skip = m.group(1) in ids
        if skip:
            removed.add(m.group(1))
    if not skip:
        out.append(l)
open(path, "w").write("\n".join(out))
print("removed", sorted(removed), "missing", sorted(ids - removed))
