#!/usr/bin/env python3
"""try_seed.py <patch.diff> <Cxx>[,<Cyy>...]: apply a seeded change to /repo (git apply), run the named checks
(quick tier) with evidence redirected to a scratch dir, print their verdict lines, and undo the change
(git checkout -- .) whatever happens."""
import os
import subprocess
import sys
import tempfile
VERIF = os.path.dirname(os.path.dirname(os.path.abspath(__file__)))
patch, props = sys.argv[1], sys.argv[2].split(",")
r = subprocess.run(["git", "-C", "/repo", "apply", "--check", patch])
if r.returncode != 0:
    sys.exit("patch does not apply")
subprocess.check_call(["git", "-C", "/repo", "apply", patch])
try:
    ev = tempfile.mkdtemp(prefix="seed-ev-", dir=os.path.join(VERIF, ".work"))
    for p in props:
        env = dict(os.environ, VERIF_EVIDENCE_DIR=ev)
        r = subprocess.run([os.path.join(VERIF, "bin", "check"), p], stdout=subprocess.PIPE, stderr=subprocess.PIPE, text=True, env=env, cwd=VERIF)
        lines = [l for l in r.stdout.split("\n") if l.startswith("  violated:") or l.startswith("ANALYSIS-BROKEN") or l.startswith("RESULT")]
        print("== %s exit=%d" % (p, r.returncode))
        for l in lines[:8]:
            print("   " + l[:400])
finally:
    subprocess.call(["git", "-C", "/repo", "checkout", "--", "."])
    subprocess.call(["rm", "-rf", ev])
