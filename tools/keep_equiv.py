#!/usr/bin/env python3
"""keep_equiv.py <worktree> <property> [wave-prefix]: store every behaviour-preserving refactoring out/<k> of a scratch worktree under
/verif/selftest/equiv/e-<property>-<k>-<slug>/ (patch.diff, notes.md, meta.json). bin/selftest-equiv asserts that the property's
check stays silent (exit 0) on each of them."""
import json
import os
import re
import shutil
import sys
VERIF = os.path.dirname(os.path.dirname(os.path.abspath(__file__)))
wt, prop = sys.argv[1], sys.argv[2]
wave = sys.argv[3] if len(sys.argv) > 3 else ""
for k in sorted(os.listdir(os.path.join(wt, "out"))):
    d = os.path.join(wt, "out", k)
    if not os.path.exists(os.path.join(d, "patch.diff")):
        continue
    notes = open(os.path.join(d, "notes.md")).read() if os.path.exists(os.path.join(d, "notes.md")) else k
    title = re.sub(r"^#+\s*", "", notes.split("\n", 1)[0]).strip()
    slug = re.sub(r"[^a-z0-9]+", "-", title.lower()).strip("-")[:40].strip("-")
    eid = "e-%s-%s%s-%s" % (prop, wave, k, slug)
    dst = os.path.join(VERIF, "selftest", "equiv", eid)
    os.makedirs(dst, exist_ok=True)
    shutil.copy(os.path.join(d, "patch.diff"), os.path.join(dst, "patch.diff"))
    open(os.path.join(dst, "notes.md"), "w").write(notes)
    files = [l[6:].split("\t")[0].strip() for l in open(os.path.join(d, "patch.diff")) if l.startswith("+++ b/")]
    json.dump({"id": eid, "property": prop, "what": title, "files": files,
               "origin": "independent sub-agent asked for behaviour-preserving refactorings (given only the property text and a scratch worktree); "
                         "it built the affected tests with the change and argued the equivalence in notes.md",
               "expect": "exit 0 of the property's check (a violation here is a false alarm)"}, open(os.path.join(dst, "meta.json"), "w"), indent=1)
    print("kept", eid)
