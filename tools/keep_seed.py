#!/usr/bin/env python3
"""keep_seed.py <worktree> <k> <seed-id> <property> <confirm.log> <detected_by: Cxx:RULE[,..] or -> [undetected_reason]
Store an independently produced, confirmed seeded change under /verif/seeded/<seed-id>/ (patch.diff, demo.cpp,
notes.md from the sub-agent, meta.json)."""
import json
import os
import re
import shutil
import sys
VERIF = os.path.dirname(os.path.dirname(os.path.abspath(__file__)))
wt, k, sid, prop, log, det = sys.argv[1:7]
reason = sys.argv[7] if len(sys.argv) > 7 else ""
src = os.path.join(wt, "out", k)
dst = os.path.join(VERIF, "seeded", sid)
os.makedirs(dst, exist_ok=True)
for f in ("patch.diff", "demo.cpp", "notes.md"):
    if os.path.exists(os.path.join(src, f)):
        shutil.copy(os.path.join(src, f), os.path.join(dst, f))
notes = open(os.path.join(src, "notes.md")).read() if os.path.exists(os.path.join(src, "notes.md")) else ""
title = notes.split("\n", 1)[0].lstrip("# ").strip()
m = re.search(r"^##[^\n]*(needed|manifest)[^\n]*\n(.*?)(?=^## |\Z)", notes, re.S | re.M | re.I)
needs = re.sub(r"\s+", " ", m.group(2)).strip()[:900] if m else ""
conf = ""
lines = open(log).read().split("\n")
for i, l in enumerate(lines):
    if l.startswith("CONFIRM %s %s " % (wt, k)):
        conf = " | ".join(x.strip() for x in lines[i:i + 4] if x.startswith("CONFIRM") or x.startswith("    "))
files = [l[6:].split("\t")[0].strip() for l in open(os.path.join(dst, "patch.diff")) if l.startswith("+++ b/")]
checks = sorted(set(x.split(":")[0] for x in det.split(",") if x and x != "-"))
meta = {
    "id": sid, "property": prop, "origin": "independent sub-agent (given only the property text and a scratch worktree)",
    "what": title, "files": files, "needs_to_manifest": needs,
    "confirmed": "applied in a scratch worktree of /repo: full ninja build, ctest (433 tests), demo built and run with and without the change: " + conf,
    "detected_by": checks, "rules": [x for x in det.split(",") if x and x != "-"],
}
if not checks:
    meta["undetected_reason"] = reason
json.dump(meta, open(os.path.join(dst, "meta.json"), "w"), indent=1)
print("kept", sid, "->", checks or reason[:60])
