// Instantiation driver: fcppt::random (variate, distribution::basic, distribution parameters,
// generator::basic_pseudo, wrapper::uniform_container and the make_* factories).
//
// Members that are NOT instantiated because they do not compile in the library today (each was
// checked with clang in a scratch translation unit):
//   - distribution::basic<P>::operator()(Rng &, param_type const &)
//       random/distribution/basic_impl.hpp:60 calls make_result (one parameter) with two arguments
//   - distribution::basic<P>::param() const
//       random/distribution/basic_impl.hpp:38 passes wrapped_distribution::param_type to
//       P::convert_to, which takes the distribution itself (no implicit conversion)
//   - distribution::parameters::uniform_int<T, D>::convert_to
//       random/distribution/parameters/uniform_int_impl.hpp:40,41 decorated_value<Result> is called
//       without the (non-deducible) Result argument
//   - distribution::parameters::uniform_real<T>::convert_to
//       random/distribution/parameters/uniform_real_impl.hpp:35,36 (same)
//   - distribution::parameters::normal<T>::convert_to
//       random/distribution/parameters/normal_impl.hpp:34,35 (same)
//   - operator>>(std::basic_istream &, distribution::basic<P> &)
//       the friend declared in random/distribution/basic_decl.hpp:148 takes and returns the stream
//       BY VALUE; it is found by ADL, is more specialized than the real operator
//       (basic_decl.hpp:209 / basic_impl.hpp:117) and hence selected, and copies a
//       std::basic_istream (deleted copy constructor); the real operator would also access the
//       private member distribution_ without being a friend.
// Because of these, `template class fcppt::random::distribution::basic<P>;` cannot be used and all
// other members are called individually.
#include "drv.hpp"

#include <fcppt/make_strong_typedef.hpp>
#include <fcppt/reference_impl.hpp>
#include <fcppt/strong_typedef.hpp>
#include <fcppt/optional/object_impl.hpp>
#include <fcppt/random/make_variate.hpp>
#include <fcppt/random/variate.hpp>
#include <fcppt/random/distribution/basic.hpp>
#include <fcppt/random/distribution/make_basic.hpp>
#include <fcppt/random/distribution/parameters/make_uniform_enum.hpp>
#include <fcppt/random/distribution/parameters/make_uniform_enum_advanced.hpp>
#include <fcppt/random/distribution/parameters/make_uniform_indices.hpp>
#include <fcppt/random/distribution/parameters/make_uniform_indices_advanced.hpp>
#include <fcppt/random/distribution/parameters/normal.hpp>
#include <fcppt/random/distribution/parameters/uniform_int.hpp>
#include <fcppt/random/distribution/parameters/uniform_int_wrapper.hpp>
#include <fcppt/random/distribution/parameters/uniform_real.hpp>
#include <fcppt/random/generator/minstd_rand.hpp>
#include <fcppt/random/generator/mt19937.hpp>
#include <fcppt/random/generator/seed_from_chrono.hpp>
#include <fcppt/random/wrapper/make_uniform_container.hpp>
#include <fcppt/random/wrapper/make_uniform_container_advanced.hpp>
#include <fcppt/random/wrapper/uniform_container.hpp>
#include <fcppt/type_iso/enum.hpp>
#include <fcppt/type_iso/strong_typedef.hpp>

#include <deque>
#include <ostream>
#include <random>
#include <string>
#include <vector>

namespace drv_r
{
FCPPT_MAKE_STRONG_TYPEDEF(int, strong_int);

enum class color
{
  red,
  green,
  blue,
  fcppt_maximum = blue
};

namespace params = fcppt::random::distribution::parameters;

using p_int = params::uniform_int<int>;
using p_long = params::uniform_int<long>;
using p_strong = params::uniform_int<strong_int>;
using p_enum = params::uniform_int<color>;
using p_real = params::uniform_real<double>;
using p_normal = params::normal<double>;

using minstd = fcppt::random::generator::minstd_rand;
using mt = fcppt::random::generator::mt19937;

using int_vector = std::vector<int>;
}

// ---------------------------------------------------------------------------------------------
// generators
// ---------------------------------------------------------------------------------------------
template class fcppt::random::generator::basic_pseudo<std::minstd_rand>;
template class fcppt::random::generator::basic_pseudo<std::mt19937>;

#define M(G) \
  { \
    G from_seed{drv::make<G::seed>()}; \
    G from_seq{drv::lv<std::seed_seq>()}; \
    (void)from_seed(); \
    (void)G::min(); \
    (void)G::max(); \
    (void)fcppt::random::generator::seed_from_chrono<G::seed>(); \
  }
DRV(drv_random_generator_basic_pseudo) { M(drv_r::minstd) M(drv_r::mt) }
#undef M

// ---------------------------------------------------------------------------------------------
// parameters
// ---------------------------------------------------------------------------------------------
#define M(P, A, B) \
  { \
    drv_r::P const constructed{drv::make<drv_r::P::A>(), drv::make<drv_r::P::B>()}; \
    (void)constructed.convert_from(); \
  }
DRV(drv_random_distribution_parameters)
{
  M(p_int, min, max)
  M(p_long, min, max)
  M(p_strong, min, max)
  M(p_enum, min, max)
  M(p_real, min, sup)
  M(p_normal, mean, stddev)
}
#undef M

// ---------------------------------------------------------------------------------------------
// distribution::basic
// ---------------------------------------------------------------------------------------------
#define M(P, A, B) \
  DRV(drv_random_distribution_basic_##P) \
  { \
    using dist = fcppt::random::distribution::basic<drv_r::P>; \
    dist from_param{drv::clv<dist::param_type>()}; \
    dist from_two{drv::clv<drv_r::P::A>(), drv::clv<drv_r::P::B>()}; \
    (void)fcppt::random::distribution::make_basic(drv::clv<drv_r::P>()); \
    drv::lv<dist>().reset(); \
    drv::lv<dist>().param(drv::clv<dist::param_type>()); \
    (void)drv::lv<dist>()(drv::lv<drv_r::minstd>()); \
    (void)drv::lv<dist>()(drv::lv<drv_r::mt>()); \
    (void)drv::lv<dist>()(drv::lv<std::minstd_rand>()); \
    (void)drv::clv<dist>().min(); \
    (void)drv::clv<dist>().max(); \
    (void)drv::clv<dist>().distribution(); \
    (void)(drv::clv<dist>() == drv::clv<dist>()); \
    (void)(drv::clv<dist>() != drv::clv<dist>()); \
    (void)(drv::lv<std::ostream>() << drv::clv<dist>()); \
    (void)(drv::lv<std::wostream>() << drv::clv<dist>()); \
  }
M(p_int, min, max)
M(p_long, min, max)
M(p_strong, min, max)
M(p_enum, min, max)
M(p_real, min, sup)
M(p_normal, mean, stddev)
#undef M

// ---------------------------------------------------------------------------------------------
// variate
// ---------------------------------------------------------------------------------------------
#define DRV_FOR_PARAMS(M, G) \
  M(G, p_int) M(G, p_long) M(G, p_strong) M(G, p_enum) M(G, p_real) M(G, p_normal)

#define M(G, P) \
  template class fcppt::random:: \
      variate<drv_r::G, fcppt::random::distribution::basic<drv_r::P>>;
DRV_FOR_PARAMS(M, minstd)
DRV_FOR_PARAMS(M, mt)
#undef M

#define M(G, P) \
  { \
    using dist = fcppt::random::distribution::basic<drv_r::P>; \
    using variate = fcppt::random::variate<drv_r::G, dist>; \
    variate from_dist{drv::make<fcppt::reference<drv_r::G>>(), drv::clv<dist>()}; \
    variate from_param{drv::make<fcppt::reference<drv_r::G>>(), drv::clv<dist::param_type>()}; \
    (void)from_dist(); \
    (void)fcppt::random::make_variate(drv::make<fcppt::reference<drv_r::G>>(), drv::clv<dist>())(); \
  }
DRV(drv_random_variate_minstd) { DRV_FOR_PARAMS(M, minstd) }
DRV(drv_random_variate_mt) { DRV_FOR_PARAMS(M, mt) }
#undef M
#undef DRV_FOR_PARAMS

// ---------------------------------------------------------------------------------------------
// factories
// ---------------------------------------------------------------------------------------------
DRV(drv_random_make_uniform_enum)
{
  namespace params = fcppt::random::distribution::parameters;
  (void)params::make_uniform_enum<drv_r::color>();
  (void)params::make_uniform_enum_advanced<params::uniform_int_wrapper, drv_r::color>();
}

#define M(C) \
  (void)params::make_uniform_indices(drv::clv<C>()); \
  (void)params::make_uniform_indices_advanced<params::uniform_int_wrapper>(drv::clv<C>());
DRV(drv_random_make_uniform_indices)
{
  namespace params = fcppt::random::distribution::parameters;
  M(drv_r::int_vector)
  M(std::deque<int>)
  M(std::string)
}
#undef M

#define M(C) \
  (void)fcppt::random::wrapper::make_uniform_container(drv::make<fcppt::reference<C>>()); \
  (void)fcppt::random::wrapper::make_uniform_container_advanced< \
      fcppt::random::distribution::parameters::uniform_int_wrapper, \
      C>(drv::make<fcppt::reference<C>>());
DRV(drv_random_make_uniform_container)
{
  M(drv_r::int_vector)
  M(drv_r::int_vector const)
  M(std::deque<int>)
  M(std::string const)
}
#undef M

// ---------------------------------------------------------------------------------------------
// wrapper::uniform_container
// ---------------------------------------------------------------------------------------------
#define M(C) \
  { \
    using wrapper = fcppt::random::wrapper::uniform_container<C>; \
    wrapper constructed{drv::make<wrapper::container_reference>(), drv::clv<wrapper::param_type>()}; \
    (void)constructed(drv::lv<drv_r::minstd>()); \
    (void)constructed(drv::lv<drv_r::mt>()); \
    (void)constructed(drv::lv<std::mt19937>()); \
  }
DRV(drv_random_wrapper_uniform_container) { M(drv_r::int_vector) M(drv_r::int_vector const) }
#undef M

// Members that were ill-formed before the "fix:" commit for random::distribution::basic; instantiated
// here so that the delegation / parameter-translation rules of C20 see them.
#define M(P)                                                                                        \
  {                                                                                                 \
    using dist = fcppt::random::distribution::basic<drv_r::P>;                                      \
    (void)drv::lv<dist>()(drv::lv<drv_r::minstd>(), drv::clv<drv_r::P>());                          \
    (void)drv::clv<dist>().param();                                                                 \
    (void)drv_r::P::convert_to(drv::clv<typename drv_r::P::distribution>());                        \
  }
DRV(drv_random_basic_param_members) { M(p_int) M(p_long) M(p_strong) M(p_enum) M(p_real) M(p_normal) }
#undef M
