"""C13, arithmetic clauses: shrink, stretch_absolute and corner_points as polynomial identities over the box's stored corners
(engine S with the storage model + engine P), and -- shared with C14 -- the bit strings corner_points is built from.

 BOXARITH  shrink(box, v) = [min + v, max - v], stretch_absolute(box, v) = [min - v, max + v], component by component
 CORNERS   corner_points(box) yields, for every choice of min_j / max_j per coordinate, exactly one point: 2^N distinct corners
           (bit_strings is taken as the code computes it: its write events are applied to its result)
"""
import itertools

from engine import facts as F
from engine import poly as P
from engine import sx
from engine.poly import Poly

RECORDS = ("fcppt::math", "fcppt::array", "fcppt::strong_typedef")


def config(hooks=None):
    return sx.Config(inline_prefixes=("fcppt::",), record_prefixes=RECORDS, pure=("fcppt::array::object::get_unsafe",), ref_writes=True,
                     lvalues=True, max_depth=80, max_steps=600000, hooks=hooks or {}, loop_bound=8)


class Broken(Exception):
    pass


class _Direct(Exception):
    def __init__(self, corners):
        self.corners = corners


def hook_get(it, recv, args, d, unit, n):
    ta = d.get("targs") or []
    if not ta or not str(ta[0]).rstrip("ULul").isdigit() or len(args) != 1:
        return None
    i = int(str(ta[0]).rstrip("ULul"))
    try:
        kind, x = P.root_of(args[0])
    except P.Unresolved:
        return None
    return x[i] if kind == "list" and i < len(x) else None


def bit_strings_value(db, fn):
    """the array bit_strings<T, N>() returns, as the code computes it: [tuple of N constants] per element, from the write events"""
    cfg = config({"std::get": hook_get})
    ps = sx.Interp(db, cfg).paths(fn)
    if len(ps) != 1 or ps[0].outcome[0] != "return":
        raise Broken("bit_strings: %d paths" % len(ps))
    res = P.Resolver(lambda r, k: Poly.atom((r, k)), lambda n: Poly.atom((n,)), ps[0].events)
    begin = None
    out = {}
    for i, (name, args, loc) in enumerate(ps[0].events, 1):
        short = name.split("<")[0].split("::")[-1]
        if short in ("begin",):
            begin = i
            continue
        if short == "write" and len(args) == 2:
            t = args[0]
            if not (isinstance(t, tuple) and t and t[0] == "deref"):
                raise Broken("bit_strings writes to %s" % sx.show(t))
            k = 0
            x = t[1]
            while isinstance(x, tuple) and x and x[0] == "op" and x[1] == "+" and x[3] == ("k", "1"):
                k += 1
                x = x[2]
            if not (isinstance(x, tuple) and x and x[0] == "ev" and x[1] == begin):
                raise Broken("bit_strings writes through %s" % sx.show(t))
            vals = []
            for e in P.storage_list(args[1]):
                p = res.poly(e)
                if set(p.t) - {()}:
                    raise Broken("a bit string with a non-constant component")
                vals.append(p.t.get((), 0))
            if k in out:
                raise Broken("bit_strings writes element %d twice" % k)
            out[k] = tuple(vals)
            continue
        raise Broken("bit_strings: unexpected effect %s" % name)
    n = len(P.storage_list(ps[0].outcome[1]))
    if sorted(out) != list(range(n)):
        raise Broken("bit_strings writes elements %s of %d" % (sorted(out), n))
    return [out[k] for k in range(n)], ps[0].outcome[1]


def rule_bits(rep, db, rid="BITS"):
    rep.rule(rid, "bit_strings<T, N>() yields the 2^N vectors over {0,1}, element k holding the binary digits of k (first component fastest)", floor=2)
    seen = set()
    for fn in db.fns("fcppt::math::vector::bit_strings"):
        ta = fn.get("targs") or []
        N = int(str(ta[1]).rstrip("U")) if len(ta) > 1 and str(ta[1]).rstrip("U").isdigit() else None
        if N is None or (ta[0], N) in seen:
            continue
        seen.add((ta[0], N))
        key = "bit_strings|%s|N=%d" % (ta[0], N)
        try:
            vals, _ = bit_strings_value(db, fn)
        except (Broken, sx.Unsupported, P.Unresolved) as e:
            rep.broken("C14 %s %s: %s" % (rid, key, e))
            continue
        want = [tuple((k >> j) & 1 for j in range(N)) for k in range(2 ** N)]
        if vals == want:
            rep.ok(rid, key, F.primary_site(fn), F.describe(fn), "%d strings" % len(vals))
        else:
            bad = next(k for k in range(len(want)) if k >= len(vals) or vals[k] != want[k])
            rep.fail(rid, key, F.primary_site(fn), F.describe(fn), "element %d is %s, expected %s" % (bad, vals[bad] if bad < len(vals) else "missing", want[bad]))


def box_atoms(res, v):
    """[(min_j poly, max_j poly)] of a box value"""
    f = dict(v[2]) if isinstance(v, tuple) and v and v[0] == "rec" else None
    if f is None or "min_" not in f or "max_" not in f:
        raise Broken("result is not a box object: %s" % sx.show(v)[:120])
    lo = [res.poly(e) for e in P.storage_list(f["min_"])]
    hi = [res.poly(e) for e in P.storage_list(f["max_"])]
    return list(zip(lo, hi))


def rules(rep, db, only):
    rep.rule("BOXARITH", "shrink / stretch_absolute move the two corners by the given vector, component by component", floor=6)
    rep.rule("CORNERS", "corner_points yields each of the 2^N combinations of min_j / max_j exactly once", floor=3)
    cfg = config({"std::get": hook_get})
    for nm, sgn in (("fcppt::math::box::shrink", 1), ("fcppt::math::box::stretch_absolute", -1)):
        seen = set()
        for fn in db.fns(nm):
            ta = tuple(fn.get("targs") or [])
            if ta in seen or ta[0] not in ("int", "unsigned int", "long"):
                continue
            seen.add(ta)
            N = int(str(ta[1]).rstrip("U"))
            key = "%s|%s|N=%d" % (nm.split("::")[-1], ta[0], N)
            b, v = fn["params"][0]["name"], fn["params"][1]["name"]
            bad = None
            try:
                ps = sx.Interp(db, cfg).paths(fn, limit=300)
                for p in ps:
                    if p.outcome[0] != "return":
                        raise Broken("outcome %s" % p.outcome[0])
                    res = P.Resolver(lambda r, k: Poly.atom((r, k)), lambda n: Poly.atom((n,)), p.events)
                    res.opaque_division = True
                    got = box_atoms(res, p.outcome[1])
                    cond = []
                    for d, t in p.decisions:
                        cond.append("%s is %s" % (sx.show(d)[:80], t))
                    for j in range(N):
                        lo = Poly.atom((b + ".min_", j)) + sgn * Poly.atom((v, j))
                        hi = Poly.atom((b + ".max_", j)) - sgn * Poly.atom((v, j))
                        if got[j] != (lo, hi):
                            def atom_name(a):
                                return ("%s(..)" % a[0]) if a[0] in ("div", "mod") else "%s[%s]" % (a[0], ",".join(str(x) for x in a[1:]))
                            bad = "%scoordinate %d of the result is [%s, %s), expected [%s, %s)" % (
                                ("on the path where " + "; ".join(cond[-2:]) + ": ") if cond else "", j, got[j][0].show(atom_name), got[j][1].show(atom_name), lo.show(atom_name), hi.show(atom_name))
                            break
                    if bad:
                        break
            except (Broken, sx.Unsupported, P.Unresolved) as e:
                rep.broken("C13 BOXARITH %s: %s" % (key, e))
                continue
            (rep.fail("BOXARITH", key, F.primary_site(fn), F.describe(fn), bad) if bad else rep.ok("BOXARITH", key, F.primary_site(fn), F.describe(fn)))
    # center(box) = min + (max - min) / 2, component by component, the truncated division being an opaque atom of its operands:
    # (min + max) / 2 is a different atom (and a different value for a negative odd sum)
    seen = set()
    for fn in db.fns("fcppt::math::box::center"):
        ta = tuple(fn.get("targs") or [])
        if ta in seen or ta[0] not in ("int", "unsigned int", "long"):
            continue
        seen.add(ta)
        N = int(str(ta[1]).rstrip("U"))
        key = "center|%s|N=%d" % (ta[0], N)
        b = fn["params"][0]["name"]
        bad = None
        try:
            ps = sx.Interp(db, cfg).paths(fn, limit=50)
            if len(ps) != 1 or ps[0].outcome[0] != "return":
                raise Broken("%d paths" % len(ps))
            res = P.Resolver(lambda r, k: Poly.atom((r, k)), lambda n: Poly.atom((n,)), ps[0].events)
            res.opaque_division = True
            got = [res.poly(e) for e in P.storage_list(ps[0].outcome[1])]
            if len(got) != N:
                raise Broken("%d components" % len(got))
            for j in range(N):
                lo, hi = Poly.atom((b + ".min_", j)), Poly.atom((b + ".max_", j))
                want = lo + Poly.atom(("div", hi - lo, Poly.const(2)))
                if got[j] != want:
                    def atom_name(a):
                        return ("%s(%s, %s)" % (a[0], a[1].show(atom_name), a[2].show(atom_name))) if a[0] in ("div", "mod") else "%s[%s]" % (a[0], ",".join(str(x) for x in a[1:]))
                    bad = "coordinate %d of the center is %s, expected %s (half the extent added to the lower corner)" % (j, got[j].show(atom_name), want.show(atom_name))
                    break
        except (Broken, sx.Unsupported, P.Unresolved) as e:
            rep.broken("C13 BOXARITH %s: %s" % (key, e))
            continue
        (rep.fail("BOXARITH", key, F.primary_site(fn), F.describe(fn), bad) if bad else rep.ok("BOXARITH", key, F.primary_site(fn), F.describe(fn)))
    seen = set()
    for fn in db.fns("fcppt::math::box::corner_points"):
        ta = tuple(fn.get("targs") or [])
        if ta in seen or ta[0] not in ("int", "unsigned int", "long"):
            continue
        seen.add(ta)
        N = int(str(ta[1]).rstrip("U"))
        key = "corner_points|%s|N=%d" % (ta[0], N)
        b = fn["params"][0]["name"]
        try:
            bs = [f for f in db.fns("fcppt::math::vector::bit_strings") if tuple(f.get("targs") or []) == ta]
            if not bs:
                # corner_points no longer goes through bit_strings: analyse it as it is
                hooks = {"std::get": hook_get}
                ps = sx.Interp(db, config(hooks)).paths(fn)
                if len(ps) != 1 or ps[0].outcome[0] != "return":
                    raise Broken("%d paths" % len(ps))
                res = P.Resolver(lambda r, k: Poly.atom((r, k)), lambda n: Poly.atom((n,)), ps[0].events)
                corners = [[res.poly(e) for e in P.storage_list(c)] for c in P.storage_list(ps[0].outcome[1])]
                raise _Direct(corners)
            vals, proto = bit_strings_value(db, bs[0])
            protos = P.storage_list(proto)

            def as_vec(bits, proto_elem):
                # the element's own record shape with the computed constants in place
                return sx._with_elem(sx._with_elem(proto_elem, 0, ("k", str(bits[0]))), 0, ("k", str(bits[0]))) if False else None
            # build the array value element by element through the storage helpers
            arr = proto
            for k, bits in enumerate(vals):
                elem = protos[k]
                for j, bit in enumerate(bits):
                    elem = sx._with_elem(elem, j, ("k", str(bit)))
                    if elem is None:
                        raise Broken("cannot rebuild bit string %d" % k)
                arr = with_array_elem(arr, k, elem)
            hooks = {"std::get": hook_get, "fcppt::math::vector::bit_strings": lambda it, recv, args, d, unit, n, _a=arr: _a}
            ps = sx.Interp(db, config(hooks)).paths(fn)
            if len(ps) != 1 or ps[0].outcome[0] != "return":
                raise Broken("%d paths" % len(ps))
            res = P.Resolver(lambda r, k: Poly.atom((r, k)), lambda n: Poly.atom((n,)), ps[0].events)
            corners = [[res.poly(e) for e in P.storage_list(c)] for c in P.storage_list(ps[0].outcome[1])]
        except _Direct as d_:
            corners = d_.corners
        except (Broken, sx.Unsupported, P.Unresolved) as e:
            rep.broken("C13 CORNERS %s: %s" % (key, e))
            continue
        lo = [Poly.atom((b + ".min_", j)) for j in range(N)]
        hi = [Poly.atom((b + ".max_", j)) for j in range(N)]
        picks = []
        bad = None
        for c in corners:
            if len(c) != N:
                bad = "a corner with %d coordinates" % len(c)
                break
            pick = []
            for j in range(N):
                if c[j] == lo[j]:
                    pick.append(0)
                elif c[j] == hi[j]:
                    pick.append(1)
                else:
                    bad = "coordinate %d of a corner is %s: neither min nor max of that coordinate" % (j, c[j].show())
                    break
            if bad:
                break
            picks.append(tuple(pick))
        if not bad and sorted(picks) != sorted(itertools.product((0, 1), repeat=N)):
            bad = "the corners are the combinations %s: not every combination of min / max exactly once" % picks
        (rep.fail("CORNERS", key, F.primary_site(fn), F.describe(fn), bad) if bad else rep.ok("CORNERS", key, F.primary_site(fn), F.describe(fn), "%d corners" % len(picks)))


def with_array_elem(arr, k, elem):
    """array value with element k replaced (array::object{impl_=std::array{T[n]{...}}})"""
    if isinstance(arr, tuple) and arr and arr[0] == "rec" and len(arr[2]) == 1:
        inner = with_array_elem(arr[2][0][1], k, elem)
        return ("rec", arr[1], ((arr[2][0][0], inner),))
    if isinstance(arr, tuple) and arr and arr[0] == "new" and arr[2] == "agg":
        items = list(arr[3])
        if arr[1].endswith("]"):
            items[k] = elem
            return ("new", arr[1], arr[2], tuple(items))
        if len(items) == 1:
            return ("new", arr[1], arr[2], (with_array_elem(items[0], k, elem),))
    raise Broken("unknown array form: %s" % sx.show(arr)[:100])
