#include "drv.hpp"
#include <fcppt/math/ceil_div.hpp>
#include <fcppt/math/mod.hpp>
#include <fcppt/container/pop_back.hpp>
#include <vector>
#define M(T) (void)fcppt::math::mod(drv::clv<T>(), drv::clv<T>());
DRV(drv_smoke_mod) { DRV_FOR_UNSIGNED(M) }
#undef M
DRV(drv_smoke_ceil_div) { (void)fcppt::math::ceil_div(drv::clv<unsigned>(), drv::clv<unsigned>()); }
DRV(drv_smoke_pop_back) { (void)fcppt::container::pop_back(drv::lv<std::vector<int>>()); }
