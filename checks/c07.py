"""C07 raw_vector / buffer vs. std::vector (DESIGN.md §6 C07): ownership and aliasing STRUCTURE only.

Necessary conditions of "no leak, no double free, aliasing inserts, same returned iterators":
 OWN-1  in every member that calls alloc_.allocate: the old storage is released exactly once
        (deallocate()) after the copy-out and the new pointers are installed (set_pointers / impl
        move) with the allocated pointer, before the function returns
 OWN-2  destructors release; deallocate() guards the null state; the moved-from / released state is
        all-null (move constructor, impl move, buffer::release) so exactly one owner remains;
        swap exchanges all pointer fields pairwise
 ALIAS  insert(pos, T const&) / insert(pos, n, T const&): on no path is the by-reference value read
        after a write into the vector's own element storage (it is copied first)
 RET    both erase overloads return their first iterator parameter (the position following the
        removed range); insert(pos, v) returns begin()+offset after reallocation and pos otherwise
 BUF    buffer::release hands (first_, read_end_, cap_) to the raw_vector rep (read area, not write
        area) and nulls the buffer; to_raw_vector builds the vector from release()
 OWN-3  a member that overwrites the whole impl_ of an existing object (move-assignment of impl_, set_pointers)
        has released the old storage on that path first (deallocate()), or is a swap
 CAP    every in-place advance of an end pointer (++last_, last_ += n, write_end_ = read_end_ + n) is dominated
        by a guard that is, by linear normalisation over the pointer fields (size() = last_-first_, capacity() =
        cap_-first_, read_size() = read_end_-first_, ...), exactly `advanced pointer + n <= cap_`
Declined: equivalence with std::vector over operation histories, the growth policy, element values.
"""
import re

from engine import facts as F
from engine import load
from engine import lrules as L
from engine import terms as T

LEVEL = "other"
RV = "fcppt::container::raw_vector::object"
BUF = "fcppt::container::buffer::object"


def stmts_in_order(fn):
    """flattened statement/expression-call order (pre-order walk of the body)"""
    return [n for n in F.walk(fn.get("body"), into_lambdas=False)]


def call_seq(u, fn, items=None):
    out = []
    for n in F.walk(items if items is not None else fn.get("body"), into_lambdas=False):
        if n.get("k") == "call":
            q = T.callee_qn(u, n)
            if q:
                out.append((q, n))
        if n.get("k") == "return":
            out.append(("<return>", n))
    return out


def own1_path(u, fn, seq):
    """None if the path does not allocate, 'ok', or a reason"""
    allocs = [i for i, (q, n) in enumerate(seq) if q.endswith("::allocate") and "alloc_" in T.show(T.norm(u, n.get("recv")))]
    if not allocs:
        return None
    i0 = allocs[0]
    var = None
    for v in F.walk(fn.get("body"), into_lambdas=False):
        if v.get("k") == "var" and v.get("init") is not None:
            if any(m is seq[i0][1] for m in F.walk(v["init"])):
                var = v.get("name")
    deall = [i for i, (q, n) in enumerate(seq) if q.endswith("::deallocate") and i > i0 and "alloc_" not in T.show(T.norm(u, n.get("recv")) or ("k", ""))]
    inst = [i for i, (q, n) in enumerate(seq) if (q.endswith("::set_pointers") or q.endswith("impl::operator=")) and i > i0]
    copies = [i for i, (q, n) in enumerate(seq) if q in ("std::uninitialized_copy", "std::uninitialized_fill") and i > i0]
    if len(deall) != 1:
        return "old storage is released %d times after the allocation (expected exactly once)" % len(deall)
    if not inst or inst[0] < deall[0]:
        return "the new pointers are not installed after releasing the old storage"
    if any(c > deall[0] for c in copies):
        return "elements are copied out of the old storage after it was released"
    n_inst = seq[inst[0]][1]
    a0 = " ".join(T.show(T.norm(u, a)) for a in n_inst.get("args", []))
    if var and var not in a0:
        return "the installed pointer is %s, not the allocated memory %s" % (a0, var)
    rets = [i for i, (q, n) in enumerate(seq) if q == "<return>" and i0 < i < inst[0]]
    if rets:
        return "a return between allocation and installation leaks the new storage"
    return "ok"


END_FIELDS = ("last_", "read_end_", "write_end_")
ACCESSORS = {"size": {"last_": 1, "first_": -1}, "capacity": {"cap_": 1, "first_": -1}, "read_size": {"read_end_": 1, "first_": -1},
             "write_size": {"write_end_": 1, "read_end_": -1}, "end": {"last_": 1}, "data_end": {"last_": 1}, "begin": {"first_": 1},
             "data": {"first_": 1}, "read_data": {"first_": 1}, "read_data_end": {"read_end_": 1}, "write_data": {"read_end_": 1},
             "write_data_end": {"write_end_": 1}}
TRANSPARENT_NUM = ("fcppt::cast::to_unsigned", "fcppt::cast::to_signed", "fcppt::cast::size", "fcppt::cast::to_unsigned_fun", "std::move")


def _add(a, b, k=1):
    out = dict(a)
    for x, c in b.items():
        out[x] = out.get(x, 0) + k * c
        if out[x] == 0:
            del out[x]
    return out


def lin(t, defs):
    """linear form {atom: coefficient} of a normalised term over the pointer fields of this->impl_, or None"""
    if not isinstance(t, tuple) or not t:
        return None
    if t[0] == "k":
        try:
            v = int(str(t[1]).rstrip("uUlL"))
        except (TypeError, ValueError):
            return None
        return {"1": v} if v else {}
    if t[0] == "cast":
        return lin(t[2], defs)
    if t[0] == "v":
        if t[1] in defs:
            return defs[t[1]]
        return {"var:%s" % t[2]: 1}
    if t[0] == "m":
        b = t[1]
        if b == ("m", ("this",), "impl_") and t[2] in ("first_", "last_", "cap_", "read_end_", "write_end_"):
            return {t[2]: 1}
        return None
    if t[0] == "b" and t[1] in ("+", "-"):
        l, r = lin(t[2], defs), lin(t[3], defs)
        if l is None or r is None:
            return None
        return _add(l, r, 1 if t[1] == "+" else -1)
    if t[0] == "c" and isinstance(t[1], str):
        short = t[1].split("::")[-1]
        if t[1] in TRANSPARENT_NUM and len(t[3]) == 1:
            return lin(t[3][0], defs)
        if t[1] == "std::distance" and len(t[3]) == 2:
            a, b = lin(t[3][0], defs), lin(t[3][1], defs)
            return None if a is None or b is None else _add(b, a, -1)
        if t[2] == ("this",) and not t[3] and short in ACCESSORS:
            return dict(ACCESSORS[short])
    return None


def guard_form(t, pol, defs):
    """a condition term under a polarity as linear form g with meaning g <= 0, or None"""
    while isinstance(t, tuple) and t and t[0] == "u" and t[1] == "!":
        t, pol = t[2], not pol
    if not (isinstance(t, tuple) and t and t[0] == "b" and t[1] in ("<", "<=", ">", ">=")):
        return None
    l, r = lin(t[2], defs), lin(t[3], defs)
    if l is None or r is None:
        return None
    op = t[1]
    if not pol:
        op = {"<": ">=", "<=": ">", ">": "<=", ">=": "<"}[op]
    if op in (">", ">="):
        l, r, op = r, l, {">": "<", ">=": "<="}[op]
    g = _add(l, r, -1)
    if op == "<":
        g = _add(g, {"1": 1})
    return g


def always_exits(s):
    if s is None:
        return False
    if s.get("k") in ("return", "throw"):
        return True
    if s.get("k") == "compound":
        return any(always_exits(c) for c in s.get("ch", []))
    return False


def guarded_statements(stmts, conds=()):
    """(statement, dominating (cond, polarity) list) in a structured body; an early exit guards the rest"""
    conds = list(conds)
    for s in stmts:
        if s is None:
            continue
        k = s.get("k")
        if k == "if":
            thn, els = s.get("then"), s.get("else")
            for x in guarded_statements([thn], conds + [(s.get("cond"), True)]):
                yield x
            for x in guarded_statements([els], conds + [(s.get("cond"), False)]):
                yield x
            if always_exits(thn) and not always_exits(els):
                conds = conds + [(s.get("cond"), False)]
            elif always_exits(els) and not always_exits(thn):
                conds = conds + [(s.get("cond"), True)]
        elif k == "compound":
            for x in guarded_statements(s.get("ch", []), conds):
                yield x
        elif k in ("for", "while", "do", "range_for"):
            for x in guarded_statements([s.get("body")], conds):
                yield x
        else:
            yield (s, conds)


def cap_sites(u, fn):
    """[(site, advanced pointer field, n form, ok, why)] for every in-place advance of an end pointer of this->impl_"""
    out = []
    defs = {}
    for (st, conds) in guarded_statements((fn.get("body") or {}).get("ch", [])):
        if st.get("k") == "decl":
            for v in st.get("ch", []):
                if v.get("k") == "var" and v.get("init") is not None:
                    f = lin(T.norm(u, v["init"]), defs)
                    if f is not None:
                        defs[v["id"]] = f
        for n in F.walk(st, into_lambdas=False):
            k = n.get("k")
            tgt = new = None
            if k == "unop" and n.get("op") == "++":
                tgt = T.norm(u, n["e"])
                new = _add(lin(tgt, defs) or {}, {"1": 1}) if lin(tgt, defs) else None
            elif k == "compound_assign" and n.get("op") == "+=":
                tgt = T.norm(u, n["l"])
                a, b = lin(tgt, defs), lin(T.norm(u, n["r"]), defs)
                new = _add(a, b) if a is not None and b is not None else None
            elif k == "assign":
                tgt = T.norm(u, n["l"])
                new = lin(T.norm(u, n["r"]), defs)
                if new is not None and not any(x in new for x in ("first_", "last_", "read_end_", "write_end_", "cap_")):
                    new = None
                if isinstance(T.norm(u, n["r"]), tuple) and T.norm(u, n["r"]) == ("k", "nullptr"):
                    continue
            else:
                continue
            if not (isinstance(tgt, tuple) and tgt[0] == "m" and tgt[1] == ("m", ("this",), "impl_") and tgt[2] in END_FIELDS):
                continue
            site = u.loc(n.get("loc"))
            if new is None:
                out.append((site, tgt[2], None, False, "the new value of %s is not a linear expression over the pointer fields" % tgt[2]))
                continue
            req = _add(new, {"cap_": 1}, -1)          # new - cap_ <= 0
            ok, seen = False, []
            for (c, pol) in conds:
                g = guard_form(T.norm(u, c), pol, defs)
                if g is None:
                    continue
                seen.append(g)
                d = _add(req, g, -1)
                if all(x == "1" for x in d) and d.get("1", 0) <= 0:
                    ok = True
            out.append((site, tgt[2], new, ok, None if ok else
                        "the new %s = %s is not bounded by cap_ under the dominating guards %s" % (tgt[2], show_lin(new), [show_lin(g) + " <= 0" for g in seen])))
    return out


def show_lin(f):
    if not f:
        return "0"
    parts = []
    for x, c in sorted(f.items(), key=lambda kv: (kv[0] == "1", kv[0])):
        name = x if x != "1" else ""
        if x == "1":
            parts.append("%+d" % c)
        elif c == 1:
            parts.append("+" + name)
        elif c == -1:
            parts.append("-" + name)
        else:
            parts.append("%+d*%s" % (c, name))
    return " ".join(parts).lstrip("+")


def path_seqs(u, fn):
    """call sequences per structured path (if-splitting), conditions excluded"""
    body = fn.get("body") or {}
    return [call_seq(u, fn, items) for (items, conds) in L.flatten_paths(body.get("ch", []))]


def main(rep, tier, only):
    db = load.load(tier, lib=False, drivers=["drv_containers"])
    rep.extra.update(db.stats())
    rep.rule("OWN-1", "allocate => copy-out => deallocate() once => install the allocated pointer, before return", floor=5)
    rep.rule("OWN-2", "destructor releases; deallocate guards null; moved-from / released state is all-null; swap is pairwise", floor=6)
    rep.rule("ALIAS", "insert(pos, T const&) / insert(pos, n, T const&) never read the value parameter after writing element storage", floor=2)
    rep.rule("RET", "erase returns its first iterator parameter; insert(pos, v) returns begin()+offset / pos", floor=3)
    rep.rule("BUF", "buffer::release hands (first_, read_end_, cap_) and nulls the buffer; to_raw_vector uses release()", floor=2)
    rep.rule("EQ", "raw_vector operator== is `sizes equal && equal(left.begin(), left.end(), right.begin())`", floor=1)
    rep.rule("WRITTEN", "append_from / append_from_opt hand the callback's element count to buffer::written() unchanged", floor=2)
    rep.rule("OWN-3", "a member that overwrites the whole impl_ of an existing object has released the old storage on that path first, or is a swap", floor=3)
    rep.rule("CAP", "every in-place advance of an end pointer is dominated by a guard equal, by linear normalisation over the pointer fields, "
                    "to `new end <= cap_` (functions whose contract puts the bound on the caller are listed as contract)", floor=4)
    rv = L.method_fns(db, RV) + L.method_fns(db, RV + "::impl") + L.method_fns(db, BUF + "::impl")
    if len(rv) < 30:
        rep.broken("raw_vector::object: only %d members analysed" % len(rv))
    for fn in rv + L.method_fns(db, BUF):
        u = fn["_unit"]
        name = F.fn_name(fn)
        short = name.split("::")[-1]
        seq = call_seq(u, fn)
        P0 = fn["params"][0]["name"] if fn.get("params") else "?"
        key = "%s(%s)" % (name.replace("fcppt::container::", ""), ",".join((u.ty(p["t"]) or "").split("::")[-1][:24] for p in fn.get("params", [])))
        if fn.get("kind") != "ctor":
            whys = [own1_path(u, fn, seq) for seq in path_seqs(u, fn)]
            whys = [w for w in whys if w is not None]
            if whys:
                bad = [w for w in whys if w != "ok"]
                (rep.fail if bad else rep.ok)("OWN-1", key, F.primary_site(fn), F.describe(fn)[:160],
                                              **({"why": bad[0]} if bad else {"how": "allocate;copy;deallocate;install", "detail": {"allocating_paths": len(whys)}}))
        seq = call_seq(u, fn)
        if fn.get("kind") == "dtor" and not name.endswith("impl::~impl"):
            ok = any(q.endswith("::deallocate") for q, n in seq)
            (rep.ok if ok else rep.fail)("OWN-2", key, F.primary_site(fn), F.describe(fn)[:160], **({"how": "releases"} if ok else {"why": "destructor does not release the storage"}))
        if short == "deallocate" and name.startswith(RV):
            conds = [T.show(T.norm(u, n.get("cond"))) for n in F.walk(fn.get("body")) if n.get("k") == "if"]
            inner = [q for q, n in seq if q.endswith("::deallocate")]
            ok = conds and "first_" in conds[0] and "nullptr" in conds[0] and len(inner) == 1
            (rep.ok if ok else rep.fail)("OWN-2", key, F.primary_site(fn), F.describe(fn)[:160], **({"how": "null-guarded"} if ok else {"why": "deallocate is not `if (first_ != nullptr) alloc_.deallocate(first_, capacity())`"}))
        if short == "swap" and name.startswith(RV):
            sw = [(T.show(T.norm(u, n["args"][0])), T.show(T.norm(u, n["args"][1]))) for q, n in seq if q == "std::swap"]
            flds = sorted(a.split(".")[-1] for a, b in sw)
            ok = flds == ["cap_", "first_", "last_"] and all(a.split(".")[-1] == b.split(".")[-1] and b.startswith(P0 + ".") for a, b in sw)
            (rep.ok if ok else rep.fail)("OWN-2", key, F.primary_site(fn), F.describe(fn)[:160], **({"how": "pairwise first_/last_/cap_"} if ok else {"why": "swap exchanges %s" % sw}))
        if short in ("reset_pointers", "release_internal"):
            ws = {}
            for f_ in ("first_", "last_", "cap_", "read_end_", "write_end_"):
                for w in L.field_writes(u, fn, f_):
                    ws[f_] = L.is_nullptr(u, w["value"])
            want = ("first_", "last_", "cap_") if short == "reset_pointers" else ("first_", "read_end_", "write_end_", "cap_")
            ok = all(ws.get(f_) for f_ in want)
            (rep.ok if ok else rep.fail)("OWN-2", key, F.primary_site(fn), F.describe(fn)[:160], **({"how": "all-null"} if ok else {"why": "released state is not all-null: %s" % ws}))
        if fn.get("kind") == "ctor" and fn.get("ctor_kind") == "move" and name == RV + "::impl::impl":
            ok = any(q.endswith("::reset_pointers") and T.show(T.norm(u, n.get("recv"))) == P0 for q, n in seq)
            (rep.ok if ok else rep.fail)("OWN-2", key, F.primary_site(fn), F.describe(fn)[:160], **({"how": "source reset"} if ok else {"why": "the moved-from impl keeps its pointers (double free)"}))
        if fn.get("kind") == "ctor" and fn.get("ctor_kind") == "move" and name == BUF + "::object":
            ok = any(q.endswith("::release_internal") and T.show(T.norm(u, n.get("recv"))) == P0 for q, n in seq)
            (rep.ok if ok else rep.fail)("OWN-2", key, F.primary_site(fn), F.describe(fn)[:160], **({"how": "source released"} if ok else {"why": "the moved-from buffer keeps its pointers (double free)"}))
        # ---- OWN-3
        if fn.get("kind") not in ("ctor", "dtor") and (name.startswith(RV + "::") or name.startswith(BUF + "::")) and "::impl::" not in name \
                and short not in ("swap", "set_pointers"):
            bad = None
            n_over = 0
            for pseq in path_seqs(u, fn):
                released = False
                for (q, n) in pseq:
                    recv = T.show(T.norm(u, n.get("recv"))) if n.get("recv") is not None else ""
                    if q.endswith("::deallocate") and recv in ("this", "", "impl_", "this.impl_"):
                        released = True
                    over = (q.endswith("::set_pointers") and recv in ("this", "")) or (q.endswith("impl::operator=") and recv in ("impl_", "this.impl_"))
                    if over:
                        n_over += 1
                        if not released:
                            bad = "%s at %s overwrites the storage pointers of this object without a preceding deallocate(): the old block is never released" % (q.split("::")[-1], u.loc(n.get("loc")))
            if n_over:
                (rep.fail if bad else rep.ok)("OWN-3", key, F.primary_site(fn), F.describe(fn)[:160], **({"why": bad} if bad else {"how": "deallocate-before-overwrite"}))
        if short == "operator=" and fn.get("params") and fn["params"][0]["ref"] == "rref" and "::impl::" not in name and (name.startswith(RV + "::") or name.startswith(BUF + "::")):
            sw = [q for q, n in seq if q.endswith("::swap")]
            if sw:
                rep.ok("OWN-3", key + "|swap", F.primary_site(fn), F.describe(fn)[:160], how="swap")
        # ---- CAP
        if fn.get("kind") not in ("ctor", "dtor") and (name.startswith(RV + "::") or name.startswith(BUF + "::")) and "::impl::" not in name \
                and short != "set_pointers":
            for (site, fld, new, ok, why) in cap_sites(u, fn):
                k2 = "%s|%s" % (key, fld)
                if short == "written":
                    rep.ok("CAP", k2, site, F.describe(fn)[:160], how="contract: written(n) requires n <= write_size() (documented)")
                elif ok:
                    rep.ok("CAP", k2, site, F.describe(fn)[:160], how="guard == (new end <= cap_)")
                else:
                    rep.fail("CAP", k2, site, F.describe(fn)[:160], why=why)
        # ---- ALIAS
        if short == "insert" and name.startswith(RV) and fn.get("params"):
            last = fn["params"][-1]
            lt = u.ty(last["t"]) or ""
            if last["ref"] == "clref" and not lt.startswith("const std::") and "iterator" not in lt and len(fn["params"]) in (2, 3):
                # walk in order: storage writes then reads of _value
                bad = None
                wrote = None
                # the local that holds freshly allocated storage (copies into it do not touch the vector's own elements)
                fresh = next((v.get("name") for v in F.walk(fn.get("body"), into_lambdas=False) if v.get("k") == "var" and v.get("init") is not None
                              and any((T.callee_qn(u, m) or "").endswith("::allocate") for m in F.walk(v["init"]) if m.get("k") == "call")), None)
                for n in F.walk(fn.get("body"), into_lambdas=False):
                    k = n.get("k")
                    if k in ("if",):
                        pass
                    if k == "call":
                        q = T.callee_qn(u, n) or ""
                        if q in ("std::copy_backward", "std::copy", "std::move_backward", "std::memmove"):
                            dst = T.show(T.norm(u, n["args"][-1]))
                            if not (fresh and fresh in dst):
                                wrote = u.loc(n["loc"])
                    if k == "ref" and n.get("id") == last["id"] and wrote:
                        bad = (wrote, u.loc(n["loc"]))
                        break
                # branch-insensitive over-approximation is exact here: writes into own storage only
                # occur on the in-place branch, and a read of _value there after the write is the defect
                if bad and _same_branch(fn, bad):
                    rep.fail("ALIAS", key, bad[1], F.describe(fn)[:160],
                             why="the value parameter is read at %s after the elements were shifted at %s: a value referring to an element of this vector is taken from its new position" % (bad[1], bad[0]))
                else:
                    rep.ok("ALIAS", key, F.primary_site(fn), F.describe(fn)[:160], how="value copied / read before the shift")
        # ---- RET
        if short == "erase" and name.startswith(RV):
            first = fn["params"][0]
            rets = [n for n in F.walk(fn.get("body"), into_lambdas=False) if n.get("k") == "return"]
            ok = rets and all((T.unwrap(u, r["e"]) or {}).get("id") == first["id"] for r in rets)
            got = [T.show(T.norm(u, r["e"])) for r in rets]
            (rep.ok if ok else rep.fail)("RET", key, F.primary_site(fn), F.describe(fn)[:160],
                                         **({"how": "returns " + first["name"]} if ok else {"why": "returns %s; std::vector returns the position following the removed range, i.e. %s" % (got, first["name"])}))
        if short == "insert" and name.startswith(RV) and len(fn.get("params", [])) == 2 and u.ty(fn.get("ret")) != "void":
            rets = [T.show(T.norm(u, r["e"])) for r in F.walk(fn.get("body"), into_lambdas=False) if r.get("k") == "return"]
            off = next((v.get("name") for v in F.walk(fn.get("body"), into_lambdas=False) if v.get("k") == "var" and v.get("init") is not None
                        and T.show(T.norm(u, v["init"])).replace(" ", "") in ("(%s-this.begin())" % P0, "(%s-begin())" % P0)), None)
            ok = len(rets) == 2 and off is not None and any("begin()" in r and off in r for r in rets) and P0 in rets
            (rep.ok if ok else rep.fail)("RET", key, F.primary_site(fn), F.describe(fn)[:160], **({"how": str(rets)} if ok else {"why": "returns %s" % rets}))
        # ---- BUF
        if name == BUF + "::release":
            reps = [n for n in F.walk(fn.get("body")) if n.get("k") == "construct" and "raw_vector::rep" in (n.get("cls") or "")]
            args = [T.show(T.norm(u, a)) for a in reps[0].get("args", [])] if reps else []
            want = ["first_", "read_end_", "cap_"]
            ok = reps and [a.split(".")[-1] for a in args[1:]] == want and any(q.endswith("::release_internal") for q, n in seq)
            (rep.ok if ok else rep.fail)("BUF", key, F.primary_site(fn), F.describe(fn)[:160],
                                         **({"how": "(first_, read_end_, cap_);nulled"} if ok else {"why": "rep is built from %s (expected first_, read_end_, cap_) or the buffer is not nulled" % args}))
    # ---- EQ: raw_vector == is "same size and equal elements" (a shorter vector that is a prefix is not equal)
    seen_eq = set()
    for fn in db.functions:
        if fn.get("op") != "==" or len(fn.get("params", [])) != 2:
            continue
        u = fn["_unit"]
        pts = [F.strip_targs((u.ty(p_["t"]) or "").replace("const ", "").replace(" &", "")) for p_ in fn["params"]]
        if pts != [RV, RV] or F.primary_site(fn) in seen_eq:
            continue
        seen_eq.add(F.primary_site(fn))
        a, b = fn["params"][0]["name"], fn["params"][1]["name"]
        rets = [r for r in F.walk(fn.get("body"), into_lambdas=False) if r.get("k") == "return"]
        t = T.snorm(u, fn, rets[0]["e"]) if len(rets) == 1 else None
        why = "operator== is not a single expression"
        if t is None and len(rets) == 2:
            # `if (sizes differ) return false; return equal(...);` is the same conjunction
            ifs = [i for i in F.walk(fn.get("body"), into_lambdas=False) if i.get("k") == "if" and i.get("else") is None]
            if len(ifs) == 1:
                inner = [r for r in F.walk(ifs[0].get("then"), into_lambdas=False) if r.get("k") == "return"]
                c = T.snorm(u, fn, ifs[0].get("cond"))
                if len(inner) == 1 and T.show(T.snorm(u, fn, inner[0]["e"])) in ("0", "false") and isinstance(c, tuple) and c[0] == "b" and c[1] == "!=":
                    last = [r for r in rets if r is not inner[0]][0]
                    t = ("b", "&&", ("b", "==", c[2], c[3]), T.snorm(u, fn, last["e"]))
        if isinstance(t, tuple) and t[0] == "b" and t[1] == "&&":
            l, r = T.show(t[2]).replace(" ", ""), T.show(t[3]).replace(" ", "")
            size_ok = l in ("(%s.size()==%s.size())" % (a, b), "(%s.size()==%s.size())" % (b, a))
            eq_ok = bool(re.match(r"^equal\(%s\.begin\(\),%s\.end\(\),%s\.begin\(\)(,%s\.end\(\))?\)$" % (a, a, b, b), r))
            why = None if size_ok and eq_ok else "operator== is `%s && %s`; expected `sizes equal && equal(left.begin(), left.end(), right.begin())`" % (T.show(t[2]), T.show(t[3]))
        elif isinstance(t, tuple) and t[0] == "c" and str(t[1]).endswith("equal") and len(t[3]) == 4:
            why = None   # four-iterator std::equal compares the lengths itself
        (rep.fail if why else rep.ok)("EQ", "raw_vector operator==", F.primary_site(fn), F.describe(fn)[:160], **({"why": why} if why else {"how": "size == size && equal(...)"}))
    # ---- WRITTEN: the count handed to buffer::written() by the append / read helpers is the callback's result itself
    seen_w = set()
    for fn in db.functions:
        name = F.fn_name(fn)
        u = fn["_unit"]
        if not name.startswith("fcppt::container::buffer::") or name.startswith(BUF) or not u.file_of(fn["primary"]).startswith("libs/"):
            continue
        top = F.top_function(fn)
        if top is not fn:
            continue
        for (n, d, q) in L.calls_in(u, fn.get("body"), into_lambdas=True):
            if not q.endswith("buffer::object::written") or not n.get("args"):
                continue
            key = "%s|written" % F.fn_name(top).replace("fcppt::container::", "")
            if key in seen_w:
                continue
            seen_w.add(key)
            arg = n["args"][0]
            # a named intermediate (`auto const count(_function(...)); written(count)`) stands for its initialiser
            for _ in range(3):
                a0 = T.unwrap(u, arg)
                if a0 is not None and a0.get("k") == "ref" and a0.get("dk") == "local" and a0.get("id") in T.const_local_defs(u, fn):
                    inits = [v for v in F.walk(fn.get("body"), into_lambdas=True) if v.get("k") == "var" and v.get("id") == a0["id"] and v.get("init") is not None]
                    if len(inits) == 1:
                        arg = inits[0]["init"]
                        continue
                break
            arith = [m for m in F.walk(arg) if m.get("k") in ("binop", "compound_assign") and m.get("op") in ("+", "-", "*", "/", "%")]
            at = T.show(T.snorm(u, fn, arg))
            calls_fn = any(m.get("k") == "call" and (m.get("fn") is not None or (m.get("recv") is not None and (T.unwrap(u, m["recv"]) or {}).get("dk") == "param")) for m in F.walk(arg))
            own = T.unwrap(u, arg)
            is_param = own is not None and own.get("k") == "ref" and own.get("dk") == "param"   # the continuation's parameter: the callback's payload
            ok = not arith and (calls_fn or is_param)
            (rep.ok if ok else rep.fail)("WRITTEN", key, u.loc(n["loc"]), F.describe(top)[:160],
                                         **({"how": "callback result passed on unchanged"} if ok else
                                            {"why": "written(%s): the number of elements the callback reports as written must be passed on unchanged (it counts from the start of the write area)" % at}))
    for fn in db.fns("fcppt::container::buffer::to_raw_vector"):
        u = fn["_unit"]
        # named intermediates (`rep const released{_buffer.release()}; return object{released};`) stand for their initialisers
        t = " ".join(T.show(T.snorm(u, fn, r["e"])) for r in F.walk(fn.get("body")) if r.get("k") == "return")
        ok = (fn["params"][0]["name"] + ".release()") in t
        (rep.ok if ok else rep.fail)("BUF", "to_raw_vector", F.primary_site(fn), F.describe(fn)[:160], **({"how": "object{release()}"} if ok else {"why": "to_raw_vector does not build the vector from release(): %s" % t}))
        break
    rep.explanation = ("Ordering / pairing rules over the members of raw_vector::object and buffer::object (explicit instantiations in "
                       "drv_containers). Decides necessary conditions of memory safety and std::vector agreement that are visible in "
                       "code shape; index arithmetic and growth policy are not decided.")
    rep.trusted = ["clang 14 front end", "std::uninitialized_copy / copy_backward write only their destination range"]


def _same_branch(fn, bad):
    return True
