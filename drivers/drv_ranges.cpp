// Instantiation driver: integer / enum ranges, cyclic iterator, iterator facade, neighbour helpers (C18).
// Parsed only; never linked or run.
#include "drv.hpp"
#include <fcppt/cyclic_iterator.hpp>
#include <fcppt/int_iterator_impl.hpp>
#include <fcppt/int_range_impl.hpp>
#include <fcppt/make_int_range.hpp>
#include <fcppt/make_int_range_count.hpp>
#include <fcppt/make_literal_strong_typedef.hpp>
#include <fcppt/make_strong_typedef.hpp>
#include <fcppt/strong_typedef.hpp>
#include <fcppt/strong_typedef_arithmetic.hpp>
#include <fcppt/strong_typedef_comparison.hpp>
#include <fcppt/container/grid/moore_neighbors.hpp>
#include <fcppt/container/grid/neumann_neighbors.hpp>
#include <fcppt/container/grid/pos.hpp>
#include <fcppt/container/grid/make_spiral_range.hpp>
#include <fcppt/container/grid/spiral_iterator_impl.hpp>
#include <fcppt/container/grid/spiral_range_impl.hpp>
#include <fcppt/enum/make_range.hpp>
#include <fcppt/enum/make_range_start.hpp>
#include <fcppt/enum/make_range_start_end.hpp>
#include <fcppt/enum/range_impl.hpp>
#include <fcppt/iterator/adapt_range.hpp>
#include <fcppt/iterator/range_impl.hpp>
#include <fcppt/range/size.hpp>
#include <cstdint>
#include <list>
#include <vector>

namespace drv_ranges_types
{
FCPPT_MAKE_STRONG_TYPEDEF(int, strong_int);

enum class nine
{
  e0,
  e1,
  e2,
  e3,
  e4,
  e5,
  e6,
  e7,
  e8,
  fcppt_maximum = e8
};

enum class one
{
  only,
  fcppt_maximum = only
};

}

namespace
{
using namespace drv_ranges_types;

template <typename Int>
void int_range_ops()
{
  Int const &b{drv::clv<Int>()};
  Int const &e{drv::clv<Int>()};
  fcppt::int_range<Int> const r{fcppt::make_int_range(b, e)};
  (void)fcppt::make_int_range_count(e);
  auto it{r.begin()};
  (void)(it == r.end());
  (void)(it != r.end());
  ++it;
  (void)it++;
  (void)*it;
  (void)r.size();
  for (Int const x : r)
  {
    (void)x;
  }
}

template <typename Enum>
void enum_range_ops()
{
  Enum const &s{drv::clv<Enum>()};
  Enum const &e{drv::clv<Enum>()};
  fcppt::enum_::range<Enum> const r{fcppt::enum_::make_range_start_end(s, e)};
  (void)fcppt::enum_::make_range_start(s);
  (void)fcppt::enum_::make_range<Enum>();
  auto it{r.begin()};
  (void)(it == r.end());
  ++it;
  (void)*it;
  (void)r.size();
}

template <typename Container>
void cyclic_ops()
{
  using iterator = typename Container::const_iterator;
  using cyclic = fcppt::cyclic_iterator<iterator>;
  Container const &c{drv::clv<Container>()};
  cyclic it{c.begin(), typename cyclic::boundary{c.begin(), c.end()}};
  ++it;
  --it;
  (void)it++;
  (void)it--;
  (void)*it;
  (void)(it == it);
  (void)it.get();
  (void)it.get_boundary();
  if constexpr (std::is_same_v<
                    typename std::iterator_traits<iterator>::iterator_category,
                    std::random_access_iterator_tag>)
  {
    it += drv::make<std::ptrdiff_t>();
    it -= drv::make<std::ptrdiff_t>();
    (void)(it + drv::make<std::ptrdiff_t>());
    (void)(it - drv::make<std::ptrdiff_t>());
    (void)it[drv::make<std::ptrdiff_t>()];
    (void)(it - it);
    (void)(it < it);
    (void)(it > it);
    (void)(it <= it);
    (void)(it >= it);
  }
}
}

DRV(drv_ranges)
{
  int_range_ops<int>();
  int_range_ops<unsigned>();
  int_range_ops<std::int8_t>();
  int_range_ops<std::uint8_t>();
  int_range_ops<long>();
  int_range_ops<strong_int>();
  enum_range_ops<nine>();
  enum_range_ops<one>();
  cyclic_ops<std::vector<int>>();
  cyclic_ops<std::list<int>>();
  namespace g = fcppt::container::grid;
  (void)g::moore_neighbors(drv::clv<g::pos<int, 2>>());
  (void)g::neumann_neighbors(drv::clv<g::pos<int, 2>>());
  (void)g::moore_neighbors(drv::clv<g::pos<unsigned, 2>>());
  (void)g::neumann_neighbors(drv::clv<g::pos<unsigned, 2>>());
  {
    auto const sr{g::make_spiral_range(drv::clv<g::pos<int, 2>>(), drv::make<int>())};
    auto it{sr.begin()};
    (void)(it == sr.end());
    ++it;
    (void)*it;
  }
  std::vector<int> &v{drv::lv<std::vector<int>>()};
  auto const r{fcppt::iterator::adapt_range(v)};
  (void)r.begin();
  (void)r.end();
  (void)fcppt::range::size(r);
  (void)fcppt::iterator::range<std::vector<int>::iterator>{v.begin(), v.end()};
}
