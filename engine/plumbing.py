"""Plumbing shared by all checks (DESIGN.md §3).

 * scratch cmake configure of /repo (generated headers + compilation database with real flags)
 * flag rewriting for clang 14
 * building and running the libTooling fact extractor, 16 units in parallel
 * content-addressed cache under /verif/.work/cache/<tree-hash>/ so that the checks of
   several properties on the same tree share one extraction; the key is a hash over the
   *content* of every file the analysis reads, so any edit of /repo gives a fresh extraction
 * overlay support for self-test mutants (FCPPT_OVERLAY=<dir mirroring /repo paths>)

Nothing here runs fcppt code.
"""
import concurrent.futures
import fcntl
import hashlib
import json
import os
import shlex
import shutil
import subprocess
import sys
import time

VERIF = os.path.dirname(os.path.dirname(os.path.abspath(__file__)))
REPO = os.environ.get("FCPPT_REPO", "/repo")
OVERLAY = os.environ.get("FCPPT_OVERLAY", "")
WORK = os.path.join(VERIF, ".work")
BUILD = os.path.join(VERIF, ".build")
RESOURCE_DIR = "/usr/lib/llvm-14/lib/clang/14.0.6"
LLVM_LIBS = ["/usr/lib/llvm-14/lib/libclang-cpp.so.14", "/usr/lib/llvm-14/lib/libLLVM-14.so"]
JOBS = int(os.environ.get("VERIF_JOBS", "16"))
LIBS = ["core", "options", "parse", "log", "filesystem", "boost", "catch"]


class AnalysisBroken(Exception):
    """exit 2: an anchor vanished, a unit does not parse, a floor is not met..."""


def log(*a):
    print(*a, file=sys.stderr, flush=True)


def sh(cmd, **kw):
    return subprocess.run(cmd, stdout=subprocess.PIPE, stderr=subprocess.PIPE, text=True, **kw)


# --------------------------------------------------------------------------------------------
# tools

def _newer(target, sources):
    if not os.path.exists(target):
        return False
    t = os.path.getmtime(target)
    return all(os.path.getmtime(s) <= t for s in sources)


def build_tools(force=False):
    """Build tools/fcppt-facts.cpp into .build/ (done by setup_cmd; on demand otherwise)."""
    os.makedirs(BUILD, exist_ok=True)
    src = os.path.join(VERIF, "tools", "fcppt-facts.cpp")
    out = os.path.join(BUILD, "fcppt-facts")
    lock = open(os.path.join(BUILD, ".lock"), "w")
    fcntl.flock(lock, fcntl.LOCK_EX)
    try:
        if not force and _newer(out, [src]):
            return out
        cxxflags = sh(["llvm-config-14", "--cxxflags"]).stdout.split()
        tmp = out + ".tmp.%d" % os.getpid()
        cmd = ["clang++"] + cxxflags + ["-fno-rtti", "-O1", "-w", src, "-o", tmp] + LLVM_LIBS
        r = sh(cmd)
        if r.returncode != 0:
            raise AnalysisBroken("cannot build fcppt-facts: " + r.stderr[-2000:])
        os.replace(tmp, out)
        return out
    finally:
        fcntl.flock(lock, fcntl.LOCK_UN)
        lock.close()


# --------------------------------------------------------------------------------------------
# tree hash / cache

def _hash_files(h, root, rels):
    for rel in rels:
        p = os.path.join(root, rel)
        if os.path.isdir(p):
            for d, dn, fn in os.walk(p):
                dn.sort()
                for f in sorted(fn):
                    q = os.path.join(d, f)
                    h.update(os.path.relpath(q, root).encode())
                    try:
                        with open(q, "rb") as fh:
                            h.update(hashlib.sha1(fh.read()).digest())
                    except OSError:
                        h.update(b"?")
        elif os.path.exists(p):
            h.update(rel.encode())
            with open(p, "rb") as fh:
                h.update(hashlib.sha1(fh.read()).digest())


def tree_hash(with_tests=False):
    h = hashlib.sha1()
    rels = ["libs", "cmake", "CMakeLists.txt"]
    if with_tests:
        rels += ["test", "examples"]
    _hash_files(h, REPO, rels)
    _hash_files(h, VERIF, ["tools/fcppt-facts.cpp", "drivers/drv.hpp"])
    if OVERLAY:
        _hash_files(h, OVERLAY, ["."])
        h.update(OVERLAY.encode())      # facts record absolute file names: another overlay directory is another cache entry
    h.update(REPO.encode())
    return h.hexdigest()[:20]


USED_CACHE_DIRS = set()     # the entries this process worked with (report.run_check removes them for ephemeral overlays)


def cache_dir(with_tests=False):
    key = tree_hash(with_tests) + ("-t" if with_tests else "")
    base = os.path.join(WORK, "cache")
    os.makedirs(base, exist_ok=True)
    d = os.path.join(base, key)
    if not os.path.isdir(d):
        # prune old cache entries: keep the 40 most recent and never touch one used in the last two hours (concurrent runs
        # with different overlays each have their own entry)
        try:
            now = time.time()
            ents = sorted((os.path.join(base, e) for e in os.listdir(base)), key=os.path.getmtime)
            for e in ents[:-40]:
                if now - os.path.getmtime(e) > 7200:
                    shutil.rmtree(e, ignore_errors=True)
        except OSError:
            pass
        os.makedirs(d, exist_ok=True)
    os.utime(d, None)
    USED_CACHE_DIRS.add(d)
    return d


class Lock:
    def __init__(self, path):
        self.path = path

    def __enter__(self):
        self.f = open(self.path, "w")
        fcntl.flock(self.f, fcntl.LOCK_EX)
        return self

    def __exit__(self, *a):
        fcntl.flock(self.f, fcntl.LOCK_UN)
        self.f.close()


# --------------------------------------------------------------------------------------------
# configure

def configure(cdir, with_tests=False):
    """cmake-configure /repo into <cdir>/cfg[-t]; returns (gen_include_dirs, compdb entries)."""
    name = "cfg-t" if with_tests else "cfg"
    b = os.path.join(cdir, name)
    cdb = os.path.join(cdir, name + ".json")
    with Lock(os.path.join(cdir, name + ".lock")):
        if not os.path.exists(cdb):
            shutil.rmtree(b, ignore_errors=True)
            on = "ON" if with_tests else "OFF"
            cmd = ["cmake", "-S", REPO, "-B", b, "-G", "Ninja", "-DENABLE_TEST=" + on,
                   "-DENABLE_EXAMPLES=" + on, "-DENABLE_DOC=OFF", "-DENABLE_BOOST=" + on,
                   "-DENABLE_CATCH=" + on]
            r = sh(cmd)
            if r.returncode != 0:
                raise AnalysisBroken("cmake configure of %s failed: %s" % (REPO, r.stderr[-1500:]))
            r = sh(["ninja", "-C", b, "-t", "compdb"])
            if r.returncode != 0:
                raise AnalysisBroken("ninja -t compdb failed: " + r.stderr[-500:])
            ents = [e for e in json.loads(r.stdout) if e["file"].endswith(".cpp")]
            seen = set()
            out = []
            for e in ents:
                if e["file"] in seen:
                    continue
                seen.add(e["file"])
                out.append({"file": e["file"], "flags": rewrite_flags(shlex.split(e["command"]))})
            with open(cdb + ".tmp", "w") as f:
                json.dump(out, f)
            os.replace(cdb + ".tmp", cdb)
    with open(cdb) as f:
        ents = json.load(f)
    return b, ents


def rewrite_flags(argv):
    """Keep -I/-D/-isystem/-std from the real command; everything else is dropped."""
    out = []
    i = 1
    while i < len(argv):
        a = argv[i]
        if a in ("-I", "-isystem", "-D", "-include"):
            out += [a, argv[i + 1]]
            i += 2
            continue
        if a.startswith("-I") or a.startswith("-D") or a.startswith("-isystem"):
            out.append(a)
        i += 1
    return overlay_flags(out)


def overlay_flags(flags):
    """Prepend overlay include directories so that a single mutated header shadows the original."""
    if not OVERLAY:
        return flags
    pre = []
    for a in flags:
        if a.startswith("-I" + REPO + "/"):
            rel = a[2 + len(REPO) + 1:]
            cand = os.path.join(OVERLAY, rel)
            if os.path.isdir(cand):
                pre.append("-I" + cand)
    return pre + flags


def base_flags():
    return ["-resource-dir", RESOURCE_DIR, "-std=c++20", "-UNDEBUG", "-w", "-ferror-limit=0"]


def driver_flags(cfg_build):
    fl = []
    for lib in ["core", "options", "parse", "log", "filesystem"]:
        fl.append("-I%s/libs/%s/include" % (REPO, lib))
        impl = "%s/libs/%s/impl/include" % (REPO, lib)
        if os.path.isdir(impl):
            fl.append("-I" + impl)
    fl.append("-I%s/include" % cfg_build)
    fl.append("-I%s/impl/include" % cfg_build)
    fl.append("-I%s/drivers" % VERIF)
    return overlay_flags(fl)


def overlay_unit(path):
    if OVERLAY and path.startswith(REPO + "/"):
        cand = os.path.join(OVERLAY, path[len(REPO) + 1:])
        if os.path.exists(cand):
            return cand
    return path


# --------------------------------------------------------------------------------------------
# extraction

def _unit_key(path):
    h = hashlib.sha1(path.encode())
    if not path.startswith(REPO + "/"):
        # sources outside /repo (drivers) are not covered by the tree hash: key on content
        with open(path, "rb") as f:
            h.update(f.read())
    return h.hexdigest()[:10] + "-" + os.path.basename(path)


def roots():
    r = [REPO + "/libs/", VERIF + "/drivers/"]
    if OVERLAY:
        r.append(OVERLAY.rstrip("/") + "/")
    return r


def extract_units(cdir, units, extra_roots=()):
    """units: list of (source path, flags). Returns {source: facts-json path}. Parallel; cached."""
    tool = build_tools()
    fdir = os.path.join(cdir, "facts")
    os.makedirs(fdir, exist_ok=True)
    res = {}
    todo = []
    for src, flags in units:
        out = os.path.join(fdir, _unit_key(src) + ".json")
        res[src] = out
        if not os.path.exists(out):
            todo.append((src, flags, out))
    if not todo:
        return res
    rts = ",".join(list(roots()) + list(extra_roots))

    def run(item):
        src, flags, out = item
        real = overlay_unit(src)
        tmp = out + ".tmp.%d" % os.getpid()
        cmd = [tool, "--out=" + tmp, "--roots=" + rts, real, "--"] + base_flags() + flags
        r = sh(cmd)
        if r.returncode != 0 or not os.path.exists(tmp):
            return (src, r.stderr[-3000:])
        os.replace(tmp, out)
        return (src, None)

    t0 = time.time()
    with Lock(os.path.join(cdir, "extract.lock")):
        todo = [t for t in todo if not os.path.exists(t[2])]
        with concurrent.futures.ThreadPoolExecutor(max_workers=JOBS) as ex:
            fails = [(s, e) for s, e in ex.map(run, todo) if e is not None]
    if fails:
        raise AnalysisBroken("units do not parse under clang: " +
                             "; ".join("%s: %s" % (s, e.strip().splitlines()[-1] if e.strip() else "?")
                                       for s, e in fails[:5]))
    log("extracted %d units in %.1fs" % (len(todo), time.time() - t0))
    return res


def library_units(cdir):
    b, ents = configure(cdir)
    return b, [(e["file"], e["flags"]) for e in ents if e["file"].startswith(REPO + "/libs/")]


def driver_units(cdir, names=None):
    b, _ = configure(cdir)
    fl = driver_flags(b)
    ddir = os.path.join(VERIF, "drivers")
    out = []
    for f in sorted(os.listdir(ddir)):
        if f.endswith(".cpp") and (names is None or f[:-4] in names):
            out.append((os.path.join(ddir, f), fl))
    return out


def test_units(cdir):
    b, ents = configure(cdir, with_tests=True)
    return [(e["file"], e["flags"]) for e in ents
            if e["file"].startswith(REPO + "/test/") or e["file"].startswith(REPO + "/examples/")]


def rel(path):
    """Repository-relative name of a file (overlay paths map to the file they shadow)."""
    if OVERLAY and path.startswith(OVERLAY.rstrip("/") + "/"):
        return path[len(OVERLAY.rstrip("/")) + 1:]
    if path.startswith(REPO + "/"):
        return path[len(REPO) + 1:]
    if path.startswith(VERIF + "/"):
        return "verif:" + path[len(VERIF) + 1:]
    return path
