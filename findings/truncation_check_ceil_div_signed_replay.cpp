#include <fcppt/cast/truncation_check.hpp>
#include <fcppt/math/ceil_div_signed.hpp>
#include <fcppt/optional/object.hpp>
#include <cstdint>
#include <iostream>
int main()
{
  auto const t{fcppt::cast::truncation_check<std::int32_t>(std::uint8_t{200})};
  auto const c1{fcppt::math::ceil_div_signed(5, -2)};
  auto const c2{fcppt::math::ceil_div_signed(-5, -2)};
  std::cout << "truncation_check<int32>(uint8 200) = " << (t.has_value() ? std::to_string(t.get_unsafe()) : "nothing") << " (expected 200)\n";
  std::cout << "ceil_div_signed(5,-2) = " << c1.get_unsafe() << " (expected -2), ceil_div_signed(-5,-2) = " << c2.get_unsafe() << " (expected 3)\n";
  return (t.has_value() && t.get_unsafe() == 200 && c1.get_unsafe() == -2 && c2.get_unsafe() == 3) ? 0 : 1;
}
