#!/bin/bash
# confirm_batch.sh <log> <prop>...: confirm seeds 1..3 of each property's scratch worktree sequentially
log=$1; shift
for p in "$@"; do for k in 1 2 3; do J=${J:-8} /verif/tools/confirm_seed.sh /tmp/wt/$p $k; done; done >> "$log" 2>&1
echo BATCH-DONE >> "$log"
