"""Loader and helpers over the JSON facts written by tools/fcppt-facts (engine F).

A *node* is a dict with key "k". Functions are dicts (see functionRecord in the extractor).
Lambda call operators are embedded in their `lambda` node under "ops"; `DB` flattens them
and links them to their parent function.
"""
import json
import os
import re

from . import plumbing as P

CHILD_KEYS = ("ch", "args", "recv", "base", "e", "l", "r", "c_", "then", "else", "cond", "init",
              "inc", "body", "range", "var", "value", "sub", "condvar", "fn", "idx", "handlers")


class Unit:
    def __init__(self, path, src):
        with open(path) as f:
            d = json.load(f)
        self.src = src
        self.files = d["files"]
        self.relfiles = [P.rel(x) for x in self.files]
        self.types = d["types"]
        self.decls = {x["id"]: x for x in d["decls"]}
        self.records = d["records"]
        self.patterns = d["patterns"]
        self.enums = d.get("enums", [])
        self.stats = d["stats"]
        self.functions = d["functions"]
        if os.environ.get("VERIF_NOISE"):
            _add_noise(self.functions, d)
        if not os.environ.get("VERIF_NO_ALPHA"):
            _alpha_rename(self.functions)
        self.lambda_by_class = {}
        self.fn_by_id = {}
        self.all_functions = []
        for fn in self.functions:
            self._index(fn, None)

    def _index(self, fn, parent):
        fn["_unit"] = self
        fn["_parent"] = parent
        self.all_functions.append(fn)
        self.fn_by_id.setdefault(fn["id"], fn)
        for n in walk(fn.get("body"), into_lambdas=False):
            self._index_lambda(n, fn)
        for i in fn.get("inits", []):
            for n in walk(i.get("init"), into_lambdas=False):
                self._index_lambda(n, fn)

    def _index_lambda(self, n, fn):
        if n.get("k") == "lambda":
            self.lambda_by_class[n["class_id"]] = n
            n["_owner"] = fn
            for op in n.get("ops", []):
                op["_lambda"] = n
                self._index(op, fn)
            for c in n.get("captures", []):
                if c.get("init") is not None:
                    for m in walk(c["init"], into_lambdas=False):
                        self._index_lambda(m, fn)

    def loc(self, locstr):
        """'libs/core/include/fcppt/x.hpp:12:3' for a node location string."""
        if not locstr:
            return "?"
        f, l, c = locstr.split(":")
        return "%s:%s:%s" % (self.relfiles[int(f)], l, c)

    def file_of(self, locstr):
        if not locstr:
            return "?"
        return self.relfiles[int(locstr.split(":")[0])]

    def ty(self, idx):
        return self.types[idx] if idx is not None else None

    def callee(self, node):
        c = node.get("callee")
        if c is None:
            return None
        return self.decls.get(c)


def _add_noise(functions, d):
    """Robustness self-test (VERIF_NOISE=1): put an unrelated local declaration `int const noise{0};` in front of every
    function body and lambda body, as a harmless edit would. Rules must not depend on a statement being the first one."""
    int_t = next((i for i, t in enumerate(d["types"]) if t == "const int"), None)
    if int_t is None:
        int_t = next((i for i, t in enumerate(d["types"]) if t == "int"), 0)
    counter = [10 ** 9]

    def noise(loc):
        counter[0] += 1
        return {"k": "decl", "loc": loc, "ch": [{"k": "var", "loc": loc, "id": counter[0], "name": "noise", "t": int_t,
                                                 "init": {"k": "lit", "loc": loc, "t": int_t, "c": "0"}}]}

    def visit(fn):
        b = fn.get("body")
        if b is not None and b.get("k") == "compound":
            b["ch"] = [noise(b.get("loc"))] + list(b.get("ch", []))
        for n in walk(fn.get("body"), into_lambdas=False):
            if n.get("k") == "lambda":
                for op in n.get("ops", []):
                    visit(op)
    for fn in functions:
        visit(fn)


LEGENDS = {}   # qualified function name (no template arguments) -> {canonical name: {original spellings}}


def legend_for(fndesc, text):
    """' [r_a0=_source, ...]' for the canonical names that occur in `text`, looked up by the function description"""
    qn = strip_targs((fndesc or "").split(" [lambda")[0].split("<")[0]) if fndesc else ""
    lg = LEGENDS.get(qn) or LEGENDS.get(strip_targs((fndesc or "").split(" ")[0])) or {}
    toks = sorted(set(re.findall(r"\br_l*[av]\d+\b", text or "")))
    items = ["%s=%s" % (t, "/".join(sorted(lg[t]))) for t in toks if t in lg]
    return (" [names: " + ", ".join(items) + "]") if items else ""


def _alpha_rename(functions):
    """Canonical names (always on; VERIF_NO_ALPHA=1 switches it off for debugging): every parameter and local variable
    is renamed to a name derived from nothing but its position -- parameter i of a function `r_a<i>`, its k-th local
    `r_v<k>`, one `l` per lambda nesting level (`r_la0`, `r_lv0`, `r_lla0` ...). The original spelling is kept in
    `orig`. No rule, instance key, justification or known-finding key can therefore depend on how a local or a
    parameter is spelled: renaming them in /repo changes nothing the checks see."""
    ren = {}
    orig = {}

    def decls_of(fn, prefix):
        for i, p in enumerate(fn.get("params", [])):
            if p.get("name"):
                ren[p["id"]] = "%sa%d" % (prefix, i)
                orig[p["id"]] = p["name"]
        k = [0]
        for n in walk(fn.get("body"), into_lambdas=False):
            if n.get("k") == "var" and n.get("name") and "id" in n:
                ren[n["id"]] = "%sv%d" % (prefix, k[0])
                orig[n["id"]] = n["name"]
                k[0] += 1
            if n.get("k") == "lambda":
                for j, op in enumerate(n.get("ops", [])):
                    decls_of(op, prefix + "l")
    for fn in functions:
        before = set(ren)
        decls_of(fn, "r_")
        lg = LEGENDS.setdefault(strip_targs(fn.get("qn", "")), {})
        for i in set(ren) - before:
            lg.setdefault(ren[i], set()).add(orig[i])

    def apply(fn):
        for p in fn.get("params", []):
            if p.get("id") in ren:
                p.setdefault("orig", p.get("name"))
                p["name"] = ren[p["id"]]
        roots = [fn.get("body")] + [i.get("init") for i in fn.get("inits", []) or []]
        for r in roots:
            for n in walk(r, into_lambdas=False):
                if n.get("k") in ("ref", "var") and n.get("id") in ren:
                    n.setdefault("orig", n.get("name"))
                    n["name"] = ren[n["id"]]
                if n.get("k") == "lambda":
                    for c in n.get("captures", []):
                        if c.get("id") in ren:
                            c["name"] = ren[c["id"]]
                        elif c.get("var_id") in ren:
                            c["name"] = ren[c["var_id"]]
                    for op in n.get("ops", []):
                        apply(op)
    for fn in functions:
        apply(fn)


def walk(node, into_lambdas=True):
    """Pre-order generator over all dict nodes below (and including) `node`."""
    stack = [node]
    while stack:
        n = stack.pop()
        if n is None:
            continue
        if isinstance(n, list):
            stack.extend(reversed(n))
            continue
        if not isinstance(n, dict):
            continue
        yield n
        k = n.get("k")
        if k == "lambda":
            for c in reversed(n.get("captures", [])):
                if c.get("init") is not None:
                    stack.append(c["init"])
            if into_lambdas:
                for op in reversed(n.get("ops", [])):
                    stack.append(op.get("body"))
            continue
        for key in reversed(CHILD_KEYS):
            v = n.get(key)
            if v is not None and not isinstance(v, (str, int, bool)):
                stack.append(v)


def children(n):
    out = []
    if n is None:
        return out
    for key in CHILD_KEYS:
        v = n.get(key)
        if v is None or isinstance(v, (str, int, bool)):
            continue
        if isinstance(v, list):
            out.extend(x for x in v if x is not None)
        else:
            out.append(v)
    return out


class DB:
    """All units of a run. Functions are deduplicated across units by mangled name + primary."""

    def __init__(self, paths):
        self.units = []
        for src, p in sorted(paths.items()):
            self.units.append(Unit(p, src))
        self.functions = []  # top-level (non-lambda) function records, deduplicated
        self.by_qn = {}
        self.by_mangled = {}
        seen = set()
        for u in self.units:
            for fn in u.functions:
                key = (fn["mangled"], u.loc(fn["primary"]))
                if key in seen:
                    continue
                seen.add(key)
                self.functions.append(fn)
                self.by_qn.setdefault(strip_targs(fn["qn"]), []).append(fn)
                self.by_mangled.setdefault(fn["mangled"], fn)

    def fns(self, qn):
        """functions whose qualified name with template arguments stripped equals qn"""
        return self.by_qn.get(qn, [])

    def fns_in_file(self, relsuffix):
        out = []
        for fn in self.functions:
            if fn["_unit"].file_of(fn["primary"]).endswith(relsuffix):
                out.append(fn)
        return out

    def stats(self):
        nl = sum(len(u.all_functions) - len(u.functions) for u in self.units)
        return {"units": len(self.units), "functions": len(self.functions),
                "lambda_bodies_total": nl,
                "function_records_total": sum(len(u.functions) for u in self.units)}

    def resolve(self, unit, callee_id):
        """Find a body for a callee referenced from `unit` (same unit first, then by mangled)."""
        fn = unit.fn_by_id.get(callee_id)
        if fn is not None:
            return fn
        d = unit.decls.get(callee_id)
        if d is None:
            return None
        return self.by_mangled.get(d["mangled"])


_targs = re.compile(r"<[^<>]*>")


def strip_targs(qn):
    """fcppt::optional::object<int>::get_unsafe -> fcppt::optional::object::get_unsafe"""
    prev = None
    # protect operator< etc.
    m = re.search(r"operator\s*(<=>|<<=|<<|<=|<|>>=|>>|>=|>|->\*|->|\(\)|\[\])", qn)
    tail = ""
    if m:
        tail = qn[m.start():]
        qn = qn[:m.start()]
    while prev != qn:
        prev = qn
        qn = _targs.sub("", qn)
    return qn + tail


def fn_name(fn):
    return strip_targs(fn["qn"])


def site(fn, node=None):
    u = fn["_unit"]
    return u.loc((node or fn).get("loc") or fn["primary"])


def primary_site(fn):
    return fn["_unit"].loc(fn["primary"])


def top_function(fn):
    while fn.get("_parent") is not None:
        fn = fn["_parent"]
    return fn


def describe(fn):
    top = top_function(fn)
    s = top["qn"]
    if top.get("targs"):
        s += "<" + ", ".join(top["targs"]) + ">"
    if fn is not top:
        s += " [lambda at %s]" % site(fn)
    return s
