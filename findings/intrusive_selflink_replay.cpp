// Replay: moving an intrusive element whose list died first (the element is then a self-linked ring of one),
// then letting the moved-from element die before the new one: the new element's destructor writes into the dead one.
#include <fcppt/intrusive/base.hpp>
#include <fcppt/intrusive/list.hpp>
#include <iterator>
#include <memory>
#include <utility>
#include <cstdio>
class elem;
using list_t = fcppt::intrusive::list<elem>;
class elem : public fcppt::intrusive::base<elem>
{
public:
  elem(list_t &_l, int _v) : fcppt::intrusive::base<elem>{_l}, v{_v} {}
  elem(elem &&) noexcept = default;
  elem &operator=(elem &&) noexcept = default;
  ~elem() = default;
  int v;
};
int main()
{
  int bad = 0;
  // (1) list dies before its only element; the element is then moved; the source dies before the target
  {
    auto l = std::make_unique<list_t>();
    auto a = std::make_unique<elem>(*l, 1);
    l.reset();                                  // a is now a ring of one
    auto b = std::make_unique<elem>(std::move(*a));
    a.reset();                                  // frees a
    b.reset();                                  // ~base of b writes a->prev_/next_  => heap-use-after-free
  }
  // (2) without sanitizer: a second list observes the corruption: move-assign a self-linked source into a member
  {
    list_t l2;
    elem x{l2, 1};
    elem y{l2, 2};
    list_t *dead = new list_t();
    elem *s = new elem(*dead, 3);
    delete dead;                                // s self-linked
    y = std::move(*s);                          // y leaves l2 (correct) but now points at s instead of at itself
    long n = std::distance(l2.begin(), l2.end());
    if (n != 1) { std::printf("FAIL: l2 has %ld members, expected 1\n", n); ++bad; }
    delete s;
    elem z{std::move(y)};                       // takes over y's links: they still point at the dead s
    (void)z;
  }
  std::printf(bad ? "VIOLATION\n" : "OK\n");
  return bad;
}
