"""C18 Ranges and iterators enumerate their documented sequence (DESIGN.md §6 C18).

Decided clauses (each from the path summaries engine S derives; arithmetic compared as polynomials, engine P):
 INT     int_range / int_iterator / make_int_range / make_int_range_count, for every integer-like type of
         the driver (int, unsigned, int8_t, uint8_t, long, a strong typedef): the constructor keeps the
         begin and stores max(begin, end) as end under every weak order of (begin, end); begin()/end()
         hand out iterators at exactly these values; increment is value+1, dereference the value, equal
         the value equality; size() is end - begin; make_int_range_count(n) is make_int_range(0, n).
         By induction on the number of steps the range yields b, b+1, ..., e-1 and nothing when e <= b.
 ENUM    enum ranges: make_range_start_end(s, e) is [int(s), int(e)+1), make_range_start(s) ends one past
         the last enumerator, make_range() starts at the first one (both taken from the enum declaration);
         the iterator steps by one and dereferences to the enumerator with that number; size() = end - begin.
 CYCLIC  cyclic_iterator over bidirectional and random-access iterators: increment / decrement decision
         tables over the finite domain of position classes (boundary of one element; first / inner / last
         position): the result is the next / previous position modulo the boundary length and stays inside
         the boundary; equal / dereference / distance_to / get read the wrapped iterator.
 ADVANCE advance(n): with d the truncated remainder of (offset + n) by the boundary length, over the three
         sign regions of d the new position is first + d + length when d < 0 and first + d otherwise, the
         offset is taken from the current position and the length from the boundary (floor-mod idiom):
         congruent to offset + n and inside the boundary, i.e. |n| single steps.
 FACADE  iterator::base: every operator delegates to the one primitive of the derived iterator with the
         documented arguments (a - b is b.distance_to(a), -= passes -n, < is distance_to(left,right) > 0,
         != negates ==); post-increment / post-decrement return a copy taken before the step.
 NEIGH   moore_neighbors / neumann_neighbors return exactly the 8 / 4 positions at Chebyshev / Manhattan
         distance one, each once.
 ITER    iterator::range stores and returns its two iterators, adapt_range takes begin and end of its
         argument, range::size is the distance from begin() to end().
Not decided: the grid spiral range (direction / step state machine over run-time counters), size()'s
representability side condition, overflow at the type's maximum.
"""
import itertools
import re

from engine import facts as F
from engine import load
import os

from engine import orders as O
from engine import plumbing as PL
from engine import poly as P
from engine import walk2d as K
from engine import witness as W
from engine import sx
from engine import terms as T
from engine.poly import Poly

LEVEL = "other"

RECORDS = ("fcppt::int_range", "fcppt::int_iterator", "fcppt::enum_::range", "fcppt::enum_::iterator", "fcppt::cyclic_iterator",
           "fcppt::iterator::range", "fcppt::strong_typedef", "fcppt::container::grid", "fcppt::math", "fcppt::array", "fcppt::tuple")


def config():
    return sx.Config(inline_prefixes=("fcppt::",), record_prefixes=RECORDS, ref_writes=True, pure=("fcppt::array::object::get_unsafe",),
                     max_depth=80, max_steps=400000)


def facade_config():
    return sx.Config(inline_prefixes=("fcppt::iterator::", "fcppt::cast::static_downcast", "fcppt::literal"), ref_writes=True)


class Broken(Exception):
    pass


def strip(v):
    """drop deref / addr / cast wrappers and strong-typedef payload accessors"""
    while isinstance(v, tuple) and v:
        if v[0] in ("deref", "addr"):
            v = v[1]
        elif v[0] == "cast":
            v = v[2]
        elif v[0] == "fld" and v[2] == "value_" and isinstance(v[1], tuple) and v[1] and v[1][0] == "fld" and v[1][2] in ("value_", "begin_", "end_"):
            v = v[1]      # strong typedef inside an iterator / range field
        elif v[0] == "fld" and v[2] == "value_" and isinstance(v[1], tuple) and v[1] and v[1][0] == "sym" and v[1][1] != "this":
            v = v[1]      # payload of a strong-typedef parameter
        elif v[0] == "fld" and v[2] == "value_" and isinstance(v[1], tuple) and v[1] and v[1][0] == "k":
            v = v[1]      # payload of a strong-typedef literal
        elif v[0] == "app" and v[1].split("<")[0] in ("fcppt::strong_typedef::get",) and len(v[2]) == 1:
            v = v[2][0]
        elif v[0] == "rec" and v[1].startswith("fcppt::strong_typedef") and len(v[2]) == 1:
            v = v[2][0][1]
        else:
            break
    return v


def name_of(v):
    """canonical atom name of an lvalue-ish term: 'r_a0', 'this.begin_', '0'"""
    v = strip(v)
    if isinstance(v, tuple) and v:
        if v[0] == "sym":
            return str(v[1])
        if v[0] == "k":
            return str(v[1]).rstrip("uUlL")
        if v[0] == "fld":
            return name_of(v[1]) + "." + v[2]
    raise P.Unresolved("not a named value: %s" % sx.show(v))


def lin(v, evval=None):
    """linear / polynomial form of a scalar term over named atoms; evval resolves event references"""
    v = strip(v)
    if isinstance(v, Poly):
        return v
    if not isinstance(v, tuple) or not v:
        raise P.Unresolved("not a term: %r" % (v,))
    t = v[0]
    if t == "k":
        try:
            return Poly.const(int(str(v[1]).rstrip("uUlL")))
        except (TypeError, ValueError):
            raise P.Unresolved("constant %r" % (v[1],))
    if t in ("sym", "fld"):
        return Poly.atom((name_of(v),))
    if t == "op" and v[1] in ("+", "-", "*"):
        l, r = lin(v[2], evval), lin(v[3], evval)
        return l + r if v[1] == "+" else l - r if v[1] == "-" else l * r
    if t == "op" and v[1] == "%":
        return Poly.atom(("mod", lin(v[2], evval), lin(v[3], evval)))
    if t == "op1" and v[1] in ("-", "+"):
        x = lin(v[2], evval)
        return -x if v[1] == "-" else x
    if t == "ev" and evval is not None and v[1] in evval:
        return evval[v[1]]
    raise P.Unresolved("outside the linear fragment: %s" % sx.show(v))


def rec_fields(v, cls_suffix):
    v = strip(v) if not (isinstance(v, tuple) and v and v[0] == "rec") else v
    if isinstance(v, tuple) and v and v[0] == "rec" and v[1].split("<")[0].endswith(cls_suffix):
        return dict(v[2])
    raise Broken("result is not a %s object: %s" % (cls_suffix, sx.show(v)))


def type_tag(fn):
    ta = fn.get("rec_targs") or fn.get("targs") or []
    s = str(ta[0]) if ta else "?"
    s = re.sub(r"fcppt::strong_typedef<(\w+), [^>]*>", r"strong<\1>", s)
    s = s.replace("__gnu_cxx::__normal_iterator<const int *, std::vector<int> >", "vector-iterator").replace("std::_List_const_iterator<int>", "list-iterator")
    return s.replace("drv_ranges_types::", "")


def single(db, cfg, fn):
    ps = sx.Interp(db, cfg).paths(fn, limit=16)
    if len(ps) != 1:
        raise Broken("%d paths where one was expected" % len(ps))
    p = ps[0]
    if p.outcome[0] != "return":
        raise Broken("outcome %s" % p.outcome[0])
    return p.outcome[1], p.events


def guarded(rep, rid, key, fn, f):
    """run f(); analysis limits become analysis-broken, never a verdict"""
    try:
        why = f()
    except (Broken, sx.Unsupported, P.Unresolved) as e:
        rep.broken("C18 %s %s at %s: %s" % (rid, key, F.primary_site(fn), e))
        return
    if why:
        rep.fail(rid, key, F.primary_site(fn), F.describe(fn), why)
    else:
        rep.ok(rid, key, F.primary_site(fn), F.describe(fn))


# --------------------------------------------------------------------------------------------
# INT / ENUM

def under_orders(db, cfg, fn, names, verdict):
    """evaluate fn under every weak order of the named scalars; verdict(ranks dict, outcome) -> reason or None"""
    n = 0
    for ranks in O.weak_orders(len(names)):
        table = dict(zip(names, ranks))

        def rank_of(term, _t=table):
            try:
                return _t.get(name_of(term))
            except P.Unresolved:
                return None
        it = sx.Interp(db, cfg, oracle=O.make_oracle(rank_of))
        out, path = it.run_function(fn)
        if out[0] != "return":
            raise Broken("outcome %s" % out[0])
        n += 1
        why = verdict(table, out[1])
        if why:
            return "order %s: %s" % (table, why)
    return None


def same(v, name):
    try:
        return name_of(v) == name
    except P.Unresolved:
        return False


def rule_int(rep, db, cfg):
    rep.rule("INT", "integer ranges: clamp of an inverted range, iterator positions, step, dereference, equality, size, count form", floor=40)
    for fn in db.fns("fcppt::make_int_range"):
        a, b = fn["params"][0]["name"], fn["params"][1]["name"]

        def verdict(r, out, a=a, b=b):
            f = rec_fields(out, "int_range")
            if not same(f.get("begin_"), a):
                return "begin is %s, not the given begin" % sx.show(f.get("begin_"))
            want = [b] if r[b] > r[a] else [a] if r[b] < r[a] else [a, b]
            if not any(same(f.get("end_"), w) for w in want):
                return "end is %s, expected %s (max(begin, end))" % (sx.show(f.get("end_")), " or ".join(want))
            return None
        guarded(rep, "INT", "make_int_range|" + type_tag(fn), fn, lambda fn=fn, v=verdict, a=a, b=b: under_orders(db, cfg, fn, [a, b], v))
    for fn in db.fns("fcppt::make_int_range_count"):
        a = fn["params"][0]["name"]

        def verdict(r, out, a=a):
            f = rec_fields(out, "int_range")
            if not same(f.get("begin_"), "0"):
                return "begin is %s, not 0" % sx.show(f.get("begin_"))
            want = [a] if r[a] > r["0"] else ["0"] if r[a] < r["0"] else [a, "0"]
            if not any(same(f.get("end_"), w) for w in want):
                return "end is %s, expected %s" % (sx.show(f.get("end_")), " or ".join(want))
            return None
        def count(fn=fn, v=verdict, a=a):
            for p in sx.Interp(db, cfg).paths(fn, limit=16):     # on every path, whatever the comparison is made with
                if p.outcome[0] == "return" and not same(rec_fields(p.outcome[1], "int_range").get("begin_"), "0"):
                    return "begin is %s, not 0" % sx.show(rec_fields(p.outcome[1], "int_range").get("begin_"))
            return under_orders(db, cfg, fn, [a, "0"], v)
        guarded(rep, "INT", "make_int_range_count|" + type_tag(fn), fn, count)
    range_members(rep, db, cfg, "INT", "fcppt::int_range", "fcppt::int_iterator", "int_iterator")


def range_members(rep, db, cfg, rid, rng, itr, itr_short, deref_cast=False):
    for which in ("begin", "end"):
        for fn in db.fns(rng + "::" + which):
            def f(fn=fn, which=which):
                v, ev = single(db, cfg, fn)
                fields = rec_fields(v, itr_short)
                if not same(fields.get("value_"), "this.%s_" % which):
                    return "%s() hands out an iterator at %s" % (which, sx.show(fields.get("value_")))
                return None
            guarded(rep, rid, "%s::%s|%s" % (rng.split("::")[-1], which, type_tag(fn)), fn, f)
    for fn in db.fns(rng + "::size"):
        def f(fn=fn):
            v, ev = single(db, cfg, fn)
            if lin(v) != Poly.atom(("this.end_",)) - Poly.atom(("this.begin_",)):
                return "size() is %s, not end - begin" % sx.show(v)
            return None
        guarded(rep, rid, "%s::size|%s" % (rng.split("::")[-1], type_tag(fn)), fn, f)
    for fn in db.fns(itr + "::increment"):
        def f(fn=fn):
            v, ev = single(db, cfg, fn)
            ws = [(a, b) for (n, (a, b), loc) in [(e[0], e[1], e[2]) for e in ev if e[0] in ("write", "refwrite")]]
            if len(ws) != 1 or len(ev) != 1:
                return "increment performs %d writes / %d effects, expected one write of the position" % (len(ws), len(ev))
            tgt, val = ws[0]
            if not same(tgt, "this.value_"):
                return "increment writes %s" % sx.show(tgt)
            if lin(val) != Poly.atom(("this.value_",)) + 1:
                return "increment stores %s, not position + 1" % sx.show(val)
            return None
        guarded(rep, rid, "%s::increment|%s" % (itr_short, type_tag(fn)), fn, f)
    for fn in db.fns(itr + "::dereference"):
        def f(fn=fn):
            v, ev = single(db, cfg, fn)
            if ev or not same(v, "this.value_"):
                return "dereference yields %s, not the current position" % sx.show(v)
            return None
        guarded(rep, rid, "%s::dereference|%s" % (itr_short, type_tag(fn)), fn, f)
    for fn in db.fns(itr + "::equal"):
        def f(fn=fn):
            v, ev = single(db, cfg, fn)
            o = fn["params"][0]["name"]
            ok = isinstance(v, tuple) and v and v[0] == "cmp" and v[1] == "==" and \
                {name_of(v[2]), name_of(v[3])} in ({"this.value_", o + ".value_"}, {"this.value_", o})
            return None if ok and not ev else "equal is %s, not the equality of the two positions" % sx.show(v)
        guarded(rep, rid, "%s::equal|%s" % (itr_short, type_tag(fn)), fn, f)


def enum_info(db, qn):
    for u in db.units:
        for e in u.enums:
            if e["qn"] == qn:
                vals = {x["name"]: int(x["value"]) for x in e["enumerators"]}
                real = [v for n, v in vals.items() if n != "fcppt_maximum"]
                return min(real), max(real)
    return None


def rule_enum(rep, db, cfg):
    rep.rule("ENUM", "enum ranges: closed [start, end] as the half-open position range [int(start), int(end)+1), first / last enumerator from the declaration, step, dereference, size", floor=14)
    for fn in db.fns("fcppt::enum_::make_range_start_end"):
        def f(fn=fn):
            v, ev = single(db, cfg, fn)
            fields = rec_fields(v, "range")
            a, b = fn["params"][0]["name"], fn["params"][1]["name"]
            if lin(fields.get("begin_")) != Poly.atom((a,)):
                return "begin is %s, not the number of the start enumerator" % sx.show(fields.get("begin_"))
            if lin(fields.get("end_")) != Poly.atom((b,)) + 1:
                return "end is %s, not one past the number of the end enumerator" % sx.show(fields.get("end_"))
            return None
        guarded(rep, "ENUM", "make_range_start_end|" + type_tag(fn), fn, f)
    for nm, has_start in (("fcppt::enum_::make_range_start", True), ("fcppt::enum_::make_range", False)):
        for fn in db.fns(nm):
            def f(fn=fn, has_start=has_start):
                info = enum_info(db, str((fn.get("targs") or ["?"])[0]))
                if info is None:
                    raise Broken("enum declaration of %s not found" % (fn.get("targs") or ["?"])[0])
                lo, hi = info
                v, ev = single(db, cfg, fn)
                fields = rec_fields(v, "range")
                want_b = Poly.atom((fn["params"][0]["name"],)) if has_start else Poly.const(lo)
                if lin(fields.get("begin_")) != want_b:
                    return "begin is %s, expected %s" % (sx.show(fields.get("begin_")), want_b.show())
                if lin(fields.get("end_")) != Poly.const(hi + 1):
                    return "end is %s, expected one past the last enumerator (%d)" % (sx.show(fields.get("end_")), hi + 1)
                return None
            guarded(rep, "ENUM", "%s|%s" % (nm.split("::")[-1], type_tag(fn)), fn, f)
    range_members(rep, db, cfg, "ENUM", "fcppt::enum_::range", "fcppt::enum_::iterator", "iterator")


# --------------------------------------------------------------------------------------------
# CYCLIC / ADVANCE: semantics of the wrapped iterator's operations as integer positions

FIRST, SECOND, IT = Poly.atom(("first",)), Poly.atom(("second",)), Poly.atom(("it",))


def cyc_name(v):
    """first / second / it for the places of a cyclic iterator"""
    v = strip(v)
    if isinstance(v, tuple) and v and v[0] == "fld" and v[2] == "it_":
        return name_of(v[1]) + ".it"
    return None


class CycEval:
    """replays the events of one path over positions: state['this.it'] etc. are Polys"""

    def __init__(self, events, others=()):
        self.state = {"this.it": IT}
        for o in others:
            self.state[o + ".it"] = Poly.atom((o + ".it",))
        self.ev = {}
        self.derefs = []
        self.compares = {}
        for i, (name, args, loc) in enumerate(events, 1):
            self.ev[i] = self.step(i, name, args)

    def val(self, v):
        v0 = strip(v)
        if isinstance(v0, tuple) and v0 and v0[0] == "ev":
            r = self.ev.get(v0[1])
            if not isinstance(r, Poly):
                raise P.Unresolved("event %d has no position value" % v0[1])
            return r
        c = cyc_name(v0)
        if c is not None:
            if c not in self.state:
                raise P.Unresolved("unknown iterator place %s" % c)
            return self.state[c]
        return lin(v0, self.ev_polys())

    def ev_polys(self):
        return {k: v for k, v in self.ev.items() if isinstance(v, Poly)}

    def step(self, i, name, args):
        base = name.split("<")[0]
        short = base.split("::")[-1]
        if base in ("std::get", "fcppt::tuple::get"):
            m = re.match(r"[\w:]+<(\d+)", name)
            idx = int(m.group(1)) if m else None
            if idx == 0:
                return FIRST
            if idx == 1:
                return SECOND
            raise P.Unresolved("boundary element %s" % name)
        if short in ("operator++", "operator--") and len(args) in (1, 2):
            c = cyc_name(args[0])
            if c is None:
                raise P.Unresolved("step of %s" % sx.show(args[0]))
            before = self.state[c]
            self.state[c] = before + (1 if short == "operator++" else -1)
            return self.state[c] if len(args) == 1 else before     # the postfix form yields the old position
        if short in ("prev", "next") and len(args) in (1, 2):
            n = lin(args[1], self.ev_polys()) if len(args) == 2 else Poly.const(1)
            return self.val(args[0]) - n if short == "prev" else self.val(args[0]) + n
        if short == "distance" and len(args) == 2:
            return self.val(args[1]) - self.val(args[0])
        if short == "operator+" and len(args) == 2:
            return self.val(args[0]) + lin(args[1], self.ev_polys())
        if short == "operator-" and len(args) == 2:
            return self.val(args[0]) - lin(args[1], self.ev_polys())
        if short == "operator==" and len(args) == 2:
            self.compares[i] = (self.val(args[0]), self.val(args[1]))
            return ("cmp", i)
        if short in ("write", "refwrite") and len(args) == 2:
            c = cyc_name(args[0])
            if c is None:
                raise P.Unresolved("write to %s" % sx.show(args[0]))
            self.state[c] = self.val(args[1])
            return None
        if short == "operator*" and len(args) == 1:
            self.derefs.append(self.val(args[0]))
            return ("deref", i)
        raise P.Unresolved("operation of the wrapped iterator without a position semantics: %s" % name)


def concrete(p, env):
    """value of a linear Poly under an integer environment"""
    total = 0
    for mon, c in p.t.items():
        x = c
        for a in mon:
            if a[0] == "mod" or a[0] not in env:
                raise P.Unresolved("atom %s has no position value" % (a,))
            x *= env[a[0]]
        total += x
    return total


def rule_cyclic(rep, db, cfg):
    rep.rule("CYCLIC", "cyclic_iterator: increment / decrement are the next / previous position modulo the boundary (all position classes), "
                       "equal / dereference / distance_to / get read the wrapped iterator", floor=11)
    for nm, delta in (("increment", 1), ("decrement", -1)):
        for fn in db.fns("fcppt::cyclic_iterator::" + nm):
            def f(fn=fn, delta=delta, nm=nm):
                paths = sx.Interp(db, cfg).paths(fn, limit=16)
                evals = [(p, CycEval(p.events)) for p in paths]
                classes = 0
                for n in (1, 2, 3):
                    for i in range(n):
                        env = {"first": 10, "second": 10 + n, "it": 10 + i}
                        chosen = []
                        for p, ce in evals:
                            ok = True
                            for atom, truth in p.decisions:
                                a = strip(atom)
                                if not (isinstance(a, tuple) and a and a[0] == "ev" and a[1] in ce.compares):
                                    raise P.Unresolved("decision %s is not a comparison of positions" % sx.show(atom))
                                l, r = ce.compares[a[1]]
                                if (concrete(l, env) == concrete(r, env)) != truth:
                                    ok = False
                                    break
                            if ok:
                                chosen.append(ce)
                        if len(chosen) != 1:
                            raise Broken("%d paths apply to one position class" % len(chosen))
                        got = concrete(chosen[0].state["this.it"], env)
                        want = 10 + (i + delta) % n
                        classes += 1
                        if got != want:
                            where = "first" if i == 0 else "last" if i == n - 1 else "inner"
                            return ("%s from the %s position of a boundary of %d element(s) leaves the iterator at offset %d, expected offset %d%s"
                                    % (nm, where, n, got - 10, want - 10, "" if 10 <= got < 10 + n else " (outside the boundary)"))
                return None
            guarded(rep, "CYCLIC", "%s|%s" % (nm, type_tag(fn)), fn, f)
    simple = {
        "equal": lambda v, ce, o: None if (isinstance(v, tuple) and v[0] == "ev" and v[1] in ce.compares and
                                            set(ce.compares[v[1]]) == {IT, Poly.atom((o + ".it",))}) else "equal does not compare the two wrapped iterators",
        "dereference": lambda v, ce, o: None if ce.derefs == [IT] else "dereference does not dereference the wrapped iterator once",
        "distance_to": lambda v, ce, o: None if ce.val(v) == Poly.atom((o + ".it",)) - IT else "distance_to is not distance(this, other)",
    }
    for nm, chk in simple.items():
        for fn in db.fns("fcppt::cyclic_iterator::" + nm):
            def f(fn=fn, chk=chk):
                v, ev = single(db, cfg, fn)
                o = fn["params"][0]["name"] if fn["params"] else "-"
                ce = CycEval(ev, others=[o] if fn["params"] else [])
                return chk(strip(v), ce, o)
            guarded(rep, "CYCLIC", "%s|%s" % (nm, type_tag(fn)), fn, f)
    for fn in db.fns("fcppt::cyclic_iterator::get"):
        def f(fn=fn):
            v, ev = single(db, cfg, fn)
            return None if cyc_name(v) == "this.it" and not ev else "get() returns %s" % sx.show(v)
        guarded(rep, "CYCLIC", "get|" + type_tag(fn), fn, f)


def rule_advance(rep, db, cfg):
    rep.rule("ADVANCE", "cyclic_iterator::advance(n): first + floor-mod(offset + n, length), decided over the sign regions of the truncated remainder", floor=1)
    for fn in db.fns("fcppt::cyclic_iterator::advance"):
        def f(fn=fn):
            n = Poly.atom((fn["params"][0]["name"],))
            paths = sx.Interp(db, cfg).paths(fn, limit=16)
            evals = [(p, CycEval(p.events)) for p in paths]
            finals = [ce.state["this.it"] for p, ce in evals]
            mods = set()
            for fpoly in finals:
                mods |= {a for a in fpoly.atoms() if a[0] == "mod"}
            for p, ce in evals:
                for atom, truth in p.decisions:
                    a = strip(atom)
                    if isinstance(a, tuple) and a[0] == "cmp":
                        for side in (a[2], a[3]):
                            mods |= {x for x in lin(side, ce.ev_polys()).atoms() if x[0] == "mod"}
            if len(mods) != 1:
                raise P.Unresolved("%d remainder terms (expected the single truncated remainder of the floor-mod idiom)" % len(mods))
            d = next(iter(mods))
            E, S = d[1], d[2]
            if S != SECOND - FIRST:
                return "the modulus is %s, not the boundary length" % S.show()
            if E != (IT - FIRST) + n:
                return "the dividend is %s, not (offset of the current position) + n" % E.show()
            D = Poly.atom(d)
            names = {"d": D, "e": E, "n": n}
            # joint sign regions of (n, offset + n, truncated remainder): offset >= 0, so e < 0 needs n < 0 and n >= 0 gives e >= 0;
            # the remainder is 0 or has the sign of the dividend
            regions = [(sn, se, sd) for se in (-1, 0, 1) for sn in (-1, 0, 1) for sd in (-1, 0, 1)
                       if (sd == 0 or sd == se) and not (se < 0 and sn >= 0) and not (sn > 0 and se <= 0) and not (se == 0 and sn > 0)]
            for sn, se, sd in regions:
                signs = {"d": sd, "e": se, "n": sn}
                chosen = []
                for p, ce in evals:
                    ok = True
                    for atom, truth in p.decisions:
                        a = strip(atom)
                        if not (isinstance(a, tuple) and a[0] == "cmp"):
                            raise P.Unresolved("decision %s" % sx.show(atom))
                        diff = lin(a[2], ce.ev_polys()) - lin(a[3], ce.ev_polys())
                        x = None
                        for nm, q in names.items():
                            if diff == q:
                                x = signs[nm]
                            elif diff == -q:
                                x = -signs[nm]
                        if x is None:
                            raise P.Unresolved("comparison %s is not a sign test of n, offset + n or the remainder" % sx.show(atom))
                        val = {"<": x < 0, "<=": x <= 0, ">": x > 0, ">=": x >= 0, "==": x == 0, "!=": x != 0}[a[1]]
                        if val != truth:
                            ok = False
                            break
                    if ok:
                        chosen.append(ce)
                if len(chosen) != 1:
                    raise Broken("%d paths apply to one sign region" % len(chosen))
                got = chosen[0].state["this.it"]
                want = FIRST + D + (S if sd < 0 else 0)
                if got != want:
                    sg = {-1: "negative", 0: "zero", 1: "positive"}
                    shown = lambda a: "d" if a[0] == "mod" else a[0]
                    return "for n %s, offset + n %s and remainder d %s the new position is %s, expected %s" % (
                        sg[sn], sg[se], sg[sd], got.show(shown), want.show(shown))
            return None
        guarded(rep, "ADVANCE", "advance|" + type_tag(fn), fn, f)


# --------------------------------------------------------------------------------------------
# FACADE

def unwrap_derefs(v):
    while isinstance(v, tuple) and v and v[0] in ("deref", "addr"):
        v = v[1]
    return v


def rule_facade(rep, db):
    rep.rule("FACADE", "iterator::base operators delegate to the matching primitive of the derived iterator with the documented arguments", floor=20)
    cfg = facade_config()
    THIS = ("sym", "this")

    def prim(ev, i):
        name, args, loc = ev[i]
        return name.split("<")[0].split("::")[-1], [unwrap_derefs(strip(a)) if not (isinstance(a, tuple) and a and a[0] == "op1") else a for a in args]

    def expect(fn, table):
        v, ev = single(db, cfg, fn)
        P_ = [("sym", p["name"]) for p in fn["params"]]
        names = [prim(ev, i) for i in range(len(ev))]
        return table(v, names, P_)

    def neg(a, p):
        return isinstance(a, tuple) and a and a[0] == "op1" and a[1] == "-" and strip(a[2]) == p

    tables = {
        ("operator*", 0): lambda v, e, p: None if len(e) == 1 and e[0] == ("dereference", [THIS]) and strip(v)[0] == "ev" else "operator* is not dereference()",
        ("operator++", 0): lambda v, e, p: None if e == [("increment", [THIS])] and unwrap_derefs(v) == THIS else "pre-increment is not increment() returning *this",
        ("operator--", 0): lambda v, e, p: None if e == [("decrement", [THIS])] and unwrap_derefs(v) == THIS else "pre-decrement is not decrement() returning *this",
        ("operator++", 1): lambda v, e, p: None if e == [("increment", [THIS])] else "post-increment does not call increment() once",
        ("operator--", 1): lambda v, e, p: None if e == [("decrement", [THIS])] else "post-decrement does not call decrement() once",
        ("operator==", 1): lambda v, e, p: None if e == [("equal", [THIS, p[0]])] and strip(v)[0] == "ev" else "operator== is not this.equal(other)",
        ("operator+=", 1): lambda v, e, p: None if e == [("advance", [THIS, p[0]])] and unwrap_derefs(v) == THIS else "operator+= is not advance(n) returning *this",
        ("operator-=", 1): lambda v, e, p: None if len(e) == 1 and e[0][0] == "advance" and e[0][1][0] == THIS and neg(e[0][1][1], p[0]) else "operator-= is not advance(-n)",
        ("operator+", 1): lambda v, e, p: None if e == [("advance", [THIS, p[0]])] else "operator+ is not a copy advanced by n",
        ("operator[]", 1): lambda v, e, p: None if len(e) == 2 and e[0] == ("advance", [THIS, p[0]]) and e[1] == ("dereference", [THIS]) else "operator[] is not *(copy advanced by n)",
    }
    for (opn, arity), table in tables.items():
        for fn in db.fns("fcppt::iterator::base::" + opn):
            if len(fn["params"]) != arity:
                continue
            guarded(rep, "FACADE", "%s/%d|%s" % (opn, arity, facade_tag(fn)), fn, lambda fn=fn, table=table: expect(fn, table))
    for fn in db.fns("fcppt::iterator::base::operator-"):
        if len(fn["params"]) != 1:
            continue
        is_diff = "difference" not in "" and "base" in (fn["_unit"].ty(fn["params"][0]["t"]) or "")

        def f(fn=fn, is_diff=is_diff):
            v, ev = single(db, cfg, fn)
            e = [prim(ev, i) for i in range(len(ev))]
            p0 = ("sym", fn["params"][0]["name"])
            if is_diff:
                return None if e == [("distance_to", [p0, THIS])] and strip(v)[0] == "ev" else "a - b is not b.distance_to(a)"
            return None if len(e) == 1 and e[0][0] == "advance" and e[0][1][0] == THIS and neg(e[0][1][1], p0) else "it - n is not a copy advanced by -n"
        guarded(rep, "FACADE", "operator-/%s|%s" % ("iterator" if is_diff else "n", facade_tag(fn)), fn, f)
    for fn in db.fns("fcppt::iterator::base::operator!="):
        def f(fn=fn):
            cfg2 = sx.Config(inline_prefixes=("fcppt::cast::static_downcast", "fcppt::iterator::base::get"), ref_writes=True)
            v, ev = single(db, cfg2, fn)
            ok = len(ev) == 1 and (ev[0][0].split("<")[0].endswith("base::operator==") or ev[0][0].split("<")[0].split("::")[-1] == "equal") and \
                [unwrap_derefs(strip(a)) for a in ev[0][1]] == [THIS, ("sym", fn["params"][0]["name"])] and \
                isinstance(v, tuple) and v[0] == "not" and strip(v[1])[0] == "ev"
            return None if ok else "operator!= is not !(*this == other): %s" % sx.show(v)
        guarded(rep, "FACADE", "operator!=|" + facade_tag(fn), fn, f)
    for fn in db.fns("fcppt::iterator::operator<"):
        def f(fn=fn):
            v, ev = single(db, cfg, fn)
            e = [prim(ev, i) for i in range(len(ev))]
            a, b = ("sym", fn["params"][0]["name"]), ("sym", fn["params"][1]["name"])
            pos = isinstance(v, tuple) and v[0] == "cmp" and (
                (v[1] == ">" and strip(v[2])[0] == "ev" and v[3] == ("k", "0")) or (v[1] == "<" and v[2] == ("k", "0") and strip(v[3])[0] == "ev"))
            ok = e == [("distance_to", [a, b])] and pos
            return None if ok else "a < b is not a.distance_to(b) > 0: %s" % sx.show(v)
        guarded(rep, "FACADE", "operator<|" + facade_tag(fn), fn, f)
    # >, <=, >= written in terms of the other relational operators: truth table over the three orders of (left, right)
    meaning = {"<": lambda o: o < 0, ">": lambda o: o > 0, "<=": lambda o: o <= 0, ">=": lambda o: o >= 0, "==": lambda o: o == 0, "!=": lambda o: o != 0}
    for opn in (">", "<=", ">="):
        for fn in db.fns("fcppt::iterator::operator" + opn):
            if len(fn["params"]) != 2:
                continue

            def f(fn=fn, opn=opn):
                cfg2 = sx.Config(inline_prefixes=(), ref_writes=True)
                v, ev = single(db, cfg2, fn)
                a, b = fn["params"][0]["name"], fn["params"][1]["name"]

                def value(t, order):
                    t0 = t
                    while isinstance(t0, tuple) and t0 and t0[0] in ("deref", "addr"):
                        t0 = t0[1]
                    if isinstance(t0, tuple) and t0 and t0[0] == "not":
                        return not value(t0[1], order)
                    if isinstance(t0, tuple) and t0 and t0[0] == "ev":
                        name, args, loc = ev[t0[1] - 1]
                        m = re.search(r"operator(<=|>=|<|>|==|!=)$", name.split("<fcppt")[0].split("<(")[0].rstrip())
                        if m is None:
                            m = re.search(r"::operator(<=|>=|==|!=|<|>)", name)
                        if m is None or len(args) != 2:
                            raise P.Unresolved("call %s" % name)
                        nm = [name_of(x) for x in args]
                        if nm == [a, b]:
                            o = order
                        elif nm == [b, a]:
                            o = -order
                        else:
                            raise P.Unresolved("operands %s" % nm)
                        return meaning[m.group(1)](o)
                    raise P.Unresolved("result %s" % sx.show(t))
                for order, txt in ((-1, "left < right"), (0, "left == right"), (1, "left > right")):
                    got = value(v, order)
                    if got != meaning[opn](order):
                        return "for %s, operator%s yields %s" % (txt, opn, got)
                return None
            guarded(rep, "FACADE", "operator%s|%s" % (opn, facade_tag(fn)), fn, f)
    # post-increment / post-decrement return a copy made before the step (statement order; values are aliases in engine S)
    for opn in ("operator++", "operator--"):
        for fn in db.fns("fcppt::iterator::base::" + opn):
            if len(fn["params"]) != 1:
                continue
            def f(fn=fn, opn=opn):
                u = fn["_unit"]
                body = fn.get("body") or {}
                stmts = body.get("ch", []) if body.get("k") == "compound" else []
                copy_at, step_at, ret_local, local = None, None, None, None
                for i, s in enumerate(stmts):
                    if s.get("k") == "decl":
                        for var in s.get("ch", []):
                            if var.get("k") == "var" and var.get("init") is not None and any(n.get("k") == "this" for n in F.walk(var["init"])):
                                ty = u.ty(var.get("t")) or ""
                                if "&" not in ty:
                                    copy_at, local = i, var["id"]
                    calls = [n for n in F.walk(s) if n.get("k") == "call" and (T.callee_qn(u, n) or "").split("::")[-1] in (opn, "increment", "decrement")]
                    if calls and s.get("k") != "decl" and step_at is None:
                        step_at = i
                    if s.get("k") == "return":
                        r = T.unwrap(u, s.get("e"))
                        if r is not None and r.get("k") == "construct" and r.get("ctor") in ("copy", "move") and len(r.get("args", [])) == 1:
                            r = T.unwrap(u, r["args"][0])
                        if r is not None and r.get("k") == "ref":
                            ret_local = r.get("id")
                if copy_at is None or step_at is None or ret_local is None:
                    raise Broken("post-%s: copy / step / return not recognised" % opn)
                if not (copy_at < step_at and ret_local == local):
                    return "post-%s does not return the copy taken before the step" % ("increment" if opn == "operator++" else "decrement")
                return None
            guarded(rep, "FACADE", "%s/post-copy|%s" % (opn, facade_tag(fn)), fn, f)


def facade_tag(fn):
    s = str((fn.get("rec_targs") or fn.get("targs") or ["?"])[0])
    m = re.match(r"fcppt::iterator::types<\s*(fcppt::[\w:]+)<(.*)", s)
    if not m:
        return s[:40]
    inner = m.group(2)
    kind = "vector" if "__normal_iterator" in inner else "list" if "_List_" in inner else inner.split(",")[0].split(">")[0]
    kind = re.sub(r"fcppt::strong_typedef<(\w+)", r"strong<\1>", kind)
    return "%s<%s>" % (m.group(1).replace("fcppt::", ""), kind.replace("drv_ranges_types::", "").strip())


# --------------------------------------------------------------------------------------------
# NEIGH / ITER

def rule_neigh(rep, db, cfg):
    rep.rule("NEIGH", "moore / neumann neighbours are exactly the positions at Chebyshev / Manhattan distance one, each once", floor=4)
    want = {"moore_neighbors": {(dx, dy) for dx in (-1, 0, 1) for dy in (-1, 0, 1)} - {(0, 0)},
            "neumann_neighbors": {(-1, 0), (1, 0), (0, -1), (0, 1)}}
    for nm, offsets in want.items():
        for fn in db.fns("fcppt::container::grid::" + nm):
            def f(fn=fn, offsets=offsets):
                v, ev = single(db, cfg, fn)
                p = fn["params"][0]["name"]
                res = P.Resolver(lambda root, k: Poly.atom((root, k)), lambda name: (_ for _ in ()).throw(P.Unresolved("scalar %s" % name)), ev)
                cells = P.storage_list(v)
                got = []
                for c in cells:
                    xy = [res.poly(e) for e in P.storage_list(c)]
                    if len(xy) != 2:
                        raise P.Unresolved("a neighbour with %d coordinates" % len(xy))
                    off = []
                    for j, q in enumerate(xy):
                        d = q - Poly.atom((p, j))
                        if set(d.t) - {()}:
                            return "coordinate %d of a neighbour is %s: not this coordinate of the position plus a constant" % (j, q.show())
                        off.append(d.t.get((), 0))
                    got.append(tuple(off))
                if sorted(got) != sorted(offsets):
                    missing = sorted(offsets - set(got))
                    dup = sorted({g for g in got if got.count(g) > 1})
                    extra = sorted(set(got) - offsets)
                    return "offsets %s%s%s" % ("missing %s " % missing if missing else "", "duplicated %s " % dup if dup else "", "unexpected %s" % extra if extra else "")
                return None
            guarded(rep, "NEIGH", "%s|%s" % (nm, type_tag(fn)), fn, f)


def rule_iter(rep, db, cfg):
    rep.rule("ITER", "iterator::range returns its stored iterators; adapt_range takes begin / end of its argument; range::size is distance(begin, end)", floor=4)
    for which in ("begin", "end"):
        for fn in db.fns("fcppt::iterator::range::" + which):
            def f(fn=fn, which=which):
                v, ev = single(db, cfg, fn)
                return None if same(v, "this.%s_" % which) and not ev else "%s() returns %s" % (which, sx.show(v))
            guarded(rep, "ITER", "range::%s|%s" % (which, type_tag(fn)[:30]), fn, f)
    for fn in db.fns("fcppt::iterator::adapt_range"):
        def f(fn=fn):
            v, ev = single(db, cfg, fn)
            fields = rec_fields(v, "range")
            names = [(e[0].split("<")[0].split("::")[-1], [strip(a) for a in e[1]]) for e in ev]
            a = ("sym", fn["params"][0]["name"])
            b, e = strip(fields.get("begin_")), strip(fields.get("end_"))
            ok = isinstance(b, tuple) and b[0] == "ev" and isinstance(e, tuple) and e[0] == "ev" and \
                names[b[1] - 1] == ("begin", [a]) and names[e[1] - 1] == ("end", [a])
            if not ok:
                return "adapt_range builds range{%s, %s}" % (sx.show(fields.get("begin_")), sx.show(fields.get("end_")))
            if fn["params"][0].get("ref") not in ("lref", "clref"):
                return "adapt_range takes its range by value: the returned iterators point into a copy that no longer exists"
            return None
        guarded(rep, "ITER", "adapt_range|" + type_tag(fn)[:30], fn, f)
    for fn in db.fns("fcppt::range::size"):
        def f(fn=fn):
            v, ev = single(db, cfg, fn)
            a = fn["params"][0]["name"]
            d = [e for e in ev if e[0].split("<")[0] == "std::distance"]
            ok = len(d) == 1 and len(ev) == 1 and [name_of(x) for x in d[0][1]] == [a + ".begin_", a + ".end_"] and strip(v)[0] == "ev"
            return None if ok else "range::size is %s over %s" % (sx.show(v), [sx.show_event(e) for e in ev][:2])
        guarded(rep, "ITER", "range::size|" + type_tag(fn)[:30], fn, f)


# --------------------------------------------------------------------------------------------
# SPIRAL: the iterator's state machine, summarised by abstract execution over symbolic states, and the geometry of the walk

DIAGONALS = [(-1, -1), (-1, 1), (1, 1), (1, -1)]
AXES = {(0, -1), (-1, 0), (0, 1), (1, 0)}


def cvec(p):
    """integer pair of a constant position, else None"""
    if not K.is_vec(p):
        return None
    out = []
    for c in p[1]:
        if set(c.t) - {()}:
            return None
        out.append(c.t.get((), 0))
    return tuple(out)


def vsub(a, b):
    return K.vec(a[1][0] - b[1][0], a[1][1] - b[1][1])


def rule_spiral(rep, db):
    rep.rule("SPIRAL", "spiral iterator: the state machine walks ring d along the four edges of the diamond of radius d, every point once, "
                       "rings in increasing order; begin / end / equal / dereference fit that walk", floor=1)
    incs = db.fns("fcppt::container::grid::spiral_iterator::increment")
    if not incs:
        rep.broken("C18 SPIRAL: spiral_iterator::increment not instantiated")
        return
    for inc in incs[:1]:
        u = inc["_unit"]
        key = "spiral|" + type_tag(inc)[:40]

        def member(name, kind=None):
            for f in u.all_functions:
                if F.fn_name(f) == "fcppt::container::grid::" + name and (kind is None or f.get("kind") == kind) and f.get("body") is not None:
                    return f
            raise Broken("no body of %s" % name)

        def analyse():
            ctor = member("spiral_iterator::spiral_iterator", "ctor")
            if len(ctor["params"]) != 2:
                raise Broken("constructor with %d parameters" % len(ctor["params"]))
            SX, SY, M = Poly.atom(("sx",)), Poly.atom(("sy",)), Poly.atom(("max",))
            m0 = K.Machine(u, {}, params={ctor["params"][0]["id"]: K.vec(SX, SY), ctor["params"][1]["id"]: M})
            init = {}
            for i in ctor.get("inits", []):
                if i.get("field") and i.get("init") is not None:
                    init[i["field"]] = m0.val(i["init"])
            vecs = [f for f, v in init.items() if K.is_vec(v)]
            scal = [f for f, v in init.items() if not K.is_vec(v)]
            dirs = [f for f in vecs if cvec(init[f]) is not None]
            poss = [f for f in vecs if cvec(init[f]) is None]
            if len(dirs) != 1 or len(poss) != 1:
                raise Broken("expected one constant direction field and one position field, found %s / %s" % (dirs, poss))
            DIR, POS = dirs[0], poss[0]
            if init[POS] != K.vec(SX, SY):
                return "the iterator does not start at the given position"
            # dereference yields the position field
            deref = member("spiral_iterator::dereference")
            sym = {f: Poly.atom((f,)) for f in scal}
            base = dict(sym)
            base[POS] = K.vec(Poly.atom(("px",)), Poly.atom(("py",)))
            base[DIR] = K.vec(Poly.const(-1), Poly.const(1))
            if K.Machine(u, base).run(deref.get("body")) != base[POS]:
                return "dereference does not yield the current position"
            # summaries of increment over symbolic states: per direction, with the undecided counter comparison assumed equal / different
            side, corner, asked = {}, {}, set()
            for D in DIAGONALS:
                for eqv in (True, False):
                    st = dict(base)
                    st[DIR] = K.vec(Poly.const(D[0]), Poly.const(D[1]))

                    def assume(diff, eqv=eqv):
                        asked.add(frozenset(diff.t.items()))
                        return eqv
                    mch = K.Machine(u, st, assume=assume)
                    mch.run(inc.get("body"))
                    (corner if eqv else side)[D] = mch.state
            if len(asked) != 1:
                raise Broken("increment decides %d different comparisons of counters" % len(asked))
            diff = Poly(dict(next(iter(asked))))
            fields = sorted(a[0] for a in diff.atoms())
            if len(fields) != 2 or set(diff.t.values()) != {1, -1} or () in diff.t:
                raise Broken("the decided comparison is not between two counters: %s" % diff.show())
            # side steps: one more step in the same direction, nothing else changes
            step_field = None
            for D, post in side.items():
                if cvec(post[DIR]) != D:
                    return "inside a side (counters differ) the direction changes from %s to %s" % (D, cvec(post[DIR]))
                if cvec(vsub(post[POS], base[POS])) != D:
                    return "inside a side the position moves by %s, not by the direction %s" % (cvec(vsub(post[POS], base[POS])), D)
                changed = {f: post[f] - sym[f] for f in scal if post[f] != sym[f]}
                if len(changed) != 1 or list(changed.values())[0] != Poly.const(1) or list(changed)[0] not in fields:
                    return "inside a side the counters change by %s (expected: the step counter + 1)" % {f: v.show() for f, v in changed.items()}
                if step_field not in (None, list(changed)[0]):
                    raise Broken("different step counters for different directions")
                step_field = list(changed)[0]
            ring_field = [f for f in fields if f != step_field][0]
            # corners: rotate, restart the step counter at 1, possibly open the next ring
            R, delta, opens = {}, {}, []
            for D, post in corner.items():
                D2 = cvec(post[DIR])
                if D2 not in DIAGONALS:
                    return "at a corner the direction %s becomes %s, not a diagonal" % (D, D2)
                R[D] = D2
                dv = cvec(vsub(post[POS], base[POS]))
                if dv is None:
                    return "at a corner the position does not move by a constant"
                delta[D] = dv
                if post[step_field] != Poly.const(1):
                    return "at a corner the step counter becomes %s, not 1" % post[step_field].show()
                others = {f: post[f] - sym[f] for f in scal if f != step_field and post[f] != sym[f]}
                if others:
                    if set(others) != {ring_field} or others[ring_field] != Poly.const(1):
                        return "at a corner the counters change by %s" % {f: v.show() for f, v in others.items()}
                    opens.append(D)
            # the four directions form one cycle
            cyc = [DIAGONALS[0]]
            while R[cyc[-1]] not in cyc:
                cyc.append(R[cyc[-1]])
            if len(cyc) != 4 or R[cyc[-1]] != cyc[0]:
                return "the direction is not rotated through all four diagonals (%s)" % R
            if len(opens) != 1:
                return "the ring counter is increased at %d of the four corners, expected exactly one" % len(opens)
            pre = opens[0]
            special = R[pre]
            for D in DIAGONALS:
                want = R[D] if D != pre else None
                if want is not None and delta[D] != want:
                    return "at the corner leaving direction %s the position moves by %s, not by the new direction %s" % (D, delta[D], want)
            extra = (delta[pre][0] - special[0], delta[pre][1] - special[1])
            if extra not in AXES:
                return "opening a ring displaces the position by %s before the first step; a unit step along an axis is needed to reach the next ring's corner" % (extra,)
            # geometry: from the corner c0 = extra (times the ring number) the four sides lead from corner to adjacent corner and close up
            corners = [extra]
            D = special
            for _ in range(4):
                c = corners[-1]
                corners.append((c[0] + D[0], c[1] + D[1]))
                D = R[D]
            if corners[4] != corners[0] or set(corners[:4]) != AXES:
                return ("the four sides do not run along the diamond: corners reached %s (expected the four axis unit vectors, closing up)" % corners)
            # initial state: counters equal (first increment is a corner) and the first corner opens ring 1
            if init[step_field] != init[ring_field]:
                return "the iterator starts with step counter %s and ring counter %s: the first increment is not a corner" % (init[step_field].show(), init[ring_field].show())
            if init[ring_field] != Poly.const(0):
                return "the ring counter starts at %s, not 0" % init[ring_field].show()
            if cvec(init[DIR]) != pre:
                return "the initial direction %s does not lead into the ring-opening corner (expected %s)" % (cvec(init[DIR]), pre)
            # begin / end of the range
            rb, re_ = member("spiral_range::begin"), member("spiral_range::end")
            rctor = member("spiral_range::spiral_range", "ctor")
            DST = Poly.atom(("dist",))
            mr = K.Machine(u, {}, params={rctor["params"][0]["id"]: K.vec(SX, SY), rctor["params"][1]["id"]: DST})
            rstate = {i["field"]: mr.val(i["init"]) for i in rctor.get("inits", []) if i.get("field") and i.get("init") is not None}
            for fn_, want_pos, what in ((rb, K.vec(SX, SY), "begin()"),
                                        (re_, K.vec(SX + (DST + 1) * extra[0] + special[0], SY + (DST + 1) * extra[1] + special[1]), "end()")):
                v = K.Machine(u, rstate).run(fn_.get("body"))
                if not (isinstance(v, dict) and v.get("__class__", "").endswith("spiral_iterator") and len(v["args"]) == 2):
                    raise Broken("%s does not construct a spiral iterator" % what)
                if v["args"][0] != want_pos:
                    got = v["args"][0]
                    return "%s is the iterator at (%s, %s); the walk needs (%s, %s)%s" % (
                        what, got[1][0].show(), got[1][1].show(), want_pos[1][0].show(), want_pos[1][1].show(),
                        " (the first point of ring dist + 1)" if what == "end()" else "")
                if v["args"][1] != DST:
                    return "%s passes %s as the distance" % (what, v["args"][1].show())
            # equal compares positions
            eqf = member("spiral_iterator::equal")
            OX, OY = Poly.atom(("ox",)), Poly.atom(("oy",))
            other = {f: Poly.atom(("o_" + f,)) for f in scal}
            other[POS] = K.vec(OX, OY)
            other[DIR] = base[DIR]
            seen = set()

            def assume_eq(d):
                seen.add(frozenset(a[0] for a in d.atoms()))
                return True
            r = K.Machine(u, base, params={eqf["params"][0]["id"]: other}, assume=assume_eq).run(eqf.get("body"))
            if r != ("bool", True) or seen != {frozenset({"px", "ox"}), frozenset({"py", "oy"})}:
                return "equal does not compare exactly the two positions (it compares %s)" % sorted(sorted(x) for x in seen)
            return None
        try:
            why = analyse()
        except (Broken, K.Unsupported, KeyError) as e:
            rep.broken("C18 SPIRAL %s: %s" % (key, e))
            continue
        if why:
            rep.fail("SPIRAL", key, F.primary_site(inc), F.describe(inc), why)
        else:
            for part in ("side step", "corner step", "direction cycle and ring opening", "diamond geometry", "begin / end / dereference"):
                rep.ok("SPIRAL", key + "|" + part, F.primary_site(inc), F.describe(inc))


def rule_witness(rep):
    rep.rule("W", "must-compile witnesses: integer ranges over plain, narrow and strong-typedef integers, enum ranges", floor=7)
    cd = PL.cache_dir()
    path = os.path.join(PL.VERIF, "witness", "c18_ranges.cpp")
    wits, fails = W.run_witness_file(cd, path)
    if None in fails:
        rep.broken("witness TU c18_ranges.cpp has unattributed diagnostics: " + fails[None][0]["msg"])
    for (wid, text, a, z) in wits:
        site = "verif:witness/c18_ranges.cpp:%d" % a
        if wid in fails:
            f = fails[wid]
            lib = next((x["lib_site"] for x in f if x["lib_site"]), None)
            rep.fail("W", wid, lib or site, text, why="does not compile: " + f[0]["msg"], detail={"chain": f[0]["chain"][:5]})
        else:
            rep.ok("W", wid, site, text, how="compiles")


def main(rep, tier, only):
    if only in (None, "W"):
        rule_witness(rep)
    try:
        db = load.load(tier, lib=False, drivers=["drv_ranges"], tests=False)
    except PL.AnalysisBroken as e:
        if rep.viol:
            # the driver instantiates the same members the failing witnesses name; the path rules cannot run on this tree
            rep.note("path rules skipped: %s" % e)
            return
        raise
    rep.extra.update(db.stats())
    cfg = config()
    if only in (None, "INT"):
        rule_int(rep, db, cfg)
    if only in (None, "ENUM"):
        rule_enum(rep, db, cfg)
    if only in (None, "CYCLIC"):
        rule_cyclic(rep, db, cfg)
    if only in (None, "ADVANCE"):
        rule_advance(rep, db, cfg)
    if only in (None, "FACADE"):
        rule_facade(rep, db)
    if only in (None, "NEIGH"):
        rule_neigh(rep, db, cfg)
    if only in (None, "ITER"):
        rule_iter(rep, db, cfg)
    if only in (None, "SPIRAL"):
        rule_spiral(rep, db)
    rep.explanation = (
        "Path summaries of the range / iterator members by abstract interpretation (engine S) with the wrapped values opaque; arithmetic "
        "compared as polynomials over named positions (engine P). The inverted-range clamp is decided under every weak order of (begin, end); "
        "cyclic increment / decrement over the finite domain of position classes; advance over the three sign regions of the truncated "
        "remainder. The sequence statement then follows by induction on the number of steps from: first position, step, end test, dereference.")
    rep.trusted = ["clang 14 front end", "the wrapped std iterators (++, --, ==, std::prev, std::distance, +) move by whole positions",
                   "C++ truncated remainder: |a % b| < |b|, sign of a, a % b congruent to a"]
    rep.assumptions = ["a cyclic iterator's boundary is non-empty and the iterator lies inside it (the class's precondition)"]
    rep.extra["not_covered"] = ["grid spiral range / spiral iterator (direction and step state machine over run-time counters)",
                                "size()'s representability side condition and overflow at the type's maximum", "iterator::base::operator->, swap"]
