"""C19 Log levels, also under concurrency (DESIGN.md §6 C19): lock / atomic discipline and
inheritance structure.

Decided (lockset argument + structure):
 LOCK-1  every member of log::context that touches the node tree holds a std::lock_guard<std::mutex>
         on impl_->mutex() for the whole function body
 LOCK-2  find_location_impl demands a lock_guard witness and is only called with the caller's guard
 LOCK-3  the functions that create / look up children are only reachable from those locked members
 ATOM-1  the only per-node state read outside the lock is a std::atomic accessed through load / store
 NOERASE nodes are never erased from the context tree (references held by log objects stay valid)
 INH-1   a new child inherits the level of the node it is pushed into
 SET-1   context::set updates every node of the pre-order traversal of the located subtree
 EN-1    object::enabled: no level => false; otherwise level >= node level (decision table)
Not decided: linearizability beyond race freedom, message text.
"""
import re

from engine import facts as F
from engine import load
from engine import lrules as L
from engine import sx
from engine import terms as T

LEVEL = "other"
CTX = "fcppt::log::context"
IMPL = "fcppt::log::context::impl"
NODE = "fcppt::log::detail::context_tree_node"

TREE_ACCESS_PREFIX = ("fcppt::log::impl::find_", "fcppt::container::tree::", "fcppt::log::context::impl::find_location_impl")
TREE_ACCESS_EXACT = {NODE + "::level", "fcppt::algorithm::fold", "fcppt::algorithm::fold_break"}
MUTATORS = {"erase", "clear", "pop_back", "pop_front", "release", "sort", "swap"}


def tree_access_calls(u, fn):
    out = []
    for (n, d, qn) in L.calls_in(u, fn.get("body")):
        if any(qn.startswith(p) for p in TREE_ACCESS_PREFIX) or qn in TREE_ACCESS_EXACT:
            out.append((qn, u.loc(n["loc"])))
    return out


def lock_decl(u, s):
    """if statement s declares `lock_guard const lock{this->impl_->mutex()}`: (var id, type) else None"""
    if s is None or s.get("k") != "decl":
        return None
    for v in s.get("ch", []):
        ty = u.ty(v.get("t")) or ""
        init = T.unwrap(u, v.get("init"))
        if init is None:
            continue
        args = init.get("args", []) if init.get("k") == "construct" else []
        src = T.norm(u, args[0]) if args else None
        if "lock_guard" in ty:
            return (v["id"], ty, T.show(src) if src else "")
    return None


def main(rep, tier, only):
    db = load.load(tier, lib=True, drivers=[], lib_filter=lambda f: f.startswith("libs/log/"),
                   tests=(tier == "thorough"), test_filter=lambda f: "/log/" in f)
    rep.extra.update(db.stats())
    rep.rule("LOCK-1", "every log::context member that touches the node tree declares std::lock_guard<std::mutex> on "
                       "impl_->mutex() at the top level of its body before its first tree access (guard scope = rest of the body)", floor=4)
    rep.rule("LOCK-2", "find_location_impl takes a lock_guard witness parameter and every call passes the caller's live guard", floor=2)
    rep.rule("LOCK-3", "find_or_create_child / find_child* are only called from locked context members or from find_location_impl", floor=2)
    rep.rule("ATOM-1", "context_tree_node::atomic_level_ is a std::atomic accessed only through load() / assignment; name_ is "
                       "written only by constructors and move assignment", floor=3)
    rep.rule("NOERASE", "no erase / clear / pop / release / sort / swap on the context tree anywhere in the log library", floor=1)
    rep.rule("INH-1", "find_or_create_child constructs the new child with the level of the node it is pushed into", floor=1)
    rep.rule("SET-1", "context::set assigns the given level to every node of make_pre_order(located subtree)", floor=1)
    rep.rule("ENC", "level encoding: convert_level maps a level to its own number and `no level` to a number that is not an enumerator; "
                    "context_tree_node stores through convert_level and reads back through enum_::from_int", floor=3)
    rep.rule("GET-1", "context::get walks the location from the root while children exist (a missing component ends the walk) and reports the level of the last node reached", floor=1)
    rep.rule("FMT", "formatter chain in the documented order: chain(parent, child) = parent . child; object = chain(own formatter, location prefix); "
                    "level_stream::log = chain(additional, level formatter); the prefix folds to the root with ancestors first", floor=4)
    rep.rule("EN-1", "object::enabled decision table: no level => false; level L => requested >= L", floor=2)
    locked = set()
    ctx_methods = L.method_fns(db, CTX)
    if len(ctx_methods) < 6:
        rep.broken("log::context: only %d member functions analysed" % len(ctx_methods))
    for fn in ctx_methods:
        u = fn["_unit"]
        name = F.fn_name(fn)
        acc = tree_access_calls(u, fn)
        # root() / level_streams() hand out references to address-stable objects: no tree access
        if not acc:
            continue
        # the guard must be a top-level declaration of the body (its scope is the rest of the function) that precedes
        # every statement containing a tree access
        items = (fn.get("body") or {}).get("ch", [])
        ld, gi = None, None
        for i, it in enumerate(items):
            ld = lock_decl(u, it)
            if ld is not None:
                gi = i
                break
        key = name
        early = None
        if ld is not None:
            for it in items[:gi]:
                for (n, d, qn) in L.calls_in(u, it):
                    if any(qn.startswith(p_) for p_ in TREE_ACCESS_PREFIX) or qn in TREE_ACCESS_EXACT:
                        early = (qn, u.loc(n["loc"]))
        if ld is None or early:
            rep.fail("LOCK-1", key, F.primary_site(fn), name,
                     why="accesses the node tree (%s at %s) outside the scope of a lock guard declared at the top level of the body" % (early or acc[0]))
            continue
        vid, ty, src = ld
        if ty.replace("const ", "") != "std::lock_guard<std::mutex>":
            rep.fail("LOCK-1", key, F.primary_site(fn), name, why="guard type is %s, not std::lock_guard<std::mutex> (ENABLE_THREADS lost?)" % ty)
            continue
        if "mutex" not in src or "impl_" not in src:
            rep.fail("LOCK-1", key, F.primary_site(fn), name, why="guard is not constructed from impl_->mutex() but from %s" % src)
            continue
        locked.add(name)
        rep.ok("LOCK-1", key, F.primary_site(fn), name, how="guard-dominates-every-access", detail={"tree_accesses": len(acc)})
        # LOCK-2: calls of find_location_impl pass this guard
        for (n, d, qn) in L.calls_in(u, fn.get("body")):
            if qn == IMPL + "::find_location_impl":
                a = n.get("args", [])
                last = T.unwrap(u, a[-1]) if a else None
                if last is not None and last.get("k") == "ref" and last["id"] == vid:
                    rep.ok("LOCK-2", name + "|call", u.loc(n["loc"]), name, how="passes-own-guard")
                else:
                    rep.fail("LOCK-2", name + "|call", u.loc(n["loc"]), name, why="find_location_impl called without the caller's live guard")
    for fn in L.method_fns(db, IMPL, "find_location_impl"):
        u = fn["_unit"]
        pts = [u.ty(p["t"]) for p in fn.get("params", [])]
        if any("lock_guard" in (t or "") for t in pts):
            rep.ok("LOCK-2", "find_location_impl|signature", F.primary_site(fn), F.fn_name(fn), how="lock_guard-witness-parameter")
        else:
            rep.fail("LOCK-2", "find_location_impl|signature", F.primary_site(fn), F.fn_name(fn), why="no lock_guard witness parameter")
    # LOCK-3 who-may-call
    allowed = locked | {IMPL + "::find_location_impl", "fcppt::log::impl::find_or_create_child", "fcppt::log::impl::find_child",
                        "fcppt::log::impl::find_child_const", "fcppt::log::impl::find_child_tpl"}
    seen = set()
    for fn in db.functions:
        u = fn["_unit"]
        if not u.file_of(fn["primary"]).startswith("libs/log/"):
            continue
        for (n, d, qn) in L.calls_in(u, fn.get("body")):
            if qn in ("fcppt::log::impl::find_or_create_child", "fcppt::log::impl::find_child", "fcppt::log::impl::find_child_const"):
                key = "%s -> %s" % (F.fn_name(fn), qn.split("::")[-1])
                if key in seen:
                    continue
                seen.add(key)
                if F.fn_name(fn) in allowed:
                    rep.ok("LOCK-3", key, u.loc(n["loc"]), F.fn_name(fn), how="caller-locked")
                else:
                    rep.fail("LOCK-3", key, u.loc(n["loc"]), F.fn_name(fn), why="child lookup/creation reached from a function that does not hold the context lock")
    # ATOM-1
    node_rec = None
    for u in db.units:
        for r in u.records:
            if r["qn"] == NODE:
                node_rec = (u, r)
    if node_rec is None:
        rep.broken("record %s not found" % NODE)
    else:
        u, r = node_rec
        flds = {f["name"]: u.ty(f["t"]) for f in r["fields"]}
        if (flds.get("atomic_level_") or "").startswith("std::atomic<"):
            rep.ok("ATOM-1", "atomic_level_|type", u.loc(r["loc"]), NODE, how="std::atomic")
        else:
            rep.fail("ATOM-1", "atomic_level_|type", u.loc(r["loc"]), NODE, why="atomic_level_ has type %s: concurrent level()/level(x) would race" % flds.get("atomic_level_"))
        extra = [f for f in flds if f not in ("name_", "atomic_level_")]
        if extra:
            rep.fail("ATOM-1", "fields", u.loc(r["loc"]), NODE, why="additional per-node state %s is not covered by the lock/atomic argument" % extra)
    for fn in L.method_fns(db, NODE):
        u = fn["_unit"]
        nm = F.fn_name(fn).split("::")[-1]
        bad = []
        for n in F.walk(L.bodies(fn)):
            if n.get("k") == "call" and n.get("recv") is not None:
                f = L.field_of(u, n["recv"])
                if f and f[1] == "atomic_level_":
                    short = (T.callee_qn(u, n) or "").split("::")[-1]
                    if short not in ("load", "store", "operator=", "operator int", "exchange"):
                        bad.append((short, u.loc(n["loc"])))
        ws = L.field_writes(u, fn, "name_")
        if ws and not (fn.get("kind") == "ctor" or fn.get("assign_kind") == "move"):
            bad.append(("write to name_", u.loc(ws[0]["node"]["loc"])))
        key = "%s|%s" % (NODE, nm + ("(" + ",".join(u.ty(p["t"]) for p in fn.get("params", [])) + ")"))
        if bad:
            rep.fail("ATOM-1", key, bad[0][1], F.fn_name(fn), why="non-atomic access: %s" % bad[0][0])
        else:
            rep.ok("ATOM-1", key, F.primary_site(fn), F.fn_name(fn), how="load/store-only")
    # NOERASE
    nmut = 0
    for fn in db.functions:
        u = fn["_unit"]
        if not u.file_of(fn["primary"]).startswith("libs/log/"):
            continue
        for (n, d, qn) in L.calls_in(u, fn.get("body")):
            if qn.startswith("fcppt::container::tree::object::") and qn.split("::")[-1] in MUTATORS:
                nmut += 1
                rep.fail("NOERASE", "%s|%s" % (F.fn_name(fn), qn.split("::")[-1]), u.loc(n["loc"]), F.fn_name(fn),
                         why="removes or reorders nodes of the context tree; log objects hold references to nodes outside the lock")
    if nmut == 0:
        rep.ok("NOERASE", "libs/log", "libs/log", how="no-tree-mutator-call")
    # INH-1
    for fn in db.fns("fcppt::log::impl::find_or_create_child"):
        u = fn["_unit"]
        ok = False
        why = "no push_back of a freshly constructed node found"
        for (n, d, qn) in L.calls_in(u, fn.get("body")):
            if qn == "fcppt::container::tree::object::push_back" and n.get("recv") is not None:
                target = T.norm(u, n["recv"])
                arg = T.unwrap(u, (n.get("args") or [None])[0])
                lv = None
                for m in F.walk(arg):
                    if m.get("k") == "call" and T.callee_qn(u, m) == NODE + "::level":
                        lv = T.norm(u, m.get("recv"))
                # level is read from X.value() where X is the push target
                if lv is not None and lv == ("c", "fcppt::container::tree::object::value", target, (), ()):
                    ok = True
                else:
                    why = "the new child's level comes from %s, not from the node it is pushed into (%s)" % (T.show(lv) if lv else "?", T.show(target))
        if ok:
            rep.ok("INH-1", "find_or_create_child", F.primary_site(fn), F.fn_name(fn), how="level-of-push-target")
        else:
            rep.fail("INH-1", "find_or_create_child", F.primary_site(fn), F.fn_name(fn), why=why)
    # FIND: a child is found by EQUALITY of its name with the component looked up (a prefix / substring match makes sibling
    # locations share a node): every use of the name parameter in find_child_tpl is an operand of ==, the other operand being the
    # candidate's own name -- whatever the search is written as (find_if_opt with a lambda, a hand-written loop)
    for fn in db.fns("fcppt::log::impl::find_child_tpl")[:1]:
        u = fn["_unit"]
        nid = fn["params"][1]["id"]
        why = None
        uses = 0

        def strip_get(t):
            while isinstance(t, tuple) and t and t[0] == "c" and str(t[1]).endswith("::get") and not t[3]:
                t = t[2]
            return t
        parents = {}
        for n_ in F.walk(fn.get("body"), into_lambdas=True):
            for key_ in F.CHILD_KEYS:
                v_ = n_.get(key_)
                for c_ in (v_ if isinstance(v_, list) else [v_]):
                    if isinstance(c_, dict):
                        parents[id(c_)] = n_
        for n_ in F.walk(fn.get("body"), into_lambdas=True):
            if n_.get("k") == "ref" and n_.get("id") == nid:
                if parents.get(id(n_)) is None:
                    continue        # the initialiser of a lambda capture: no use by itself
                uses += 1
                up = n_
                cmpn = None
                for _ in range(6):
                    up = parents.get(id(up))
                    if up is None:
                        break
                    if (up.get("k") == "call" and up.get("opcall") in ("==", "!=")) or (up.get("k") == "binop" and up.get("op") in ("==", "!=")):
                        cmpn = up
                        break
                    if up.get("k") == "call" and not (T.callee_qn(u, up) or "").endswith("::get") and up.get("opcall") is None:
                        break
                if cmpn is None:
                    why = "the looked-up name is used in `%s`, which is not an equality comparison with the candidate's name" % T.show(T.norm(u, parents.get(id(n_)) or n_))[:120]
                    break
                ops_ = ([cmpn["recv"]] if cmpn.get("recv") is not None else []) + list(cmpn.get("args", [])) if cmpn.get("k") == "call" else [cmpn.get("l"), cmpn.get("r")]
                sides = [T.show(strip_get(T.norm(u, o_))) for o_ in ops_]
                other = [x for x in sides if x != fn["params"][1]["name"]]
                if len(sides) != 2 or len(other) != 1 or not re.search(r"\.value\(\)\.name\(\)$", other[0]):
                    why = "the looked-up name is compared with `%s`, expected the candidate child's value().name()" % other
                    break
        if not why and uses == 0:
            why = "the name parameter is not used"
        (rep.fail if why else rep.ok)("INH-1", "find_child_tpl|name equality", F.primary_site(fn), F.fn_name(fn), **({"why": why} if why else {"how": "child.value().name() == name"}))
    # SET-1 -- decided on the paths of set() over a twice-unrolled traversal, however the iteration is written (range-for,
    # explicit iterator loop): the range is make_pre_order(find_location_impl(...)), and node k of it gets level(_level), once
    for fn in L.method_fns(db, CTX, "set"):
        why = None
        lvl = fn["params"][1]["name"] if len(fn.get("params", [])) > 1 else None
        scfg = sx.Config(inline_prefixes=("fcppt::algorithm::",), pure=("fcppt::container::tree::make_pre_order",), loop_bound=2, lvalues=True, iter_positions=True,
                         iter_classes=("fcppt::iterator::base::",))
        try:
            ps = [sx.positions_as_elements(p_) for p_ in sx.Interp(db, scfg).paths(fn, this=("sym", "this"), limit=40)]
        except sx.Unsupported as e:
            rep.broken("C19 SET-1: context::set outside the interpreted fragment: %s" % e)
            continue
        sizes = set()
        for p_ in ps:
            if p_.outcome[0] != "return":
                continue
            rng = None
            n = 0
            for d, v in p_.decisions:
                if not (isinstance(d, tuple) and d and d[0] == "more"):
                    why = "the update depends on something other than 'there is another node in the traversal': %s" % sx.show(d)
                    break
                if rng is None:
                    rng = d[1]
                if d[1] != rng:
                    why = "two different ranges are traversed"
                    break
                n += 1 if v else 0
            if why:
                break
            rs = sx.show(rng) if rng is not None else ""
            if rng is None or "make_pre_order(" not in rs or "find_location_impl" not in rs:
                why = "the nodes updated are those of `%s`, not of make_pre_order(find_location_impl(location)): descendants that already exist keep their old level" % rs
                break
            sizes.add(n)
            lev = [e for e in p_.events if e[0].split("<")[0] == NODE + "::level" and len(e[1]) == 2]

            def node_of(t, p_=p_):
                for _ in range(3):
                    if isinstance(t, tuple) and t and t[0] == "ev":
                        e = p_.events[t[1] - 1]
                        if e[0].split("<")[0].endswith("::value") and len(e[1]) == 1:
                            t = e[1][0]
                            continue
                    break
                return t
            got = [(node_of(e[1][0]), sx.show(e[1][1])) for e in lev]
            want = [(("elem", rng, k), lvl) for k in range(n)]
            if got != want:
                why = "for a traversal of %d nodes the level is assigned to %s, expected to node 0 .. %d once each with the given level" % (
                    n, [(sx.show(a_), b_) for a_, b_ in got], n - 1)
                break
        if not why and not ({0, 1, 2} <= sizes):
            why = "not every traversal length (0, 1, 2 nodes) has a complete path"
        if why is None:
            rep.ok("SET-1", "context::set", F.primary_site(fn), F.fn_name(fn), how="pre-order-update")
        else:
            rep.fail("SET-1", "context::set", F.primary_site(fn), F.fn_name(fn), why=why)
    # EN-1
    cfg = sx.Config(inline_prefixes=("fcppt::optional::", "fcppt::cond", "fcppt::const_", "fcppt::detail::const_"),
                    pure=("fcppt::log::object::level",))
    for fn in L.method_fns(db, "fcppt::log::object", "enabled"):
        try:
            paths = sx.Interp(db, cfg).paths(fn, this=("sym", "this"))
        except sx.Unsupported as e:
            rep.broken("object::enabled outside the interpreted fragment: %s" % e)
            continue
        rows = {}
        for p in paths:
            dec = {sx.show(a): b for a, b in p.decisions}
            hv = [b for a, b in dec.items() if a.startswith("has_value(")]
            rows[tuple(sorted(dec.items()))] = (hv[0] if hv else None, sx.show(p.outcome[1]), dec)
        got_none = [r for r in rows.values() if r[0] is False]
        got_some = [r for r in rows.values() if r[0] is True]
        ok_none = len(got_none) == 1 and got_none[0][1] in ("false", "#1:operator()", "0") or (got_none and all("false" in r[1] or "const_" in r[1] for r in got_none))
        # with a level set the result is `given level >= enabled level`, in any spelling: evaluate the returned comparison (or the
        # path's own decisions) under the three orders of the two levels
        def level_row_ok():
            some_paths = [p for p in paths if any(sx.show(a).startswith("has_value(") and b for a, b in p.decisions)]
            if not some_paths:
                return False
            lvl = fn["params"][0]["name"]

            def side(t):
                s_ = sx.show(t)
                return "L" if s_ == lvl else "E"

            def holds(t, order, p):
                """truth of a comparison term between the given level (L) and the enabled level (E) when L - E has sign `order`"""
                if t in (sx.TRUE, sx.FALSE):
                    return t == sx.TRUE
                if isinstance(t, tuple) and t and t[0] == "not":
                    v_ = holds(t[1], order, p)
                    return None if v_ is None else not v_
                if isinstance(t, tuple) and t and t[0] == "cmp" and {side(t[2]), side(t[3])} == {"L", "E"}:
                    o = order if side(t[2]) == "L" else -order
                    return {"<": o < 0, "<=": o <= 0, ">": o > 0, ">=": o >= 0, "==": o == 0, "!=": o != 0}[t[1]]
                return None
            for order in (-1, 0, 1):
                outs = set()
                for p in some_paths:
                    consistent = True
                    for a, b in p.decisions:
                        if sx.show(a).startswith("has_value("):
                            continue
                        v_ = holds(a, order, p)
                        if v_ is None:
                            return False
                        if v_ != b:
                            consistent = False
                            break
                    if consistent:
                        outs.add(holds(p.outcome[1], order, p))
                if outs != {order >= 0}:
                    return False
            return True
        ok_some = level_row_ok()
        for nm, ok, detail in (("no-level", ok_none, got_none), ("level-set", ok_some, got_some)):
            if ok:
                rep.ok("EN-1", "object::enabled|" + nm, F.primary_site(fn), F.fn_name(fn), how="row-equal")
            else:
                rep.fail("EN-1", "object::enabled|" + nm, F.primary_site(fn), F.fn_name(fn),
                         why="decision table row differs from the specification", detail={"paths": [p.show() for p in paths]})
    # ENC: "no level" is stored as a number that is NOT an enumerator, and decoded by enum_::from_int (nothing for such a number)
    ecfg = sx.Config(inline_prefixes=("fcppt::optional::", "fcppt::cond", "fcppt::const_", "fcppt::detail::const_", "fcppt::cast::"), loop_bound=2)
    nvals = None
    for u2 in db.units:
        for e in u2.enums:
            if e["qn"] == "fcppt::log::level":
                nvals = len(set(int(x["value"]) for x in e["enumerators"]))
    for fn in db.fns("fcppt::log::impl::convert_level")[:1]:
        why = None
        try:
            ps = sx.Interp(db, ecfg).paths(fn)
        except sx.Unsupported as e:
            rep.broken("convert_level outside the interpreted fragment: %s" % e)
            ps = []
        rows = {}
        for p_ in ps:
            dec = {sx.show(a): b for a, b in p_.decisions}
            hv = [b for a, b in dec.items() if a.startswith("has_value(")]
            rows[hv[0] if hv else None] = sx.show(p_.outcome[1])
        if nvals is None:
            why = "enum fcppt::log::level not found"
        elif set(rows) != {True, False}:
            why = "the encoding does not distinguish a level from no level (%s)" % rows
        else:
            m = re.search(r"(\d+)", rows[False])
            if not m or int(m.group(1)) < nvals:
                why = "`no level` is encoded as %s, which is the number of an enumerator (the enum has %d): a disabled location reads back as that level" % (rows[False], nvals)
            elif "enum_to_int" not in rows[True] and "some_payload" not in rows[True]:
                why = "a level is not encoded as its own number: %s" % rows[True]
        (rep.fail if why else rep.ok)("ENC", "impl::convert_level", F.primary_site(fn), F.fn_name(fn), **({"why": why} if why else {"how": "level -> its number; nothing -> %s (outside 0..%d)" % (rows[False], nvals - 1)}))
    for fn in L.method_fns(db, "fcppt::log::detail::context_tree_node", "level"):
        u = fn["_unit"]
        rets = [T.show(T.snorm(u, fn, r["e"])) for r in F.walk(fn.get("body"), into_lambdas=False) if r.get("k") == "return"]
        if not fn.get("params"):
            ok = len(rets) == 1 and re.match(r"^from_int\((this\.)?atomic_level_\.load\([\w:]*\)\)$", rets[0].replace(" ", "")) is not None
            (rep.ok if ok else rep.fail)("ENC", "context_tree_node::level()", F.primary_site(fn), F.fn_name(fn),
                                         **({"how": "enum_::from_int(atomic_level_.load())"} if ok else {"why": "the stored number is decoded as %s, expected enum_::from_int<level>(atomic_level_.load())" % rets}))
        else:
            asg = [T.show(T.norm(u, n)) for n in F.walk(fn.get("body")) if n.get("k") in ("assign", "call") and "atomic_level_" in T.show(T.norm(u, n)) and "convert_level" in T.show(T.norm(u, n))]
            ok = len(asg) >= 1 and ("convert_level(%s)" % fn["params"][0]["name"]) in asg[0]
            (rep.ok if ok else rep.fail)("ENC", "context_tree_node::level(optional_level)", F.primary_site(fn), F.fn_name(fn),
                                         **({"how": "atomic_level_ = convert_level(level)"} if ok else {"why": "the level is not stored through convert_level"}))
    # GET-1: context::get follows the location from the root as long as children exist and reports the level of the last node reached
    gcfg = sx.Config(inline_prefixes=("fcppt::optional::", "fcppt::algorithm::", "fcppt::loop::", "fcppt::cond", "fcppt::const_", "fcppt::detail::const_",
                                      "fcppt::log::context::root", "fcppt::make_cref", "fcppt::reference::"), loop_bound=2)
    for fn in L.method_fns(db, CTX, "get"):
        try:
            paths = sx.Interp(db, gcfg).paths(fn, this=("sym", "this"))
        except sx.Unsupported as e:
            rep.broken("context::get outside the interpreted fragment: %s" % e)
            continue
        why = None
        complete = 0
        for p in paths:
            evs = list(enumerate(p.events, 1))
            roots = [i for i, e in evs if e[0].split("<")[0].endswith("context::impl::root")]
            if len(roots) != 1:
                why = "the walk does not start at the root exactly once"
                break
            cur = "#%d:root" % roots[0]
            dec = {sx.show(a): b for a, b in p.decisions}
            finds = [(i, e) for i, e in evs if e[0].split("<")[0] == "fcppt::log::impl::find_child_const"]
            stopped = False
            for k, (i, e) in enumerate(finds):
                a = [sx.show(x) for x in e[1]]
                if stopped:
                    why = "a child is looked up after a component of the location was missing (components are skipped instead of ending the walk)"
                    break
                if a[0] != cur or "r_a0[%d]" % k not in a[1]:
                    why = "lookup %d searches %s for %s; expected the node reached so far (%s) and component %d of the location" % (k, a[0], a[1], cur, k)
                    break
                hv = dec.get("has_value(#%d:find_child_const)" % i)
                if hv is True:
                    cur = "some_payload(#%d:find_child_const)" % i
                elif hv is False:
                    stopped = True
                else:
                    why = "the result of lookup %d is not examined" % k
                    break
            if why:
                break
            if p.outcome[0] != "return":
                continue
            complete += 1
            n_more = len([1 for a, b in dec.items() if a.startswith("more(r_a0") and b])
            if not stopped and len(finds) != n_more:
                why = "%d components but %d lookups" % (n_more, len(finds))
                break
            vals = [(i, e) for i, e in evs if e[0].split("<")[0].endswith("tree::object::value")]
            lvls = [(i, e) for i, e in evs if e[0].split("<")[0].endswith("context_tree_node::level")]
            if len(vals) != 1 or sx.show(vals[0][1][1][0]) != cur or len(lvls) != 1 or sx.show(p.outcome[1]) != "#%d:level" % lvls[0][0]:
                why = "the reported level is not that of the last node reached (%s): %s" % (cur, sx.show(p.outcome[1]))
                break
        if not why and complete < 3:
            why = "fewer than 3 complete paths"
        (rep.fail if why else rep.ok)("GET-1", "context::get", F.primary_site(fn), F.fn_name(fn), **({"why": why} if why else {"how": "longest-existing-prefix", "detail": {"paths": len(paths)}}))
    # FMT: formatter chain order. Documented (examples/log/formatting.cpp, level_stream.hpp): object formatter ( location prefix ( level formatter ( text ) ) )
    for fn in db.fns("fcppt::log::format::chain"):
        u = fn["_unit"]
        # decided on the four cases of (parent set?, child set?), however the combination is written (optional::combine, early
        # returns): one missing -> the other one; both set -> a function whose call is parent(child(x)), evaluated symbolically
        why = None
        ccfg = sx.Config(inline_prefixes=("fcppt::optional::", "fcppt::cond"), loop_bound=2)
        pa, ch = (p_["name"] for p_ in fn["params"][:2])

        def find_closure(v, d=0):
            if isinstance(v, sx.Closure):
                return v
            if isinstance(v, tuple) and d < 8:
                for x_ in v:
                    r_ = find_closure(x_, d + 1)
                    if r_ is not None:
                        return r_
            return None
        try:
            ps = sx.Interp(db, ccfg).paths(fn)
            seen_cases = set()
            for p_ in ps:
                dec = {sx.show(a_): b_ for a_, b_ in p_.decisions}
                hp, hc = dec.get("has_value(%s)" % pa), dec.get("has_value(%s)" % ch)
                if set(dec) - {"has_value(%s)" % pa, "has_value(%s)" % ch} or p_.outcome[0] != "return":
                    why = "the result depends on %s" % sorted(dec)
                    break
                out = sx.show(p_.outcome[1])
                for (vp, vc) in [(a_, b_) for a_ in ((hp,) if hp is not None else (True, False)) for b_ in ((hc,) if hc is not None else (True, False))]:
                    seen_cases.add((vp, vc))
                    if vp and vc:
                        clo = find_closure(p_.outcome[1])
                        if clo is None or not out.endswith(":some") or len(clo.node.get("ops", [])) != 1:
                            why = "with both formatters set the result is %s, expected a composed function" % out
                            break
                        qs = sx.Interp(db, ccfg).paths_lambda(clo, clo.node["ops"][0], [("sym", "x")])
                        calls = [e for e in qs[0].events if e[0].split("<")[0] == "fcppt::function::operator()"] if len(qs) == 1 else []
                        shape = [[sx.show(a_) for a_ in e[1]] for e in calls]
                        if len(qs) != 1 or len(qs[0].events) != 2 or shape != [["some_payload(%s)" % ch, "x"], ["some_payload(%s)" % pa, "#1:operator()"]] or sx.show(qs[0].outcome[1]) != "#2:operator()":
                            why = "the composed formatter computes %s, expected parent(child(x)): the parent (outer) formatter is applied to the child's output" % shape
                            break
                    elif vp != vc:
                        want = pa if vp else ch
                        if out != want:
                            why = "with only the %s formatter set the result is %s, expected that formatter" % ("parent" if vp else "child", out)
                            break
                    elif out not in (pa, ch) and not out.endswith(":none"):
                        why = "with no formatter set the result is %s" % out
                        break
                if why:
                    break
            if not why and len(seen_cases) != 4:
                why = "not all four cases of (parent set, child set) have a path"
        except sx.Unsupported as e:
            rep.broken("C19 FMT: format::chain outside the interpreted fragment: %s" % e)
            continue
        (rep.fail if why else rep.ok)("FMT", "format::chain", F.primary_site(fn), F.fn_name(fn), **({"why": why} if why else {"how": "parent . child"}))
        break
    for fn in L.method_fns(db, "fcppt::log::object"):
        if fn.get("kind") != "ctor" or len(fn.get("params", [])) != 3:
            continue
        u = fn["_unit"]
        if "context_tree" not in (u.ty(fn["params"][1]["t"]) or "") :
            continue
        init = next((i for i in fn.get("inits", []) if i.get("field") == "formatter_"), None)
        t = T.show(T.norm(u, init["init"])) if init else ""
        ok = bool(re.search(r"chain\(r_a2\.formatter\(\), tree_formatter\(node_(\.get\(\))?\)\)", t))
        (rep.ok if ok else rep.fail)("FMT", "object::object|formatter_", F.primary_site(fn), F.fn_name(fn),
                                     **({"how": "chain(own formatter, location prefix)"} if ok else
                                        {"why": "formatter_ is %s; documented order is chain(parameters.formatter(), tree_formatter(node)): the object's own formatter wraps the location prefix" % t}))
    for fn in L.method_fns(db, "fcppt::log::level_stream", "log"):
        u = fn["_unit"]
        chains = [T.show(T.norm(u, n)) for n in F.walk(fn.get("body")) if n.get("k") == "call" and T.callee_qn(u, n) == "fcppt::log::format::chain"]
        ok = chains == ["chain(r_a1, formatter())"] or chains == ["chain(r_a1, this.formatter())"]
        (rep.ok if ok else rep.fail)("FMT", "level_stream::log", F.primary_site(fn), F.fn_name(fn),
                                     **({"how": "chain(additional, level formatter)"} if ok else
                                        {"why": "level_stream::log composes %s; documented: the additional (object) formatter is used first, i.e. chain(_additional_formatter, formatter())" % chains}))
    for fn in db.fns("fcppt::log::impl::tree_formatter"):
        u = fn["_unit"]
        # decided on the paths over a twice-unrolled walk to the root, however the accumulation is written (algorithm::fold,
        # a loop): nodes with an empty name are skipped, every other node k contributes chain(prefix(name of node k), state so
        # far), so the result nests the ancestors' prefixes outside the descendants'
        why = None
        tcfg = sx.Config(inline_prefixes=("fcppt::algorithm::", "fcppt::optional::", "fcppt::cond"),
                         pure=("fcppt::container::tree::make_to_root", "fcppt::log::format::chain", "fcppt::log::format::prefix"), loop_bound=2)
        try:
            ps = sx.Interp(db, tcfg).paths(fn)
        except sx.Unsupported as e:
            rep.broken("C19 FMT: tree_formatter outside the interpreted fragment: %s" % e)
            continue
        node = fn["params"][0]["name"]
        complete = set()
        for p_ in ps:
            if p_.outcome[0] != "return":
                continue

            def node_index(t, p_=p_):
                for _ in range(8):
                    if isinstance(t, tuple) and t and t[0] == "ev":
                        e = p_.events[t[1] - 1]
                        if len(e[1]) != 1:
                            return None
                        t = e[1][0]
                        continue
                    if isinstance(t, tuple) and t and t[0] in ("new",) and len(t) >= 4 and len(t[3]) == 1:
                        t = t[3][0]
                        continue
                    break
                if isinstance(t, tuple) and len(t) == 3 and t[0] == "elem" and sx.show(t[1]) == "make_to_root(%s)" % node:
                    return t[2]
                return None
            n = 0
            nonempty = []
            for d, v in p_.decisions:
                if isinstance(d, tuple) and d and d[0] == "more":
                    if sx.show(d[1]) != "make_to_root(%s)" % node:
                        why = "the walk is over %s, not from the node to the root" % sx.show(d[1])
                        break
                    n += 1 if v else 0
                    continue
                k = node_index(d) if isinstance(d, tuple) and d and d[0] == "ev" and p_.events[d[1] - 1][0].split("<")[0].endswith("::empty") else None
                if k is None or k != n - 1:
                    why = "the prefix depends on %s, expected only on whether the name of the visited node is empty" % sx.show(d)
                    break
                if not v:
                    nonempty.append(k)
            if why:
                break
            complete.add(n)
            t = p_.outcome[1]
            got = []
            bad_shape = False
            while isinstance(t, tuple) and len(t) == 3 and t[0] == "app" and t[1].split("<")[0].endswith("chain") and len(t[2]) == 2:
                a0 = t[2][0]
                inner = a0[3][0] if isinstance(a0, tuple) and len(a0) >= 4 and a0[0] == "new" and a0[2] == "some" and len(a0[3]) == 1 else None
                k = node_index(inner[2][0]) if isinstance(inner, tuple) and len(inner) == 3 and inner[0] == "app" and inner[1].split("<")[0].endswith("prefix") and len(inner[2]) == 1 else None
                if k is None:
                    bad_shape = True
                    break
                got.append(k)
                t = t[2][1]
            if bad_shape or not sx.show(t).endswith(":none"):
                why = "the result %s is not a nest of chain(prefix(name of a visited node), ...) ending in no formatter" % sx.show(p_.outcome[1])
                break
            if got != list(reversed(nonempty)):
                why = "for non-empty names at nodes %s (0 = the node itself, counting towards the root) the prefixes nest as %s from the outside in; expected %s: ancestors come first" % (
                    nonempty, got, list(reversed(nonempty)))
                break
        if not why and not ({0, 1, 2} <= complete):
            why = "not every walk length (0, 1, 2 nodes) has a complete path"
        (rep.fail if why else rep.ok)("FMT", "tree_formatter", F.primary_site(fn), F.fn_name(fn), **({"why": why} if why else {"how": "fold to root: chain(prefix(name), state)"}))
        break
    rep.explanation = ("Lockset argument made structural: all accesses to the node tree's child lists happen inside functions "
                       "that hold impl_->mutex() through a std::lock_guard whose scope is the whole body; the only state read "
                       "outside is atomic or immutable after publication; nodes are never removed. Plus the inheritance / "
                       "update / enabled structure. Race freedom for every schedule follows; linearizability is not decided.")
    rep.trusted = ["std::mutex / std::lock_guard / std::atomic semantics", "std::list address stability (tree nodes)", "clang 14 front end",
                   "the build defines ENABLE_THREADS for the log library (checked: the guard type must be std::lock_guard<std::mutex>)"]
