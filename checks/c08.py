"""C08 Grid positions, offsets and ranges (DESIGN.md §6 C08): comparison / provenance clauses.

 ORD/IDX/OUT  in_range_dim, min_less_sup: conjunction over ALL N coordinates of pos_i < dim_i / min_i < sup_i;
              clamped_min / clamped_sup: per-coordinate selection max(p,0) / min(p,size) -- evaluated under every
              weak order of the scalars, indices exactly 0..N-1, N in {1,2,3}
 AT           at_optional yields a reference to get_unsafe(pos) of the same grid exactly when in_range(grid,pos);
              in_range delegates to in_range_dim(grid.size(), pos)
 PROV         cell provenance: map / apply compute the cell at p from the source cell(s) at the SAME p, all argument
              grids, apply returns the empty grid unless all sizes agree; resize takes the old cell where
              at_optional(grid,p) has one and _init(p) otherwise; fill writes function(element.pos()) into the element
 RANGE-G      range_dim(min, sup) is sup - min exactly under min_less_sup(min, sup) (the per-coordinate conjunction
              checked above) and the null dimension otherwise: an inverted coordinate never reaches the unsigned
              subtraction
 STRIDE       every cell address is offset(pos, S) applied to the storage B of the SAME grid: grid::object uses its
              own size_ with its own container_, pos_ref_iterator its own size_ with its own iterator_, and whoever
              constructs a pos_ref_iterator passes X.begin() and X.size() of one and the same X
The arithmetic clauses (offset formula, successor inside a range, end position, iterator wiring) are in c08_arith.py.
Not decided: overflow of the offset arithmetic. grid::clamped_sup_signed's unguarded get_unsafe is C01's open known finding.
"""
import re

from engine import facts as F
from engine import load
from engine import percoord as PC
from engine import sx
from engine import terms as T

LEVEL = "other"
G = "fcppt::container::grid::"
PURE_PREFIX = ("fcppt::math::vector::at", "fcppt::math::dim::at", "fcppt::strong_typedef::get", "fcppt::container::grid::object::size")

SPECS = {
    G + "in_range_dim": {"kind": "ALLOF", "scalars": {"p": "at(r_a1)", "d": "at(r_a0)"}, "pred": lambda r: r.p < r.d, "text": "pos_i < dim_i"},
    G + "min_less_sup": {"kind": "ALLOF", "scalars": {"m": "at(get(r_a0))", "s": "at(get(r_a1))"}, "pred": lambda r: r.m < r.s, "text": "min_i < sup_i"},
    G + "clamped_sup": {"kind": "INIT", "scalars": {"p": "at(r_a0)", "s": "at(r_a1)"}, "sel": lambda r: min(r.p, r.s), "text": "min(pos_i, size_i)"},
    G + "clamped_min": {"kind": "INIT", "scalars": {"p": "at(r_a0)", "z": "0"}, "sel": lambda r: max(r.p, r.z), "text": "max(pos_i, 0)"},
}


def main(rep, tier, only):
    db = load.load(tier, lib=False, drivers=["drv_grid_box"])
    rep.extra.update(db.stats())
    rep.rule("IDX", "per-coordinate lambda instantiated for exactly the indices 0..N-1", floor=9)
    rep.rule("ORD", "per-coordinate expression equals the specification under every weak order of its scalars", floor=9)
    rep.rule("OUT", "outer structure: conjunction over all coordinates / vector built from the per-coordinate values", floor=9)
    rep.rule("AT", "at_optional: some(ref(get_unsafe(pos))) of the same grid iff in_range(grid, pos); in_range = in_range_dim(size, pos)", floor=3)
    rep.rule("PROV", "cell provenance of map / apply / resize / fill", floor=5)
    rep.rule("RANGE-G", "range_dim is sup - min exactly under min_less_sup(min, sup), the null dimension otherwise", floor=3)
    rep.rule("CARRY", "next_position: the step for dimension i compares component i of the position with component i of sup, rewinds it to "
                      "component i of min and increments component i+1 -- one index used consistently (index agreement, not the arithmetic)", floor=3)
    rep.rule("STRIDE", "cell addresses are offset(pos, size) of the same grid whose storage they index", floor=3)
    for name, spec in SPECS.items():
        fns = db.fns(name)
        if not fns:
            rep.broken("C08: no instantiation of %s" % name)
            continue
        done = set()
        for fn in fns:
            N = PC.dims_of(fn)
            key0 = "%s<N=%s>" % (name.replace(G, ""), N)
            if N is None or key0 in done:
                continue
            done.add(key0)
            try:
                paths, captured, cfg = PC.capture_closures(
                    db, fn, PURE_PREFIX, {"fcppt::algorithm::all_of": "ALLOF", "fcppt::math::vector::init": "INIT"},
                    inline_prefixes=("fcppt::cond", "fcppt::cast::"))
            except sx.Unsupported as e:
                rep.broken("C08: %s outside the interpreted fragment: %s" % (key0, e))
                continue
            out = sx.show(paths[0].outcome[1]) if len(paths) == 1 and paths[0].outcome[0] == "return" else "?"
            ok_out = (out == "ALLOF") if spec["kind"] == "ALLOF" else ("INIT" in out)
            (rep.ok if ok_out else rep.fail)("OUT", key0, F.primary_site(fn), F.describe(fn)[:160],
                                             **({"how": "structure-equal"} if ok_out else {"why": "result %s is not built from the per-coordinate lambda" % out}))
            clos = [c for (k, c) in captured if k == spec["kind"]]
            if not clos:
                rep.fail("IDX", key0, F.primary_site(fn), F.describe(fn)[:160], why="no per-coordinate lambda found")
                continue
            ok, ops, idx = PC.check_indices(clos[0], N)
            if not ok:
                rep.fail("IDX", key0, F.primary_site(fn), F.describe(fn)[:160], why="lambda instantiated for indices %s, expected 0..%d" % (idx, N - 1))
                continue
            rep.ok("IDX", key0, F.primary_site(fn), F.describe(fn)[:160], how="indices 0..%d" % (N - 1))
            for op, i in zip(ops, idx):
                if spec["kind"] == "ALLOF":
                    def verdict(r, v, rank_of, _s=spec):
                        if isinstance(v, tuple) and v and v[0] == "k" and str(v[1]) in ("0", "1", "true", "false"):
                            v = sx.TRUE if str(v[1]) in ("1", "true") else sx.FALSE       # a literal truth value returned by a predicate
                        got = (v == sx.TRUE) if v in (sx.TRUE, sx.FALSE) else None
                        if got is None or got != bool(_s["pred"](r)):
                            return "implementation %s, specification %s (%s)" % (sx.show(v), bool(_s["pred"](r)), _s["text"])
                else:
                    def verdict(r, v, rank_of, _s=spec):
                        got = rank_of(v)
                        if got != _s["sel"](r):
                            return "implementation selects %s, specification %s" % (sx.show(v), _s["text"])
                bad, n = PC.eval_orders(db, cfg, clos[0], op, i, spec["scalars"], lambda r: True, verdict)
                key = "%s[%d]" % (key0, i)
                (rep.fail if bad else rep.ok)("ORD", key, F.site(op), F.describe(fn)[:160], **({"why": bad} if bad else {"how": "exhaustive", "detail": {"weak_orders": n}}))
    # ---- AT
    cfg = sx.Config(inline_prefixes=("fcppt::cond",), pure=(G + "object::get_unsafe",))
    seen = set()
    for fn in db.fns(G + "at_optional"):
        u = fn["_unit"]
        k = tuple(fn.get("targs") or [])
        if k in seen:
            continue
        seen.add(k)
        try:
            ps = sx.Interp(db, cfg).paths(fn)
        except sx.Unsupported as e:
            rep.broken("C08: at_optional outside fragment: %s" % e)
            continue
        why = None
        st = sf = False
        for p in ps:
            ir = [e for e in p.events if e[0].split("<")[0] == G + "in_range"]
            if len(ir) != 1 or [sx.show(a) for a in ir[0][1]] != ["r_a0", "r_a1"]:
                why = "in_range(grid, pos) of the function's own arguments is not evaluated exactly once"
                break
            dec = [b for a, b in p.decisions]
            v = sx.show(p.outcome[1])
            if dec and dec[0]:
                st = True
                if "some" not in v or "get_unsafe(r_a0, r_a1)" not in v:
                    why = "in-range position does not yield a reference to get_unsafe(_pos) of the same grid (%s)" % v
            else:
                sf = True
                if "none" not in v:
                    why = "out-of-range position yields %s" % v
        if not why and not (st and sf):
            why = "the result does not depend on in_range"
        key = "at_optional<%s>" % ",".join(x.split("::")[-1] for x in k)
        (rep.fail if why else rep.ok)("AT", key, F.primary_site(fn), F.describe(fn)[:160], **({"why": why} if why else {"how": "table-equal"}))
    seen = set()
    for fn in db.fns(G + "in_range"):
        k = tuple(fn.get("targs") or [])
        if k in seen:
            continue
        seen.add(k)
        ps = sx.Interp(db, sx.Config(pure_prefixes=PURE_PREFIX)).paths(fn)
        ev = [e for p in ps for e in p.events]
        ok = len(ps) == 1 and len(ev) == 1 and ev[0][0].split("<")[0] == G + "in_range_dim" and [sx.show(a) for a in ev[0][1]] == ["size(r_a0)", "r_a1"] \
            and sx.show(ps[0].outcome[1]).startswith("#1")
        key = "in_range<%s>" % ",".join(k)[:60]
        (rep.ok if ok else rep.fail)("AT", key, F.primary_site(fn), F.describe(fn)[:160], **({"how": "delegates"} if ok else {"why": "in_range is not in_range_dim(_grid.size(), _pos)"}))
    # ---- PROV
    def grid_ctor_closure(v):
        if isinstance(v, tuple) and v[0] == "new" and v[1] == G + "object":
            cl = [a for a in v[3] if isinstance(a, sx.Closure)]
            rest = [a for a in v[3] if not isinstance(a, sx.Closure)]
            return (cl[0] if cl else None, rest)
        return (None, [])
    pcfg = sx.Config(inline_prefixes=("fcppt::cond", "fcppt::optional::", "fcppt::const_"), pure=(G + "object::get_unsafe", G + "object::size", "fcppt::reference::get"),
                     pure_prefixes=())
    # map
    seen = set()
    for fn in db.fns(G + "map"):
        params = fn.get("params", [])
        k = tuple(p["ref"] for p in params) + (PC.dims_of(fn) or 0,)
        if k in seen or len(params) != 2:
            continue
        seen.add(k)
        key = "map|" + "/".join(str(x) for x in k)
        try:
            it = sx.Interp(db, pcfg)
            ps = it.paths(fn)
            cl, rest = grid_ctor_closure(ps[0].outcome[1]) if len(ps) == 1 else (None, [])
            why = None
            if cl is None or [sx.show(a) for a in rest] != ["size(r_a0)"]:
                why = "the result is not a grid of the source's size built from a per-position function"
            else:
                lp = sx.Interp(db, pcfg).paths_lambda(cl, cl.node["ops"][0], [("sym", "P")])
                calls = [e for p in lp for e in p.events if e[0] == "call"]
                if len(lp) != 1 or len(calls) != 1 or [sx.show(a) for a in calls[0][1]] != ["r_a1", "get_unsafe(r_a0, P)"] or not sx.show(lp[0].outcome[1]).startswith("#1"):
                    why = "the cell at P is not _function(source cell at P), exactly once: %s" % [sx.show_event(e) for e in calls]
        except sx.Unsupported as e:
            why = "outside the interpreted fragment: %s" % e
        (rep.fail if why else rep.ok)("PROV", key, F.primary_site(fn), F.describe(fn)[:160], **({"why": why} if why else {"how": "same-position"}))
    # apply
    seen = set()
    for fn in db.fns(G + "apply"):
        params = fn.get("params", [])
        syms = sx.param_symbols(params)
        k = (len(params), PC.dims_of(fn))
        if k in seen or len(params) < 2:
            continue
        seen.add(k)
        key = "apply|%d grids" % (len(params) - 1)
        why = None
        try:
            ps = sx.Interp(db, pcfg).paths(fn)
            full = [p for p in ps if grid_ctor_closure(p.outcome[1])[0] is not None]
            empty = [p for p in ps if grid_ctor_closure(p.outcome[1])[0] is None]
            if not full:
                why = "no path builds the result from a per-position function"
            for p in empty:
                v = p.outcome[1]
                if not (isinstance(v, tuple) and v[0] == "new" and v[1] == G + "object" and not v[3]):
                    why = "the mismatching-sizes path does not return the empty grid"
                if not p.decisions:
                    why = "the empty grid is returned unconditionally"
            if len(params) > 2 and not empty:
                why = "sizes of the argument grids are not compared"
            for p in full:
                if any(b is False for a, b in p.decisions):
                    why = "the result is built although a size comparison failed"
                # WHAT is compared: the dimension (size()) of every further grid with the first grid's, not a derived number
                cmp = set()
                for a, b in p.decisions:
                    if isinstance(a, tuple) and a and a[0] == "ev":
                        e = p.events[a[1] - 1]
                        if e[0].split("<")[0].endswith("dim::operator=="):
                            cmp.add(frozenset(sx.show(x) for x in e[1]))
                for g in syms[2:]:
                    if frozenset(("size(%s)" % g, "size(%s)" % syms[1])) not in cmp:
                        why = "grid `%s` is used although its dimension (size()) is not compared with the first grid's: compared are %s" % (g, sorted(sorted(c) for c in cmp) or [sx.show(a) for a, b in p.decisions])
                cl, rest = grid_ctor_closure(p.outcome[1])
                if [sx.show(a) for a in rest] != ["size(%s)" % syms[1]]:
                    why = "the result does not have the first grid's size"
                lp = sx.Interp(db, pcfg).paths_lambda(cl, cl.node["ops"][0], [("sym", "P")])
                calls = [e for q in lp for e in q.events if e[0] == "call"]
                want = [syms[0]] + ["get_unsafe(%s, P)" % g for g in syms[1:]]
                if len(lp) != 1 or len(calls) != 1 or [sx.show(a) for a in calls[0][1]] != want:
                    why = "the cell at P is not _function(cell of every grid at P, in argument order): %s" % [sx.show_event(e) for e in calls]
        except sx.Unsupported as e:
            why = "outside the interpreted fragment: %s" % e
        (rep.fail if why else rep.ok)("PROV", key, F.primary_site(fn), F.describe(fn)[:160], **({"why": why} if why else {"how": "same-position;sizes-equal"}))
    # resize
    seen = set()
    for fn in db.fns(G + "resize"):
        params = fn.get("params", [])
        k = tuple(p["ref"] for p in params) + (PC.dims_of(fn) or 0,)
        if k in seen:
            continue
        seen.add(k)
        key = "resize|" + "/".join(str(x) for x in k)
        why = None
        try:
            ps = sx.Interp(db, pcfg).paths(fn)
            cl, rest = grid_ctor_closure(ps[0].outcome[1]) if len(ps) == 1 else (None, [])
            if cl is None or [sx.show(a) for a in rest] != ["r_a1"]:
                why = "the result is not a grid of the new size built from a per-position function"
            else:
                cfg2 = sx.Config(inline_prefixes=("fcppt::cond", "fcppt::optional::", "fcppt::const_"), pure=("fcppt::reference::get",))
                lp = sx.Interp(db, cfg2).paths_lambda(cl, cl.node["ops"][0], [("sym", "P")])
                t = f_ = False
                for p in lp:
                    ao = [e for e in p.events if e[0].split("<")[0] == G + "at_optional"]
                    if len(ao) != 1 or [sx.show(a) for a in ao[0][1]] != ["r_a0", "P"]:
                        why = "at_optional(_grid, P) is not consulted exactly once"
                        break
                    hv = [b for a, b in p.decisions]
                    calls = [e for e in p.events if e[0] == "call"]
                    v = sx.show(p.outcome[1])
                    if hv and hv[0]:
                        t = True
                        if calls or "some_payload(#1:at_optional)" not in v:
                            why = "an existing cell is not taken over (%s)" % v
                    else:
                        f_ = True
                        if len(calls) != 1 or [sx.show(a) for a in calls[0][1]] != ["r_a2", "P"]:
                            why = "a new cell is not _init(P)"
                if not why and not (t and f_):
                    why = "the cell does not depend on whether the old grid has it"
        except sx.Unsupported as e:
            why = "outside the interpreted fragment: %s" % e
        (rep.fail if why else rep.ok)("PROV", key, F.primary_site(fn), F.describe(fn)[:160], **({"why": why} if why else {"how": "old-cell-or-init(P)"}))
    # fill
    seen = set()
    for fn in db.fns(G + "fill"):
        k = PC.dims_of(fn)
        if k in seen:
            continue
        seen.add(k)
        key = "fill|N=%s" % k
        why = None
        try:
            # range-for over the pos_ref_range or an explicit loop with its iterators (positions of the same range)
            cfg3 = sx.Config(inline_prefixes=(), pure=(G + "pos_reference::value", G + "pos_reference::pos", G + "make_pos_ref_range"), loop_bound=1,
                             lvalues=True, iter_positions=True, iter_classes=("fcppt::iterator::base::",))
            ps = sx.Interp(db, cfg3).paths(fn)
            one = [p for p in ps if any(e[0] == "write" for e in p.events)]
            if not one:
                why = "no element is written"
            for p in one:
                w = [e for e in p.events if e[0] == "write"][0]
                c = [e for e in p.events if e[0] == "call"]

                def full(t, p=p):
                    """`#k:begin` spelled out as begin(<receiver>)"""
                    for _ in range(4):
                        t2 = re.sub(r"#(\d+):(c?begin)", lambda m: "%s(%s)" % (m.group(2), ", ".join(sx.show(a) for a in p.events[int(m.group(1)) - 1][1])), t)
                        if t2 == t:
                            break
                        t = t2
                    return t
                tgt, val = full(sx.show(w[1][0])), sx.show(w[1][1])
                if c:
                    c = [(c[0][0], [("t", full(sx.show(a))) for a in c[0][1]])]
                if "make_pos_ref_range(r_a0)" not in tgt or not tgt.startswith("value("):
                    why = "the written object is not the visited element's value (%s)" % tgt
                ctx = [a[1] for a in c[0][1]] if c else []
                if not c or [a[:4] for a in ctx][:2] != ["r_a1", "pos("] or not val.startswith("#") or ctx[1][3:] != tgt[5:]:
                    why = "the written value is not _function(element.pos()) of the element that is written"
        except sx.Unsupported as e:
            why = "outside the interpreted fragment: %s" % e
        (rep.fail if why else rep.ok)("PROV", key, F.primary_site(fn), F.describe(fn)[:160], **({"why": why} if why else {"how": "element.value()=f(element.pos())"}))
    # ---- RANGE-G
    seen = set()
    for fn in db.fns(G + "range_dim"):
        k = PC.dims_of(fn)
        if k in seen:
            continue
        seen.add(k)
        key = "range_dim|N=%s" % k
        why = None
        try:
            cfgr = sx.Config(inline_prefixes=(), pure_prefixes=("fcppt::",), loop_bound=1)
            ps = sx.Interp(db, cfgr).paths(fn)
            rows = {}
            for p_ in ps:
                if len(p_.decisions) != 1:
                    why = "the result depends on %d conditions, expected exactly min_less_sup(_min, _sup)" % len(p_.decisions)
                    break
                atom, val = sx.show(p_.decisions[0][0]), p_.decisions[0][1]
                if atom != "min_less_sup(r_a0, r_a1)":
                    why = "the subtraction is guarded by `%s`, not by min_less_sup(_min, _sup): a range that is inverted in one coordinate reaches the unsigned subtraction" % atom
                    break
                rows[val] = sx.show(p_.outcome[1])
            if not why:
                t, f_ = rows.get(True, ""), rows.get(False, "")
                if not ("operator-(get(r_a1), get(r_a0))" in t and t.startswith("to_dim(")):
                    why = "the non-empty case is %s, expected to_dim(sup - min)" % t
                elif not f_.startswith("null("):
                    why = "the empty case is %s, expected the null dimension" % f_
        except sx.Unsupported as e:
            why = "outside the interpreted fragment: %s" % e
        (rep.fail if why else rep.ok)("RANGE-G", key, F.primary_site(fn), F.describe(fn)[:160], **({"why": why} if why else {"how": "min_less_sup ? sup-min : null"}))
    # ---- PROV (resize, value category): an LVALUE source grid is only copied from -- in the instantiations whose Grid parameter is
    # an lvalue reference no element of the source is handed to std::move (kept cells go through move_if_rvalue<Grid>)
    seen_mv = set()
    for fn in db.fns(G + "resize"):
        ta = fn.get("targs") or []
        if not ta or not ta[0].rstrip().endswith("&") or ta[0].rstrip().endswith("&&"):
            continue
        key = "resize|lvalue source|N=%s%s" % (PC.dims_of(fn), "|const" if ta[0].startswith("const ") else "")
        if key in seen_mv:
            continue
        seen_mv.add(key)
        u = fn["_unit"]
        mv = [n for n in F.walk(fn.get("body"), into_lambdas=True) if n.get("k") == "call" and (T.callee_qn(u, n) or "") == "std::move"]
        (rep.fail if mv else rep.ok)("PROV", key, u.loc(mv[0]["loc"]) if mv else F.primary_site(fn), F.describe(fn)[:160],
                                     **({"why": "resize of an lvalue grid moves from it (std::move(%s)): the caller's grid loses the cells that were kept" % T.show(T.norm(u, mv[0]["args"][0]))[:80]} if mv else {"how": "no std::move in the lvalue instantiation"}))
    # ---- RANGE-G (who may subtract): the unsigned difference sup - min of a (min, sup) pair is formed in range_dim only, where
    # min_less_sup guards it; every other function of the grid headers reaches it through range_dim (range_size =
    # contents(range_dim(min, sup)))
    seen_sub = set()
    for fn in db.functions:
        u = fn["_unit"]
        name = F.fn_name(F.top_function(fn))
        if not name.startswith(G) or not u.file_of(fn["primary"]).startswith("libs/") or name == G + "range_dim":
            continue
        for n in F.walk(fn.get("body"), into_lambdas=False):
            if n.get("k") == "call" and n.get("opcall") == "-" and (T.callee_qn(u, n) or "").startswith("fcppt::math::vector::operator-"):
                ops_ = ([n["recv"]] if n.get("recv") is not None else []) + list(n.get("args", []))
                tys = [F.strip_targs(u.ty((T.unwrap(u, (T.unwrap(u, o_) or {}).get("recv")) or {}).get("t")) or "") if (T.unwrap(u, o_) or {}).get("k") == "call" else "" for o_ in ops_]
                txt = [T.show(T.norm(u, o_)) for o_ in ops_]
                if len(ops_) == 2 and txt[0].endswith(".get()") and txt[1].endswith(".get()"):
                    def is_kind(o_, kind):
                        r_ = T.unwrap(u, (T.unwrap(u, o_) or {}).get("recv"))
                        return r_ is not None and kind in (u.ty(r_.get("t")) or "")
                    if is_kind(ops_[0], "grid::sup") and is_kind(ops_[1], "grid::min"):
                        key = "sup-min@%s" % name.replace(G, "")
                        if key in seen_sub:
                            continue
                        seen_sub.add(key)
                        rep.fail("RANGE-G", key, u.loc(n["loc"]), F.describe(fn)[:160],
                                 why="%s forms sup - min itself (%s - %s): only range_dim may, under its min_less_sup guard; an inverted range wraps in unsigned arithmetic" % (name.replace(G, ""), txt[0], txt[1]))
    for fn in db.fns(G + "range_size"):
        k = PC.dims_of(fn)
        key = "range_size|N=%s" % k
        if key in seen_sub:
            continue
        seen_sub.add(key)
        u = fn["_unit"]
        t = T.return_term(u, fn)
        ts = re.sub(r"\s", "", T.show(t)) if t is not None else ""
        ts = re.sub(r"fcppt::strong_typedef\{(r_a[01])\}", r"\1", ts)      # by-value copies of the two strong typedefs
        ok = ts == "contents(range_dim(r_a0,r_a1))"
        (rep.ok if ok else rep.fail)("RANGE-G", key, F.primary_site(fn), F.describe(fn)[:160],
                                     **({"how": "contents(range_dim(min, sup))"} if ok else {"why": "range_size is %s, expected contents(range_dim(min, sup)): the size must be that of the guarded dimension" % ts}))
    # ---- STRIDE
    seen = set()
    for fn in db.functions:
        u = fn["_unit"]
        name = F.fn_name(F.top_function(fn)) if hasattr(F, "top_function") else F.fn_name(fn)
        if not name.startswith(G) or name == G + "offset" or not u.file_of(fn["primary"]).startswith("libs/"):
            continue
        for n in F.walk(fn.get("body"), into_lambdas=True):
            if n.get("k") == "call" and T.callee_qn(u, n) == G + "offset" and len(n.get("args", [])) == 2:
                site = u.loc(n.get("loc"))
                key = "offset@%s" % name.replace(G, "")
                if (key, F.primary_site(fn)) in seen:
                    continue
                seen.add((key, F.primary_site(fn)))
                dim = T.show(T.norm(u, n["args"][1]))
                # the storage the offset is applied to: enclosing subscript / pointer addition in the same function
                base = None
                # the offset may first be given a name: a local initialised from the call stands for it
                holders = [v["id"] for v in F.walk(fn.get("body"), into_lambdas=True)
                           if v.get("k") == "var" and v.get("init") is not None and any(x is n for x in F.walk(v["init"]))]

                def carries(e):
                    return any(x is n or (x.get("k") == "ref" and x.get("id") in holders) for x in F.walk(e))
                for m in F.walk(fn.get("body"), into_lambdas=True):
                    if m.get("k") == "subscript" and carries(m.get("idx")):
                        base = T.show(T.norm(u, m["base"]))
                    if m.get("k") == "binop" and m.get("op") == "+" and carries(m.get("r")):
                        base = T.show(T.norm(u, m["l"]))
                    if m.get("k") == "call" and m.get("opcall") in ("[]", "+") and m.get("recv") is not None and any(carries(a) for a in m.get("args", [])):
                        base = T.show(T.norm(u, m["recv"]))
                for m in []:
                    if m.get("k") == "subscript" and any(x is n for x in F.walk(m.get("idx"))):
                        base = T.show(T.norm(u, m["base"]))
                    if m.get("k") == "binop" and m.get("op") == "+" and any(x is n for x in F.walk(m.get("r"))):
                        base = T.show(T.norm(u, m["l"]))
                    if m.get("k") == "call" and m.get("opcall") in ("[]", "+") and m.get("recv") is not None and any(x is n for a in m.get("args", []) for x in F.walk(a)):
                        base = T.show(T.norm(u, m["recv"]))
                ok = dim == "size_" and base in ("container_", "iterator_")
                (rep.ok if ok else rep.fail)("STRIDE", key, site, F.describe(fn)[:160],
                                             **({"how": "%s[offset(., size_)]" % base} if ok else
                                                {"why": "offset is computed with dimension `%s` and applied to `%s`; expected the object's own size_ with its own storage" % (dim, base)}))
            if n.get("k") == "construct" and (n.get("cls") or "") == G + "pos_ref_iterator" and len(n.get("args", [])) == 3 and not name.startswith(G + "pos_ref_iterator"):
                key = "pos_ref_iterator@%s" % name.replace(G, "")
                if (key, F.primary_site(fn)) in seen:
                    continue
                seen.add((key, F.primary_site(fn)))
                a0, a2 = T.norm(u, n["args"][0]), T.norm(u, n["args"][2])
                while a2[0] == "new" and len(a2[2]) == 1:     # copy of the dimension object
                    a2 = a2[2][0]
                while a0[0] == "new" and len(a0[2]) == 1:
                    a0 = a0[2][0]
                ok = (a0[0] == "c" and str(a0[1]).endswith("::begin") and a2[0] == "c" and str(a2[1]).endswith("::size")
                      and a0[2] is not None and a0[2] == a2[2])
                (rep.ok if ok else rep.fail)("STRIDE", key, u.loc(n.get("loc")), F.describe(fn)[:160],
                                             **({"how": "(X.begin(), ., X.size()) of the same X"} if ok else
                                                {"why": "the iterator is built from storage `%s` and stride dimension `%s`: cells are addressed with the extents of something other than the grid that owns the storage" % (T.show(a0), T.show(a2))}))
    # ---- CARRY: next_position's per-dimension step uses ONE index consistently
    seen = set()
    for fn in db.fns(G + "next_position"):
        u = fn["_unit"]
        N = PC.dims_of(fn)
        if N in seen:
            continue
        seen.add(N)
        lams = [x for x in F.walk(fn.get("body"), into_lambdas=False) if x.get("k") == "lambda"]
        odefs = T.const_local_defs(u, fn)      # named references to _min.get() / _sup.get() stand for their initialisers
        cur, mn, sp = (p_["name"] for p_ in fn["params"][:3])
        why = None
        nops = 0
        for lam in lams:
            for op in lam.get("ops", []):
                idx = None
                for ta in (op.get("targs") or []):
                    m = re.match(r"^(\d+)U?L?$", str(ta))
                    if m:
                        idx = int(m.group(1))
                if idx is None:
                    why = "the per-dimension step is not instantiated by a dimension index"
                    break
                nops += 1
                res = op["params"][-1]["name"]

                def at_index(n):
                    n = T.unwrap(u, n)
                    if n is not None and n.get("k") == "call" and n.get("recv") is not None and not n.get("args"):
                        short = (T.callee_qn(u, n) or "").split("::")[-1]
                        if short in ("x", "y", "z", "w") and "math::vector::object" in (T.callee_qn(u, n) or ""):
                            return ("xyzw".index(short), T.show(T.norm(u, n["recv"], odefs)))   # named accessors are at<0..3>
                    if n is None or n.get("k") != "call" or (T.callee_qn(u, n) or "") != "fcppt::math::vector::at":
                        return None
                    d = T.callee_decl(u, n)
                    m = re.match(r"^(\d+)", (d.get("targs") or ["?"])[0])
                    return (int(m.group(1)) if m else None, T.show(T.norm(u, n["args"][0], odefs)))
                ifs = [x for x in F.walk(op.get("body"), into_lambdas=False) if x.get("k") == "if"]
                if len(ifs) != 1:
                    why = "expected exactly one carry test per dimension"
                    break
                c = T.unwrap(u, ifs[0]["cond"])
                ops_ = ([c.get("l"), c.get("r")] if c is not None and c.get("k") == "binop" else
                        (([c["recv"]] if c.get("recv") is not None else []) + list(c.get("args", [])) if c is not None and c.get("k") == "call" else []))
                sides = [at_index(x) for x in ops_]
                if sides != [(idx, res), (idx, "%s.get()" % sp)] and sides != [(idx, "%s.get()" % sp), (idx, res)]:
                    why = "dimension %d: the carry test compares %s, expected component %d of the position with component %d of sup" % (idx, sides, idx, idx)
                    break
                asg = [x for x in F.walk(ifs[0].get("then"), into_lambdas=False) if x.get("k") == "assign"]
                inc = [x for x in F.walk(ifs[0].get("then"), into_lambdas=False) if x.get("k") == "unop" and x.get("op") == "++"]
                if len(asg) != 1 or at_index(asg[0]["l"]) != (idx, res) or at_index(asg[0]["r"]) != (idx, "%s.get()" % mn):
                    why = "dimension %d: on carry the component is rewound to %s, expected component %d of min" % (idx, T.show(T.norm(u, asg[0]["r"])) if asg else "nothing", idx)
                    break
                if len(inc) != 1 or at_index(inc[0]["e"]) != (idx + 1, res):
                    why = "dimension %d: on carry component %d is not incremented exactly once" % (idx, idx + 1)
                    break
            if why:
                break
        if not why and N and nops != N - 1:
            why = "%d per-dimension steps instantiated for a %d-dimensional position (expected %d)" % (nops, N, N - 1)
        (rep.fail if why else rep.ok)("CARRY", "next_position|N=%s" % N, F.primary_site(fn), F.describe(fn)[:160],
                                      **({"why": why} if why else {"how": "compare/rewind component i, increment component i+1", "detail": {"steps": nops}}))
    rep.extra["exhaustive_over_orders"] = True
    if only in (None, "OFFSET", "NEXT", "END", "LAST-END", "POSIT"):
        from checks import c08_arith
        c08_arith.rules(rep, db, only)
    rep.explanation = ("Comparison clauses by abstract interpretation over weak orders with index coverage; at_optional / in_range by "
                       "decision table; cell provenance of map / apply / resize / fill by interpreting the per-position function with a "
                       "symbolic position. Necessary conditions of the property's last sentence; the row-major bijection and range "
                       "iteration are not decided.")
    rep.trusted = ["clang 14 front end", "grid::object(dim, function) calls the function once per position with that position (constructor body not interpreted)"]
