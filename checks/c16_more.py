"""C16, further helpers (DESIGN.md §6 C16): delegation shape of equal_range, binary_search, unique / unique_if, reverse and the
call-count structure of repeat / generate_n. Same technique as WRAP / VISIT: opaque std algorithms and functors are events,
the wrapper's own decisions are enumerated."""
import re

from engine import facts as F
from engine import terms as T
from engine import sx

A = "fcppt::algorithm::"


def evname(e):
    return e[0].split("<")[0]


def unwrap_iter(x):
    """iterator conversions (const_iterator from iterator) are transparent"""
    m = re.match(r"^[\w:]+\{(#\d+:\w+)\}$", x)
    return m.group(1) if m else x


def shown(p):
    return [(evname(e), [sx.show(a) for a in e[1]]) for e in p.events]


def rules(rep, db, inline):
    rep.rule("WRAP2", "equal_range / binary_search / unique(_if) / reverse call the std algorithm once over [begin, end) of their own range "
                      "with their own argument and convert the result as documented", floor=20)
    rep.rule("COUNT", "repeat / generate_n call the function exactly once per counted step and collect the results in order", floor=4)
    cfg = sx.Config(inline_prefixes=tuple(inline) + ("fcppt::range::", "fcppt::algorithm::detail::reverse"), loop_bound=2, record_prefixes=("fcppt::iterator::range",))

    def each(short):
        seen = set()
        for fn in db.fns(A + short):
            k = tuple(fn.get("targs") or [])
            if k in seen:
                continue
            seen.add(k)
            key = "%s<%s>" % (short, ", ".join(x.replace("std::", "").replace("drv::", "") for x in k)[:100])
            try:
                ps = sx.Interp(db, cfg).paths(fn, limit=100)
            except sx.Unsupported as e:
                rep.broken("C16 %s: outside the interpreted fragment (%s)" % (key, e))
                continue
            yield fn, ps, key

    def verdict(rid, fn, key, why, ps):
        (rep.fail if why else rep.ok)(rid, key, F.primary_site(fn), F.describe(fn)[:200], **({"why": why, "detail": {"paths": [p.show() for p in ps[:3]]}} if why else {"how": "delegates"}))

    def over_own_range(ev, r, algo, extra):
        """ev: shown events; [begin(r), end(r), algo(#1, #2, extra...)] in that order at the start"""
        if len(ev) < 3:
            return False
        ok = ev[0][0].split("::")[-1] in ("begin", "cbegin") and ev[0][1] == [r] and ev[1][0].split("::")[-1] in ("end", "cend") and ev[1][1] == [r]
        a = ev[2]
        want = ["#1:" + ev[0][0].split("::")[-1], "#2:" + ev[1][0].split("::")[-1]] + extra
        got = [unwrap_iter(x) for x in a[1]]
        return ok and a[0] == algo and got == want

    for fn, ps, key in each("equal_range"):
        r, x = fn["params"][0]["name"], fn["params"][1]["name"]
        why = None
        for p in ps:
            ev = shown(p)
            out = sx.show(p.outcome[1]).replace(" ", "")
            if len(ps) != 1 or len(ev) != 3 or not over_own_range(ev, r, "std::equal_range", [x]):
                why = "std::equal_range is not called exactly once over [begin, end) of the range with the caller's value"
            elif out != "range{begin_=#3:equal_range.first,end_=#3:equal_range.second}":
                why = "the result is %s, not the (first, second) pair std::equal_range returned" % out
        verdict("WRAP2", fn, key, why, ps)
    for fn, ps, key in each("binary_search"):
        r, x = fn["params"][0]["name"], fn["params"][1]["name"]
        why = None
        rows = set()
        for p in ps:
            ev = shown(p)
            if not over_own_range(ev, r, "std::equal_range", [x]):
                why = "std::equal_range is not called first, over [begin, end) of the range with the caller's value"
                break
            rng = "range{begin_=#3:equal_range.first, end_=#3:equal_range.second}"
            role = {}
            for i, (n, a) in enumerate(ev, 1):
                if n in ("fcppt::iterator::range::begin", "std::begin", "std::cbegin") and a == [rng]:
                    role[i] = "b"
                elif n in ("fcppt::iterator::range::end", "std::end", "std::cend") and a == [rng]:
                    role[i] = "e"
                elif n.startswith("std::next") and len(a) >= 1 and re.match(r"^#(\d+):begin$", a[0]) and role.get(int(a[0][1:].split(":")[0])) == "b" and (len(a) == 1 or a[1] == "1"):
                    role[i] = "b+1"
                elif n.endswith("operator==") or n.endswith("operator!="):
                    ids = [int(m.group(1)) for m in (re.match(r"^#(\d+):", unwrap_iter(y)) for y in a) if m]
                    role[i] = ("cmp", n.endswith("operator=="), tuple(sorted(role.get(j, "?") for j in ids)))
            state = []
            for d, v in p.decisions:
                t, neg = d, False
                while isinstance(t, tuple) and t and t[0] == "not":
                    t, neg = t[1], not neg
                c = role.get(t[1]) if isinstance(t, tuple) and t and t[0] == "ev" else None
                if isinstance(t, tuple) and t and t[0] == "cmp" and t[1] in ("==", "!=") and all(isinstance(y, tuple) and y and y[0] == "ev" for y in t[2:4]):
                    c = ("cmp", t[1] == "==", tuple(sorted(role.get(y[1], "?") for y in t[2:4])))     # built-in comparison of pointers
                if not (isinstance(c, tuple) and c[0] == "cmp"):
                    why = "a decision that is not a comparison of positions of the equal range: %s" % sx.show(d)
                    break
                eq = (v != neg) if c[1] else not (v != neg)
                state.append((c[2], eq))
            if why:
                break
            empty = dict(state).get(("b", "e"))
            single = dict(state).get(("b+1", "e"))
            out = sx.show(p.outcome[1])
            if empty is None:
                why = "the result does not depend on whether the equal range is empty"
            elif empty:
                exp = "none"
            elif single is None:
                why = "a non-empty equal range is not tested for having exactly one element"
            else:
                exp = "some" if single else "none"
            if why:
                break
            rows.add((empty, single))
            if exp == "none" and not out.endswith(":none"):
                why = "%s equal range but the result is %s" % ("empty" if empty else "longer", out)
            elif exp == "some" and not re.search(r"\{#(\d+):begin\}:some$", out):
                why = "one uncomparable element but the result is %s, expected the begin of the equal range" % out
            elif exp == "some" and role.get(int(re.search(r"\{#(\d+):begin\}:some$", out).group(1))) != "b":
                why = "the position returned is not the begin of the equal range"
            if why:
                break
        if not why and rows != {(True, None), (False, True), (False, False)}:
            why = "the three cases empty / one / several are not all possible: %s" % sorted(rows, key=str)
        verdict("WRAP2", fn, key, why, ps)
    for short in ("unique_if", "unique"):
        for fn, ps, key in each(short):
            r = fn["params"][0]["name"]
            why = None
            for p in ps:
                ev = shown(p)
                uq = [i for i, (n_, a_) in enumerate(ev, 1) if n_ == "std::unique"]
                er = [i for i, (n_, a_) in enumerate(ev, 1) if n_.split("::")[-1] == "erase"]
                rest = [n_ for i, (n_, a_) in enumerate(ev, 1) if i not in uq + er and not (n_.split("::")[-1] in ("begin", "end", "cbegin", "cend") and a_ == [r])]
                if len(ps) != 1 or len(uq) != 1 or len(er) != 1 or rest or er[0] < uq[0]:
                    why = "not exactly container.erase(std::unique(begin, end, predicate), end)"
                    break
                ua = ev[uq[0] - 1][1]
                pred = [fn["params"][1]["name"]] if short == "unique_if" else [ua[2] if len(ua) == 3 else "?"]

                def end_of(x):
                    m_ = re.match(r"^#(\d+):c?(begin|end)$", unwrap_iter(x))
                    return (m_.group(2), ev[int(m_.group(1)) - 1][1]) if m_ else None
                if [end_of(x) for x in ua[:2]] != [("begin", [r]), ("end", [r])] or ua[2:] != pred:
                    why = "std::unique is not called over [begin, end) of the container with the caller's predicate"
                else:
                    ea = ev[er[0] - 1][1]
                    if not (ea[0] == r and unwrap_iter(ea[1]) == "#%d:unique" % uq[0] and end_of(ea[2]) == ("end", [r])):
                        why = "the tail [result of std::unique, end) of the same container is not what is erased: %s" % ea
                if short == "unique" and not why and "lambda" not in pred[0]:
                    why = "unique does not compare with =="
            verdict("WRAP2", fn, key, why, ps)
    for fn, ps, key in each("reverse"):
        r = fn["params"][0]["name"]
        why = None
        ta0 = str((fn.get("targs") or ["?"])[0]).strip()
        if ta0.endswith("&") and not ta0.endswith("&&"):
            # an lvalue argument must not be reversed in place: the overload taken has to be the copying one
            u = fn["_unit"]
            calls = [c for c in F.walk(fn.get("body")) if c.get("k") == "call" and (u.decls.get(c.get("callee")) or {}).get("qn", "").startswith(A + "detail::reverse")]
            d = u.decls.get(calls[0]["callee"]) if len(calls) == 1 else None
            callee = db.resolve(u, d["id"]) if d else None
            copies = [c for c in F.walk(callee.get("body")) if c.get("k") == "construct" and c.get("ctor") == "copy"] if callee else []
            if d is None or (d.get("prefs") or ["?"])[0] != "clref" or not copies:
                why = "an lvalue container is handed to the in-place overload: the caller's container is reversed instead of a copy"
        for p in ([] if why else ps):
            ev = shown(p)
            out = sx.show(p.outcome[1])
            if len(ps) != 1 or len(ev) != 3 or not over_own_range(ev, r, "std::reverse", []):
                why = "std::reverse is not called exactly once over [begin, end) of the container (or its copy)"
            elif out != r:
                why = "the result is %s, not the reversed container" % out
        verdict("WRAP2", fn, key, why, ps)
    # ---- COUNT
    for fn, ps, key in each("repeat"):
        c, f = fn["params"][0]["name"], fn["params"][1]["name"]
        why = None
        for p in ps:
            calls = [e for e in shown(p) if e[0] == "call"]
            trues = 0
            for k, (d, v) in enumerate(p.decisions):
                go = None
                if isinstance(d, tuple) and d and d[0] == "cmp":
                    a_, b_ = sx.show(d[2]).replace(" ", ""), sx.show(d[3]).replace(" ", "")
                    if (a_, b_) == (str(k), c):
                        go = {"<": v, ">=": not v}.get(d[1])
                    elif (a_, b_) == (c, str(k)):
                        go = {">": v, "<=": not v}.get(d[1])
                if go is None:
                    why = "step %d is decided by %s, not by %d < count" % (k, sx.show(d), k)
                    break
                trues += 1 if go else 0
            if why:
                break
            if any(a != [f] for n, a in calls):
                why = "the function is called with arguments"
            elif len(calls) != trues - (1 if p.outcome[0] == "truncated" else 0):
                why = "%d calls of the function for %d counted steps" % (len(calls), trues)
            if why:
                break
        verdict("COUNT", fn, key, why, ps)
    for fn, ps, key in each("generate_n"):
        c, f = fn["params"][0]["name"], fn["params"][1]["name"]
        why = None
        for p in ps:
            ev = shown(p)
            if not ev or ev[0] != ("fcppt::make_int_range_count", [c]):
                why = "the counted range is not make_int_range_count(count)"
                break
            steps = sum(1 for d, v in p.decisions if v and sx.show(d).startswith("more(#1:make_int_range_count"))
            if any(not sx.show(d).startswith("more(#1:make_int_range_count") for d, v in p.decisions):
                why = "a decision other than 'the counted range has another element'"
                break
            calls = [(i, a) for i, (n, a) in enumerate(ev, 1) if n == "call"]
            ins = [(i, a) for i, (n, a) in enumerate(ev, 1) if n.split("::")[-1] in ("insert", "push_back", "emplace_back")]
            done = steps - (1 if p.outcome[0] == "truncated" else 0)
            if any(a != [f] for i, a in calls) or len(calls) not in (done, done + 1 if p.outcome[0] == "truncated" else done):
                why = "%d calls of the function for %d elements" % (len(calls), done)
            elif [a[-1] for i, a in ins] != ["#%d:call" % i for i, a in calls][:len(ins)] or len(ins) < done:
                why = "the results are not appended in call order: %s" % [a[-1] for i, a in ins]
            if why:
                break
        verdict("COUNT", fn, key, why, ps)


# --------------------------------------------------------------------------------------------
# split_string / join_strings: iterator positions (engine S with the storage model and std iterators as positions)

def _pos(t, evs, r):
    """k if the term is begin(r) + k, 'end' if it is end(r), else None"""
    k = 0
    while isinstance(t, tuple) and t and t[0] == "op" and t[1] == "+" and sx.is_const(t[3]):
        k += int(str(t[3][1]).rstrip("uUlL"))
        t = t[2]
    if isinstance(t, tuple) and t and t[0] == "ev" and 0 < t[1] <= len(evs):
        n, a = evname(evs[t[1] - 1]), evs[t[1] - 1][1]
        if len(a) == 1 and sx.show(a[0]) == r:
            if n.split("::")[-1] in ("begin", "cbegin"):
                return k
            if n.split("::")[-1] in ("end", "cend") and k == 0:
                return "end"
    return None


def _deref_of(x):
    """the position term a dereference reads, for class iterators (app deref) and pointers (built-in *)"""
    if isinstance(x, tuple) and x and x[0] == "app" and x[1] == "deref" and len(x[2]) == 1:
        return x[2][0]
    if isinstance(x, tuple) and x and x[0] == "deref":
        return x[1]
    return None


def rules_strings(rep, db, inline):
    rep.rule("SPLIT-JOIN", "split_string pushes exactly the pieces between the delimiters (the last one up to the end); join_strings appends the "
                           "elements in order with the delimiter between consecutive ones -- on every path of a twice-unrolled range", floor=6)
    cfg = sx.Config(inline_prefixes=tuple(inline) + ("fcppt::range::",), loop_bound=2, lvalues=True, iter_positions=True)
    for short in ("split_string", "join_strings"):
        seen = set()
        for fn in db.fns(A + short):
            k_ = tuple(fn.get("targs") or [])
            if k_ in seen:
                continue
            seen.add(k_)
            key = "%s<%s>" % (short, ", ".join(x.replace("std::", "") for x in k_)[:90])
            r, dl = fn["params"][0]["name"], fn["params"][1]["name"]
            try:
                ps = sx.Interp(db, cfg).paths(fn, limit=200)
            except sx.Unsupported as e:
                rep.broken("C16 %s: outside the interpreted fragment (%s)" % (key, e))
                continue
            why = None
            complete = 0
            for p in ps:
                if p.outcome[0] != "return":
                    continue
                evs = p.events
                n = None
                mask = {}
                conds = []       # decisions the rule does not interpret: the path must still produce the documented result
                for d, v in p.decisions:
                    if not (isinstance(d, tuple) and d and d[0] == "cmp" and d[1] in ("==", "!=")):
                        conds.append("%s is %s" % (sx.show(d)[:60], v))
                        continue
                    eq = v if d[1] == "==" else not v
                    a, b = _pos(d[2], evs, r), _pos(d[3], evs, r)
                    if "end" in (a, b) and isinstance(a if b == "end" else b, int):
                        if eq:
                            n = a if b == "end" else b
                        continue
                    sides = [d[2], d[3]]
                    de = [x for x in sides if _deref_of(x) is not None]
                    ot = [x for x in sides if x not in de]
                    if short == "split_string" and len(de) == 1 and len(ot) == 1 and sx.show(ot[0]) == dl and isinstance(_pos(_deref_of(de[0]), evs, r), int):
                        mask[_pos(_deref_of(de[0]), evs, r)] = eq
                        continue
                    conds.append("%s is %s" % (sx.show(d)[:60], v))
                if why:
                    break
                if n is None:
                    why = "a path returns without having reached the end of the range"
                    break
                complete += 1
                if short == "split_string":
                    if sorted(mask) != list(range(n)):
                        why = "a string of length %d is split after testing the positions %s only" % (n, sorted(mask))
                        break
                    want, start = [], 0
                    for k in range(n):
                        if mask[k]:
                            want.append((start, k))
                            start = k + 1
                    want.append((start, n))
                    got = []
                    for e in evs:
                        if evname(e).split("::")[-1] in ("push_back", "emplace_back"):
                            s_ = e[1][-1]
                            args = list(s_[3]) if isinstance(s_, tuple) and s_ and s_[0] == "new" else []
                            if len(args) < 2:
                                why = "a piece that is not built from two positions: %s" % sx.show(s_)
                                break
                            got.append((_pos(args[0], evs, r), _pos(args[1], evs, r)))
                    if not why and got != want:
                        why = "for length %d with delimiters at %s%s the pieces are %s, expected %s" % (
                            n, [k for k in range(n) if mask[k]], (" on the path where " + "; ".join(conds)) if conds else "", got, want)
                else:
                    want = []
                    for k in range(n):
                        want.append(("elem", k))
                        if k + 1 < n:
                            want.append(("delim",))
                    got = []
                    for e in evs:
                        if evname(e).endswith("operator+="):
                            x = e[1][-1]
                            if _deref_of(x) is not None and isinstance(_pos(_deref_of(x), evs, r), int):
                                got.append(("elem", _pos(_deref_of(x), evs, r)))
                            elif sx.show(x) == dl:
                                got.append(("delim",))
                            else:
                                got.append(("other", sx.show(x)))
                    if got != want:
                        why = "for %d elements%s the result is built from %s, expected %s" % (n, (" on the path where " + "; ".join(conds)) if conds else "", got, want)
                if why:
                    break
            if not why and complete < 3:
                why = "fewer than three complete paths (lengths 0, 1, 2)"
            (rep.fail if why else rep.ok)("SPLIT-JOIN", key, F.primary_site(fn), F.describe(fn)[:200], **({"why": why} if why else {"how": "%d complete paths" % complete}))


def rules_sets(rep, db, inline):
    rep.rule("SETOPS", "set_union / set_intersection / set_difference call the std algorithm once over both whole sets, inserting into the result they "
                       "return; key_set / map_values_copy insert the key / the mapped value of every element in order", floor=4)
    cfg = sx.Config(inline_prefixes=tuple(inline) + ("fcppt::range::", "fcppt::container::"), loop_bound=2)
    for short in ("set_union", "set_intersection", "set_difference"):
        seen = set()
        for fn in db.fns("fcppt::container::" + short):
            k_ = tuple(fn.get("targs") or [])
            if k_ in seen:
                continue
            seen.add(k_)
            key = "%s<%s>" % (short, ", ".join(x.replace("std::", "") for x in k_)[:80])
            a, b = fn["params"][0]["name"], fn["params"][1]["name"]
            try:
                ps = sx.Interp(db, cfg).paths(fn, limit=20)
            except sx.Unsupported as e:
                rep.broken("C16 %s: %s" % (key, e))
                continue
            why = None
            if len(ps) != 1 or ps[0].outcome[0] != "return":
                why = "%d paths" % len(ps)
            else:
                ev = shown(ps[0])
                names = [(n.split("::")[-1], x) for n, x in ev]
                algo = [i for i, (n, x) in enumerate(ev) if n == "std::" + short]
                out = sx.show(ps[0].outcome[1])
                if len(algo) != 1:
                    why = "std::%s is not called exactly once" % short
                else:
                    call = ev[algo[0]][1]
                    def src(x):
                        m = re.match(r"^#(\d+):(\w+)$", unwrap_iter(x))
                        if not m:
                            return None
                        n_, a_ = ev[int(m.group(1)) - 1]
                        return (n_.split("::")[-1].lstrip("c"), a_[0] if a_ else None)
                    if [src(x) for x in call[:4]] != [("begin", a), ("end", a), ("begin", b), ("end", b)]:
                        why = "std::%s is not called over [begin, end) of the first set and [begin, end) of the second, in this order: %s" % (short, [src(x) for x in call[:4]])
                    else:
                        ins = src(call[4]) if len(call) > 4 else None
                        ie = ev[int(re.match(r"^#(\d+):", unwrap_iter(call[4])).group(1)) - 1] if len(call) > 4 and re.match(r"^#(\d+):", unwrap_iter(call[4])) else None
                        if ie is None or not ie[0].endswith("inserter") or ie[1][0] != out:
                            why = "the output iterator is not an inserter into the set that is returned"
            (rep.fail if why else rep.ok)("SETOPS", key, F.primary_site(fn), F.describe(fn)[:160], **({"why": why} if why else {"how": "delegates"}))
    for short, member in (("key_set", "first"), ("map_values_copy", "second")):
        seen = set()
        for fn in db.fns("fcppt::container::" + short):
            k_ = tuple(fn.get("targs") or [])
            if k_ in seen:
                continue
            seen.add(k_)
            key = "%s<%s>" % (short, ", ".join(x.replace("std::", "") for x in k_)[:80])
            m = fn["params"][0]["name"]
            try:
                ps = sx.Interp(db, cfg).paths(fn, limit=40)
            except sx.Unsupported as e:
                rep.broken("C16 %s: %s" % (key, e))
                continue
            why = None
            for p in ps:
                n = sum(1 for d, v in p.decisions if v and sx.show(d).startswith("more(%s," % m))
                if p.outcome[0] == "truncated":
                    n -= 1
                ins = [x[-1] for nm, x in shown(p) if nm.split("::")[-1] in ("insert", "push_back", "emplace_back", "emplace")]
                want = ["%s[%d].%s" % (m, i, member) for i in range(n)]
                if ins[:n] != want or (p.outcome[0] == "return" and len(ins) != n):
                    why = "for %d elements the values inserted are %s, expected %s" % (n, ins, want)
                    break
            (rep.fail if why else rep.ok)("SETOPS", key, F.primary_site(fn), F.describe(fn)[:160], **({"why": why} if why else {"how": "every element's %s in order" % member}))


def rules_assoc(rep, db, inline):
    rep.rule("ASSOC", "find_opt / find_opt_iterator / find_opt_mapped / get_or_insert(_with_result) / at_optional: one lookup of the caller's key in the caller's "
                      "container; nothing exactly when it is not found (index not below size()); otherwise the element found; the creator runs once, with the key, only when "
                      "the key is missing, and its result is what is inserted and returned", floor=10)
    cfg = sx.Config(inline_prefixes=tuple(inline) + ("fcppt::range::", "fcppt::container::", "fcppt::optional::"), loop_bound=2, lvalues=True, iter_positions=True)

    def norm(x):
        return re.sub(r"\s+", "", x)

    def each(name):
        seen = set()
        for fn in db.fns("fcppt::container::" + name):
            k_ = tuple(fn.get("targs") or [])
            if k_ in seen:
                continue
            seen.add(k_)
            key = "%s<%s>" % (name, ", ".join(x.replace("std::", "").replace("drv::", "") for x in k_)[:90])
            try:
                ps = sx.Interp(db, cfg).paths(fn, limit=40)
            except sx.Unsupported as e:
                rep.broken("C16 ASSOC %s: %s" % (key, e))
                continue
            yield fn, ps, key

    def lookup(p, c, k):
        """(found: bool) when the path starts with find(c, k), end(c) and is decided by their comparison only; else a reason string"""
        ev = shown(p)
        if len(ev) < 2 or ev[0][0].split("::")[-1] != "find" or ev[0][1] != [c, k] or ev[1][0].split("::")[-1] not in ("end", "cend") or ev[1][1] != [c]:
            return "the container's find(key) / end() are not the first things evaluated: %s" % ev[:2]
        if len(p.decisions) != 1:
            return "%d decisions" % len(p.decisions)
        d, v = p.decisions[0]
        t = norm(sx.show(d))
        m_ = re.match(r"^#(\d+):operator(==|!=)$", t)
        if m_ and int(m_.group(1)) <= len(ev):
            # an iterator class whose comparison is an opaque call: the call's operands stand for the decision
            n_, a_ = ev[int(m_.group(1)) - 1]
            if sorted(unwrap_iter(x) for x in a_) == ["#1:find", "#2:end"]:
                ev.pop(int(m_.group(1)) - 1)
                p.events.pop(int(m_.group(1)) - 1) if False else None
                t = "(#1:find%s#2:end)" % m_.group(2)
        if t not in ("(#1:find==#2:end)", "(#2:end==#1:find)", "(#1:find!=#2:end)", "(#2:end!=#1:find)"):
            return "decided by %s" % t
        return (not v) if "==" in t else v

    results = {
        "find_opt": lambda out: out in ("optional::object{fcppt::reference{deref(#1:find)}}:some",),
        "find_opt_iterator": lambda out: out == "optional::object{#1:find}:some",
        "find_opt_mapped": lambda out: out == "optional::object{fcppt::reference{deref(#1:find)}.second}:some",
    }
    for name, ok_some in results.items():
        for fn, ps, key in each(name):
            c, k = fn["params"][0]["name"], fn["params"][1]["name"]
            why = None
            rows = set()
            for p in ps:
                f = lookup(p, c, k)
                if isinstance(f, str):
                    why = f
                    break
                rows.add(f)
                out = norm(sx.show(p.outcome[1])) if p.outcome[0] == "return" else "?"
                extra = [n for n, a in shown(p)[2:] if not re.search(r"operator(==|!=)$", n)]
                if extra:
                    why = "effects beyond the lookup: %s" % extra
                elif not f and not out.endswith(":none"):
                    why = "the key is not found but the result is %s" % out
                elif f and not ok_some(out):
                    why = "the key is found but the result is %s" % out
                if why:
                    break
            if not why and rows != {True, False}:
                why = "found / not found are not both possible"
            (rep.fail if why else rep.ok)("ASSOC", key, F.primary_site(fn), F.describe(fn)[:160], **({"why": why} if why else {"how": "table"}))
    for name in ("get_or_insert_with_result", "get_or_insert"):
        for fn, ps, key in each(name):
            c, k, cr = [p["name"] for p in fn["params"][:3]]
            why = None
            rows = set()
            for p in ps:
                f = lookup(p, c, k)
                if isinstance(f, str):
                    why = f
                    break
                rows.add(f)
                ev = shown(p)
                out = norm(sx.show(p.outcome[1])) if p.outcome[0] == "return" else "?"
                tail = ".reference_" if name == "get_or_insert" else ""
                if f:
                    if len(ev) != 2:
                        why = "the key is found but there are further effects: %s" % [n for n, a in ev[2:]]
                    elif out != "container::get_or_insert_result{fcppt::reference{deref(#1:find)}.second,0}" + tail:
                        why = "the key is found but the result is %s" % out
                else:
                    if len(ev) != 4 or ev[2] != ("call", [cr, k]) or ev[3][0].split("<")[0].split("::")[-1] not in ("emplace", "insert", "try_emplace") or ev[3][1] != [c, k, "#3:call"]:
                        why = "a missing key is not handled by create(key) once followed by emplace(key, that result): %s" % ev[2:]
                    elif out != "container::get_or_insert_result{addr(deref(#4:emplace.first)).second,1}" + tail:
                        why = "after inserting, the result is %s, expected the mapped object of the inserted element and inserted = true" % out
                if why:
                    break
            if not why and rows != {True, False}:
                why = "found / not found are not both possible"
            (rep.fail if why else rep.ok)("ASSOC", key, F.primary_site(fn), F.describe(fn)[:160], **({"why": why} if why else {"how": "table"}))
    for fn, ps, key in each("at_optional"):
        c, i = fn["params"][0]["name"], fn["params"][1]["name"]
        why = None
        rows = set()
        for p in ps:
            ev = shown(p)
            d0 = p.decisions[0][0] if len(p.decisions) == 1 else None
            inr = None
            if ev and ev[0][0].split("::")[-1] == "size" and ev[0][1] == [c] and isinstance(d0, tuple) and d0 and d0[0] == "cmp":
                a_, b_ = norm(sx.show(d0[2])), norm(sx.show(d0[3]))
                # the test must be index < size(), in any spelling (size() > index, !(index >= size()), ...)
                if (a_, b_) == (i, "#1:size"):
                    inr = {"<": p.decisions[0][1], ">=": not p.decisions[0][1]}.get(d0[1])
                elif (a_, b_) == ("#1:size", i):
                    inr = {">": p.decisions[0][1], "<=": not p.decisions[0][1]}.get(d0[1])
            if inr is None:
                why = "not decided by index < size() of the container: %s" % [sx.show(d) for d, v in p.decisions]
                break
            rows.add(inr)
            out = norm(sx.show(p.outcome[1])) if p.outcome[0] == "return" else "?"
            if not inr and not out.endswith(":none"):
                why = "index out of range but the result is %s" % out
            elif inr:
                m = re.match(r"^optional::object\{(?:fcppt::reference\{)?deref\(\(#(\d+):c?begin\+(#(\d+):to_signed|%s)\)\)\}?\}:some$" % re.escape(i), out)
                if not m or ev[int(m.group(1)) - 1][1] != [c] or (m.group(3) and ev[int(m.group(3)) - 1][1] != [i]):
                    why = "index in range but the result is %s, expected the element at begin() + index" % out
            if why:
                break
        if not why and rows != {True, False}:
            why = "in range / out of range are not both possible"
        (rep.fail if why else rep.ok)("ASSOC", key, F.primary_site(fn), F.describe(fn)[:160], **({"why": why} if why else {"how": "table"}))


def rules_join(rep, db, inline):
    rep.rule("JOIN", "container::join inserts [begin, end) of every further argument, in argument order, at the end of the first container (or into the "
                     "associative container) and returns it", floor=10)
    cfg = sx.Config(inline_prefixes=tuple(inline) + ("fcppt::range::", "fcppt::container::", "fcppt::move_iterator_if_rvalue"), loop_bound=2, lvalues=True, iter_positions=True)
    seen = set()
    for fn in db.fns("fcppt::container::join"):
        k_ = tuple(fn.get("targs") or [])
        if k_ in seen or len(fn["params"]) < 2:
            continue
        seen.add(k_)
        key = "join<%s>" % ", ".join(x.replace("std::", "") for x in k_)[:100]
        names = [p["name"] for p in fn["params"]]
        try:
            ps = sx.Interp(db, cfg).paths(fn, limit=20)
        except sx.Unsupported as e:
            rep.broken("C16 JOIN %s: %s" % (key, e))
            continue
        why = None
        if len(ps) != 1 or ps[0].outcome[0] != "return":
            why = "%d paths" % len(ps)
        else:
            ev = shown(ps[0])
            if sx.show(ps[0].outcome[1]) != names[0]:
                why = "the result is %s, not the first container" % sx.show(ps[0].outcome[1])

            def origin(x):
                """('begin'|'end', container) behind an iterator term, through make_move_iterator"""
                for _ in range(4):
                    m = re.match(r"^#(\d+):(\w+)$", unwrap_iter(x))
                    if not m:
                        return None
                    n_, a_ = ev[int(m.group(1)) - 1]
                    short = n_.split("::")[-1]
                    if short == "make_move_iterator":
                        x = a_[0]
                        continue
                    return (short.lstrip("c"), a_[0] if a_ else None)
                return None
            ins = [(n, a) for n, a in ev if n.split("::")[-1] == "insert"]
            got = []
            for n, a in ins:
                if a[0] != names[0]:
                    why = "an insertion into %s" % a[0]
                    break
                rng = a[-2:]
                o = [origin(x) for x in rng]
                if o[0] is None or o[1] is None or o[0][0] != "begin" or o[1][0] != "end" or o[0][1] != o[1][1]:
                    why = "a range that is not [begin, end) of one argument: %s" % rng
                    break
                if len(a) == 4 and origin(a[1]) != ("end", names[0]):
                    why = "the elements are not inserted at the end of the first container"
                    break
                got.append(o[0][1])
            if not why and got != names[1:]:
                why = "the arguments are inserted in the order %s, expected %s" % (got, names[1:])
        (rep.fail if why else rep.ok)("JOIN", key, F.primary_site(fn), F.describe(fn)[:160], **({"why": why} if why else {"how": "%d ranges" % (len(names) - 1)}))
        # an LVALUE first container is copied, never appended to: overload resolution must pick detail::join_impl(Container const &, ...)
        # for it (the forwarding overload appends into its argument)
        if k_ and k_[0].rstrip().endswith("&") and not k_[0].rstrip().endswith("&&"):
            u = fn["_unit"]
            cs = [n for n in F.walk(fn.get("body"), into_lambdas=False) if n.get("k") == "call" and (T.callee_qn(u, n) or "") == "fcppt::container::detail::join_impl"]
            d0 = T.callee_decl(u, cs[0]) if len(cs) == 1 else None
            pref = ((d0 or {}).get("prefs") or ["?"])[0]
            okl = len(cs) == 1 and pref in ("clref", "val")
            (rep.ok if okl else rep.fail)("JOIN", key + "|lvalue first argument", F.primary_site(fn), F.describe(fn)[:160],
                                          **({"how": "join_impl(Container const &, ...): works on a copy"} if okl else
                                             {"why": "for an lvalue first container join calls the join_impl overload taking it by `%s`: the elements are appended to the caller's container itself" % pref}))


def rules_find_by(rep, db, inline):
    rep.rule("FIND-BY", "find_by_opt applies the function to the elements in order, stops at the first result that has a value and returns that result; "
                        "nothing when no element yields one", floor=6)
    cfg = sx.Config(inline_prefixes=tuple(inline) + ("fcppt::range::",), loop_bound=2, lvalues=True, iter_positions=True)
    seen = set()
    for fn in db.fns(A + "find_by_opt"):
        k_ = tuple(fn.get("targs") or [])
        if k_ in seen or "std::set" in str(k_[0]) or "std::map" in str(k_[0]):
            continue
        if re.sub(r"^const\s+", "", str(k_[0])).startswith(("fcppt::int_range", "fcppt::enum_::range")):
            continue      # ranges with fcppt's own iterators: their stepping is C18's FACADE / INT / ENUM
        seen.add(k_)
        key = "find_by_opt<%s>" % ", ".join(x.replace("std::", "").replace("drv::", "") for x in k_)[:100]
        r, f = fn["params"][0]["name"], fn["params"][1]["name"]
        try:
            ps = sx.Interp(db, cfg).paths(fn, limit=100)
        except sx.Unsupported as e:
            rep.broken("C16 FIND-BY %s: %s" % (key, e))
            continue
        why = None
        outcomes = set()
        for p in ps:
            if p.outcome[0] != "return":
                continue
            evs = p.events
            calls = [(i, e) for i, e in enumerate(evs, 1) if evname(e) == "call"]
            # every call applies f to the element at position k = its ordinal
            for k, (i, e) in enumerate(calls):
                x = e[1][1] if len(e[1]) == 2 else None
                pos = _pos(_deref_of(x), evs, r) if x is not None and _deref_of(x) is not None else None
                if sx.show(e[1][0]) != f or pos != k:
                    why = "call %d of the function is %s: not the function applied to element %d" % (k, sx.show_event(e)[:120], k)
                    break
            if why:
                break
            hv = []
            n = None
            for d, v in p.decisions:
                t = sx.show(d)
                m = re.match(r"^has_value\(#(\d+):call\)$", t)
                if m:
                    hv.append((int(m.group(1)), v))
                    continue
                if isinstance(d, tuple) and d and d[0] == "cmp" and d[1] in ("==", "!="):
                    a, b = _pos(d[2], evs, r), _pos(d[3], evs, r)
                    if "end" in (a, b):
                        eq = v if d[1] == "==" else not v
                        if eq:
                            n = a if b == "end" else b
                        continue
                why = "a decision that is neither an end test nor 'the result has a value': %s" % t
                break
            if why:
                break
            if [i for i, v in hv] != [i for i, e in calls]:
                why = "not every result of the function is tested for having a value, in order"
                break
            out = sx.show(p.outcome[1])
            if hv and hv[-1][1]:
                if any(v for i, v in hv[:-1]) or out != "#%d:call" % hv[-1][0]:
                    why = "a result with a value was found at call %d but the outcome is %s" % (len(hv) - 1, out)
                outcomes.add("found")
            else:
                if n is None or n != len(calls) or not out.endswith(":none"):
                    why = "no result has a value after %d calls (range length %s) but the outcome is %s" % (len(calls), n, out)
                outcomes.add("none")
            if why:
                break
        if not why and outcomes != {"found", "none"}:
            why = "found / nothing are not both possible"
        (rep.fail if why else rep.ok)("FIND-BY", key, F.primary_site(fn), F.describe(fn)[:160], **({"why": why} if why else {"how": "table"}))
