"""C17 Typed wrappers are transparent; ==, < and hash are mutually coherent (DESIGN.md §6 C17).

 ST-MIRROR  every strong_typedef operator (arithmetic, comparison, bitwise, assigning, ++/--): the operator in
            the name equals the opcode applied to .get() of the operands in the same order; value forms wrap the
            result, assigning forms return the left operand
 DERIVED    != is !(a == b) (or the mirrored underlying !=); > is b < a; <= is !(b < a) or !(a > b) or the
            mirrored underlying; >= is !(a < b) -- for every fcppt type that defines them
 EQ-COVER   operator== reads every non-static data member of the type on BOTH operands (through trivially
            returning accessors / begin..end), so == holds exactly when all observable components are equal
 LT-COVER   operator< reads the same component set as == on both operands
 HASH-COH   the hash functor reads only components that == compares (and at least one)
 OE-TABLE   decision tables of optional ==, <, either == (tag predicates, 4 rows each)
Given that component comparisons are equivalences / strict weak orders (trusted for std and built-in types)
these imply the equivalence, negation, compatibility and equal-hash claims for all values.
Declined: properties of the delegated std:: comparisons and of hash_combine's quality.
"""
import re

from engine import facts as F
from engine import load
from engine import lrules as L
from engine import sx
from engine import terms as T

LEVEL = "other"

# component-coverage table: type -> components that == must read on both operands. Components are field names;
# a field may be reached through the listed accessor methods (checked to return that field).
EQ_TYPES = {
    "fcppt::math::box::object": ["min_", "max_"],
    "fcppt::math::sphere::object": ["origin_", "radius_"],
    "fcppt::strong_typedef": ["value_"],
    "fcppt::container::bitfield::object": ["array_"],
    "fcppt::container::grid::object": ["container_", "size_"],
    "fcppt::container::tree::object": ["value_", "children_"],
    "fcppt::array::object": ["impl_"],
    "fcppt::tuple::object": ["impl_"],
    "fcppt::math::vector::object": ["storage_"],
    "fcppt::math::dim::object": ["storage_"],
    "fcppt::math::matrix::object": ["storage_"],
    "fcppt::reference": ["impl_"],
    "fcppt::recursive": ["impl_"],
    "fcppt::enum_::array": ["impl_"],
    "fcppt::record::object": ["elements_"],
}
# fields that are deliberately not part of the value (with the reason)
NOT_VALUE = {"fcppt::container::tree::object": {"parent_": "position in an enclosing tree, not part of the value"}}


def accessor_map(db):
    """method qualified name (targs stripped) -> field it returns (single `return this->f_` / `return f_`)"""
    out = {}
    for fn in db.functions:
        if fn.get("kind") not in ("method", "conversion", "method_operator"):
            continue
        u = fn["_unit"]
        # a trivially returning accessor: exactly one return, nothing else that has an effect (declarations are ignored)
        stm = [x for x in (fn.get("body") or {}).get("ch", []) if x.get("k") not in ("decl", "null")]
        if len(stm) != 1 or stm[0].get("k") != "return":
            continue
        t = T.snorm(u, fn, stm[0].get("e"))
        while isinstance(t, tuple) and t[0] in ("cast",):
            t = t[2]
        if isinstance(t, tuple) and t[0] == "m" and t[1] == ("this",):
            out[F.fn_name(fn)] = t[2]
        elif isinstance(t, tuple) and t[0] == "u" and t[1] == "*" and isinstance(t[2], tuple) and t[2][0] == "m" and t[2][1] == ("this",):
            out[F.fn_name(fn)] = t[2][2]
        elif isinstance(t, tuple) and t[0] == "c" and t[2] is not None and t[2][0] == "m" and t[2][1] == ("this",) and str(t[1]).split("::")[-1] in ("get", "operator*", "begin", "end", "data", "cbegin", "cend"):
            out[F.fn_name(fn)] = t[2][2]
    return out


def components(db, u, fn, param, acc, depth=0):
    """set of components of `param` (a parameter dict) read inside fn, following delegation to helper
    functions that receive the whole parameter or an accessor result (depth-limited)."""
    out = set()
    pid = param["id"]
    for n in F.walk(fn.get("body")):
        k = n.get("k")
        if k == "range_for":
            rg = T.unwrap(u, n.get("range"))
            if rg is not None and rg.get("k") == "ref" and rg["id"] == pid:
                ty = F.strip_targs((u.ty(param["t"]) or "").replace("const ", "").replace(" &", ""))
                out.add(acc.get(ty + "::begin", "@range"))
        if k == "member" and n.get("field"):
            b = T.unwrap(u, n.get("base"))
            if b is not None and b.get("k") == "ref" and b["id"] == pid:
                out.add(n["name"])
        if k == "call":
            d = T.callee_decl(u, n)
            if d is None:
                continue
            qn = F.strip_targs(d["qn"])
            if qn in T.TRANSPARENT_CALLS and qn not in acc:
                continue
            r = n["recv"] if n.get("recv") is not None else None
            while r is not None and r.get("k") in ("icast", "cast"):
                r = r.get("e")
            if r is not None and r.get("k") == "ref" and r["id"] == pid:
                if qn in acc:
                    out.add(acc[qn])
                else:
                    got = this_fields(db, u, d, acc, 0)
                    if got:
                        out |= got
                    else:
                        out.add("@" + qn.split("::")[-1])
            # whole parameter passed on to a helper (fcppt::range::begin(_a), array_equal(_a, _b), ...)
            for i, a in enumerate(n.get("args", [])):
                an = T.unwrap(u, a)
                if an is not None and an.get("k") == "ref" and an["id"] == pid and (qn.startswith("fcppt::algorithm::") or qn in ("std::equal", "std::lexicographical_compare")):
                    ty = F.strip_targs((u.ty(param["t"]) or "").replace("const ", "").replace(" &", ""))
                    out.add(acc.get(ty + "::begin", "@range"))
                    continue
                if an is not None and an.get("k") == "ref" and an["id"] == pid and depth < 3:
                    callee = db.resolve(u, d["id"])
                    if callee is not None and callee.get("body") is not None and i < len(callee.get("params", [])):
                        out |= components(db, callee["_unit"], callee, callee["params"][i], acc, depth + 1)
                    else:
                        out.add("@" + qn.split("::")[-1])
    return out


def this_fields(db, u, d, acc, depth):
    """fields of *this read by a (non-trivial) member function, following member calls on this"""
    callee = db.resolve(u, d["id"])
    if callee is None or callee.get("body") is None or depth > 3:
        return set()
    cu = callee["_unit"]
    out = set()
    for n in F.walk(callee.get("body")):
        if n.get("k") == "member" and n.get("field"):
            b = T.unwrap(cu, n.get("base"))
            if b is not None and b.get("k") == "this":
                out.add(n["name"])
        if n.get("k") == "call" and n.get("recv") is not None:
            r = T.unwrap(cu, n["recv"])
            if r is not None and r.get("k") == "this":
                d2 = T.callee_decl(cu, n)
                if d2 is not None:
                    q2 = F.strip_targs(d2["qn"])
                    if q2 in acc:
                        out.add(acc[q2])
                    else:
                        out |= this_fields(db, cu, d2, acc, depth + 1)
    return out


def record_fields(db, qn):
    for u in db.units:
        for r in u.records:
            if F.strip_targs(r["qn"]) == qn and r["fields"]:
                return [f["name"] for f in r["fields"]]
    return None


# ------------------------------------------------------------------------------------------------
# LT-LEX: operator< of a multi-component type is a lexicographic order of its components

class _NoParse(Exception):
    pass


def _side_key(t, pa, pb):
    """(component key with the parameter abstracted, side 'a'|'b') of an operand term"""
    sides = set()

    def sub(x):
        if isinstance(x, tuple):
            if x and x[0] == "v":
                if x[1] == pa:
                    sides.add("a")
                    return ("v", 0, "@")
                if x[1] == pb:
                    sides.add("b")
                    return ("v", 0, "@")
            return tuple(sub(y) for y in x)
        return x
    k = sub(t)
    if len(sides) != 1:
        raise _NoParse("operand %s does not belong to exactly one of the two objects" % T.show(t))
    return T.show(k), sides.pop()


def _lt_expr(t, pa, pb):
    """boolean expression over component relations: ('atom', comp, op, swapped) | ('not',e) | ('and'|'or',l,r) | ('ite',c,t,e) | ('lex',[comps], swapped)"""
    if not isinstance(t, tuple) or not t:
        raise _NoParse(str(t))
    if t[0] == "cond":
        return ("ite", _lt_expr(t[1], pa, pb), _lt_expr(t[2], pa, pb), _lt_expr(t[3], pa, pb))
    if t[0] == "u" and t[1] == "!":
        return ("not", _lt_expr(t[2], pa, pb))
    if t[0] == "b" and t[1] in ("&&", "||"):
        return ("and" if t[1] == "&&" else "or", _lt_expr(t[2], pa, pb), _lt_expr(t[3], pa, pb))
    op = l = r = None
    if t[0] == "b" and t[1] in ("<", ">", "<=", ">=", "==", "!="):
        op, l, r = t[1], t[2], t[3]
    elif t[0] == "c" and isinstance(t[1], str):
        short = t[1].split("::")[-1]
        ops = ([t[2]] if t[2] is not None else []) + list(t[3])
        if short.startswith("operator") and short[8:] in ("<", ">", "<=", ">=", "==", "!=") and len(ops) == 2:
            op, l, r = short[8:], ops[0], ops[1]
            # rewritten three-way comparison: (x <=> y) < 0
            if isinstance(l, tuple) and l and l[0] == "c" and str(l[1]).endswith("operator<=>") and "__unspec" in T.show(r):
                lo = ([l[2]] if l[2] is not None else []) + list(l[3])
                l, r = lo[0], lo[1]
        elif short == "lexicographical_compare" and len(t[3]) == 4:
            ka, sa = _side_key(t[3][0], pa, pb)
            kb, sb = _side_key(t[3][2], pa, pb)
            if ka != kb or sa == sb:
                raise _NoParse("lexicographical_compare over different ranges")
            return ("atom", "elements[%s]" % ka, "<", sa == "b")
    if op is None:
        raise _NoParse(T.show(t))
    # pair / tuple operands: std lexicographic comparison of the listed components
    def parts(x):
        if isinstance(x, tuple) and x and x[0] == "c" and str(x[1]).split("::")[-1] in ("make_pair", "tie", "make_tuple", "forward_as_tuple"):
            return list(x[3])
        return None
    pl, pr = parts(l), parts(r)
    if pl is not None and pr is not None:
        if len(pl) != len(pr) or op != "<":
            raise _NoParse("pair comparison with different arity / operator")
        comps, swapped = [], None
        for x, y in zip(pl, pr):
            kx, sx_ = _side_key(x, pa, pb)
            ky, sy = _side_key(y, pa, pb)
            if kx != ky or sx_ == sy:
                raise _NoParse("the pairs list different components in the same position")
            if swapped is None:
                swapped = sx_ == "b"
            elif swapped != (sx_ == "b"):
                raise _NoParse("the pairs mix the two objects")
            comps.append(kx)
        return ("lex", comps, swapped)
    kl, sl = _side_key(l, pa, pb)
    kr, sr = _side_key(r, pa, pb)
    if kl != kr or sl == sr:
        raise _NoParse("comparison of different components: %s vs %s" % (kl, kr))
    return ("atom", kl, op, sl == "b")


def _lt_comps(e, out):
    if e[0] == "atom":
        if e[1] not in out:
            out.append(e[1])
    elif e[0] == "lex":
        for c in e[1]:
            if c not in out:
                out.append(c)
    else:
        for x in e[1:]:
            _lt_comps(x, out)
    return out


def _lt_eval(e, rel):
    """rel: comp -> '<' | '=' | '>' (a relative to b)"""
    if e[0] == "atom":
        r = rel[e[1]]
        if e[3]:
            r = {"<": ">", ">": "<", "=": "="}[r]
        return {"<": r == "<", ">": r == ">", "<=": r != ">", ">=": r != "<", "==": r == "=", "!=": r != "="}[e[2]]
    if e[0] == "lex":
        for c in e[1]:
            r = rel[c]
            if e[2]:
                r = {"<": ">", ">": "<", "=": "="}[r]
            if r != "=":
                return r == "<"
        return False
    if e[0] == "not":
        return not _lt_eval(e[1], rel)
    if e[0] == "and":
        return _lt_eval(e[1], rel) and _lt_eval(e[2], rel)
    if e[0] == "or":
        return _lt_eval(e[1], rel) or _lt_eval(e[2], rel)
    if e[0] == "ite":
        return _lt_eval(e[2], rel) if _lt_eval(e[1], rel) else _lt_eval(e[3], rel)
    raise ValueError(e)


def _helper_mismatch(ps, a, b):
    """the helper is written with std::mismatch(A.begin(), A.end(), B.begin()): it is a lexicographic comparison of equally long
    ranges iff it yields false when no mismatch exists and *first < *second at the mismatch. None when the form is another one."""
    def rng(txt, side):
        return txt.replace(" ", "") in ("to_array(%s)" % side, side)
    verdict = None
    for p in ps:
        ev = {i: e for i, e in enumerate(p.events, 1)}
        mms = [i for i, e in ev.items() if e[0].split("<")[0] == "std::mismatch"]
        if len(mms) != 1:
            return None
        m = mms[0]
        margs = [sx.show(x) for x in ev[m][1]]

        def of(ref, suffix):
            mm_ = re.match(r"^#(\d+):(\w+)$", ref)
            if not mm_ or int(mm_.group(1)) not in ev:
                return None
            e = ev[int(mm_.group(1))]
            return sx.show(e[1][0]) if e[0].split("<")[0].split("::")[-1] in suffix and len(e[1]) == 1 else None
        if len(margs) != 3 or not (rng(of(margs[0], ("begin", "cbegin")) or "", a) and rng(of(margs[1], ("end", "cend")) or "", a)
                                   and rng(of(margs[2], ("begin", "cbegin")) or "", b)):
            return (False, "std::mismatch is not called over [begin, end) of the left operand and begin of the right: mismatch(%s)" % ", ".join(margs))
        first, second = "#%d:mismatch.first" % m, "#%d:mismatch.second" % m
        at_end, less = None, None
        for d, v in p.decisions:
            t = sx.show(d)
            m1 = re.match(r"^\((.+) (==|!=) (.+)\)$", t)
            m2 = re.match(r"^\(deref\((.+)\) < deref\((.+)\)\)$", t)
            if m2:
                if (m2.group(1), m2.group(2)) != (first, second):
                    return (False, "at the mismatch the helper compares %s" % t)
                less = v
            elif m1:
                l, r = m1.group(1), m1.group(3)
                other = r if l == first else l if r == first else None
                if other is None or not rng(of(other, ("end", "cend")) or "", a):
                    return None
                at_end = v if m1.group(2) == "==" else not v
            else:
                return None
        if p.outcome[0] != "return":
            continue
        out = sx.show(p.outcome[1]).replace(" ", "")
        if at_end is None:
            return None
        if at_end:
            if out not in ("0", "false"):
                return (False, "no element differs (std::mismatch reached the end) but the result is %s" % out)
        else:
            if less is None:
                if out != ("(deref(%s)<deref(%s))" % (first, second)).replace(" ", ""):
                    return None
            elif out not in (("true", "1") if less else ("false", "0")):
                return (False, "at the first difference *first < *second is %s but the result is %s" % (less, out))
        verdict = (True, "std::mismatch over both ranges: false when none differs, *first < *second at the first difference")
    return verdict


def _lex_spec(env, same_len=False):
    """the set of results lexicographic `<` of two ranges can have under the answers in env (("end", side, k) / ("lt", side, k));
    a question env does not answer is open (both answers), except that ranges of one static size end together"""
    out = set()

    def ask(e, key):
        if key in e:
            return [(e, e[key])]
        if same_len and key[0] == "end":
            other = ("end", "b" if key[1] == "a" else "a", key[2])
            if other in e:
                e2 = dict(e)
                e2[key] = e[other]
                return [(e2, e[other])]
        res = []
        for v in (True, False):
            e2 = dict(e)
            e2[key] = v
            res.append((e2, v))
        return res

    def go(e, k):
        if k > 6:
            return
        for (e1, ea) in ask(e, ("end", "a", k)):
            for (e2, eb) in ask(e1, ("end", "b", k)):
                if ea:
                    out.add(not eb)
                    continue
                if eb:
                    out.add(False)
                    continue
                for (e3, lab) in ask(e2, ("lt", "a", k)):
                    if lab:
                        out.add(True)
                        continue
                    for (e4, lba) in ask(e3, ("lt", "b", k)):
                        if lba:
                            out.add(False)
                        else:
                            go(e4, k + 1)
    go(env, 0)
    return out


def _helper_iter_loop(ps, a, b, same_len=False):
    """the helper walks both element ranges with iterators / pointers (`for (; ia != A.end() && ib != B.end(); ++ia, ++ib)`):
    every decision is `position k of one side is its end` or `*(A.begin()+k) < *(B.begin()+k)` (either direction). Each
    complete path's result must be the one the lexicographic specification gives under the path's own decisions:
    k = 0, 1, ...: A exhausted -> (B not exhausted); B exhausted -> false; a_k < b_k -> true; b_k < a_k -> false; else next k.
    (True, how) | (False, why) | None when the decisions have another shape."""
    def side_of(p, evno):
        e = p.events[evno - 1]
        if len(e[1]) != 1:
            return None
        t = sx.show(e[1][0])
        ina, inb = a in t, b in t
        return "a" if ina and not inb else "b" if inb and not ina else None

    def pos(p, txt):
        """`((#i:begin + 1) + 1)` -> (side, 2)"""
        txt = txt.replace(" ", "")
        k = 0
        while True:
            m = re.match(r"^\((.+)\+1\)$", txt)
            if not m:
                break
            txt, k = m.group(1), k + 1
        m = re.match(r"^#(\d+):c?begin$", txt)
        if not m or not p.events[int(m.group(1)) - 1][0].split("<")[0].split("::")[-1] in ("begin", "cbegin"):
            return None
        sd = side_of(p, int(m.group(1)))
        return (sd, k) if sd else None
    seen_any = False
    for p in ps:
        env = {}
        feasible = True
        for d, v in p.decisions:
            t = sx.show(d)
            m1 = re.match(r"^\((.+) (==|!=) #(\d+):c?end\)$", t)
            m2 = re.match(r"^\(deref\((.+)\) < deref\((.+)\)\)$", t)
            if m1:
                ps_ = pos(p, m1.group(1))
                es = side_of(p, int(m1.group(3)))
                if ps_ is None or es is None:
                    return None
                if ps_[0] != es:
                    return (False, "a position of the %s operand is compared with the end of the other operand (%s)" % ("left" if ps_[0] == "a" else "right", t))
                key, val = ("end", es, ps_[1]), (v if m1.group(2) == "==" else not v)
            elif m2:
                l, r = pos(p, m2.group(1)), pos(p, m2.group(2))
                if l is None or r is None:
                    return None
                if l[0] == r[0] or l[1] != r[1]:
                    return (False, "the helper compares %s: a lexicographic comparison compares element k of one operand with element k of the other" % t)
                key, val = ("lt", l[0], l[1]), v
            else:
                return None
            seen_any = True
            if key in env and env[key] != val:
                feasible = False     # the same question answered differently: begin() / end() of an unchanged array are stable
                break
            env[key] = val
        if not feasible or p.outcome[0] != "return":
            continue
        out = sx.show(p.outcome[1]).replace(" ", "")
        cases = None
        if out in ("true", "false", "0", "1"):
            cases = [(env, out in ("true", "1"))]
        else:
            # the result is itself one undecided question (`return ia == A.end();`): both answers are separate cases
            t = sx.show(p.outcome[1])
            m1 = re.match(r"^\((.+) (==|!=) #(\d+):c?end\)$", t)
            m2 = re.match(r"^\(deref\((.+)\) < deref\((.+)\)\)$", t)
            key = None
            if m1:
                ps_, es = pos(p, m1.group(1)), side_of(p, int(m1.group(3)))
                if ps_ is not None and es is not None and ps_[0] == es:
                    key = ("end", es, ps_[1])
            elif m2:
                l, r = pos(p, m2.group(1)), pos(p, m2.group(2))
                if l is not None and r is not None and l[0] != r[0] and l[1] == r[1]:
                    key = ("lt", l[0], l[1])
            if key is None:
                return None
            cases = []
            for val in ((env[key],) if key in env else (True, False)):
                e2 = dict(env)
                e2[key] = val
                cases.append((e2, (val if (not m1 or m1.group(2) == "==") else not val)))
        for (env, got) in cases:
            rs = _lex_spec(env, same_len)
            if rs != {got}:
                return (False, "with %s the lexicographic comparison is %s but the helper returns %s" % (
                    ", ".join("%s(%s,%d)=%s" % (kk[0], kk[1], kk[2], str(vv).lower()) for kk, vv in sorted(env.items())),
                    " or ".join(sorted(str(x).lower() for x in rs)) + (" (it depends on a question the helper does not ask)" if len(rs) > 1 else ""), str(got).lower()))
    if not seen_any:
        return None
    return (True, "iterator loop over both element ranges: every complete path of a twice-unrolled range gives the lexicographic result")


def _helper_lex_ok(db, helper_qn):
    """is the two-argument helper a lexicographic comparison of its arguments' element ranges?  (True, how) | (False, why) | (None, why)"""
    fns = [f for f in db.fns(helper_qn) if len(f.get("params", [])) == 2 and f.get("body") is not None]
    if not fns:
        return (None, "no body of %s analysed" % helper_qn)
    fn = fns[0]
    u = fn["_unit"]
    a, b = fn["params"][0]["name"], fn["params"][1]["name"]
    rets = [r for r in F.walk(fn.get("body"), into_lambdas=False) if r.get("k") == "return"]
    if len(rets) == 1:
        t = T.show(T.snorm(u, fn, rets[0]["e"])).replace(" ", "")
        m = re.match(r"^lexicographical_compare\((.+)\.begin\(\),(.+)\.end\(\),(.+)\.begin\(\),(.+)\.end\(\)\)$", t)
        if m and m.group(1) == m.group(2) and m.group(3) == m.group(4) and a in m.group(1) and b in m.group(3) and b not in m.group(1) and a not in m.group(3):
            return (True, "std::lexicographical_compare over both element ranges")
    # a hand-written loop: interpret it
    cfg = sx.Config(inline_prefixes=("fcppt::optional::", "fcppt::algorithm::", "fcppt::loop::"), pure=("fcppt::math::to_array",), loop_bound=2)
    try:
        ps = sx.Interp(db, cfg).paths(fn)
    except sx.Unsupported as e:
        return (None, "outside the interpreted fragment: %s" % e)
    mm = _helper_mismatch(ps, a, b)
    if mm is not None:
        return mm
    il = _helper_iter_loop(ps, a, b, same_len=(u.ty(fn["params"][0]["t"]) == u.ty(fn["params"][1]["t"])))
    if il is not None:
        return il
    for p in ps:
        begins = {("#%d:begin" % i): sx.show(e[1][0]) for i, e in enumerate(p.events, 1) if e[0].split("<")[0].endswith("::begin") or e[0].split("<")[0].endswith("::cbegin")}

        def is_elem(txt, side, k):
            txt = txt.replace(" ", "")
            pat = "to_array(%s)" % side
            if txt in ("%s[%d]" % (pat, k), "%s[%d]" % (side, k)):
                return True
            m2 = re.match(r"^deref\(\(?(#\d+:c?begin)(?:\+(\d+)\))?\)$", txt)
            if m2 and m2.group(1) in begins and (begins[m2.group(1)] in (pat, side)) and int(m2.group(2) or 0) == k:
                return True
            return False
        k = 0
        decided = None
        for d, v in p.decisions:
            t = sx.show(d)
            if t.startswith("more("):
                continue
            m3 = re.match(r"^\((.+) (==|!=|<) (.+)\)$", t)
            if not m3:
                return (None, "decision %s is not an element comparison" % t)
            l, op, r = m3.group(1), m3.group(2), m3.group(3)
            if not any(is_elem(x, sd, j) for x in (l, r) for sd in (a, b) for j in range(0, 4)):
                return (None, "decision %s does not compare elements of the operands" % t)
            if not (is_elem(l, a, k) and is_elem(r, b, k)) and not (is_elem(l, b, k) and is_elem(r, a, k) and op != "<"):
                return (False, "step %d compares %s with %s; a lexicographic comparison compares element %d of the left operand with element %d of the right" % (k, l, r, k, k))
            equal = v if op == "==" else (not v if op == "!=" else None)
            if equal is None:
                return (None, "unexpected comparison %s" % t)
            if equal:
                k += 1
            else:
                decided = k
                break
        if p.outcome[0] != "return":
            continue
        out = sx.show(p.outcome[1]).replace(" ", "")
        if decided is None:
            if out not in ("0", "false"):
                return (False, "all compared elements are equal but the result is %s" % out)
        else:
            m4 = re.match(r"^\((.+)<(.+)\)$", out)
            if not m4 or not (is_elem(m4.group(1), a, decided) and is_elem(m4.group(2), b, decided)):
                return (False, "the first difference is at element %d but the result is %s" % (decided, out))
    return (True, "hand-written loop: first differing element decides (paths of a twice-unrolled range)")


def rule_lt_lex(rep, db):
    import itertools
    seen = set()
    for fn in db.functions:
        if fn.get("op") != "<" or len(fn.get("params", [])) != 2:
            continue
        u = fn["_unit"]
        pts = [F.strip_targs((u.ty(p_["t"]) or "").replace("const ", "").replace(" &", "")) for p_ in fn["params"]]
        if pts[0] != pts[1] or not pts[0].startswith("fcppt::") or pts[0] in seen or not u.file_of(fn["primary"]).startswith("libs/"):
            continue
        rets = [r for r in F.walk(fn.get("body"), into_lambdas=False) if r.get("k") == "return"]
        if len(rets) != 1:
            continue
        seen.add(pts[0])
        key = "%s operator<" % pts[0].replace("fcppt::", "")
        pa, pb = fn["params"][0]["id"], fn["params"][1]["id"]
        t = T.snorm(u, fn, rets[0]["e"])
        # whole-object delegation (array_less(a, b), std::less(&a, &b), (a.impl() <=> b.impl()) < 0): one component
        try:
            e = _lt_expr(t, pa, pb)
        except _NoParse as ex:
            whole = isinstance(t, tuple) and t and t[0] == "c" and len(([t[2]] if t[2] is not None else []) + list(t[3])) == 2
            if whole:
                try:
                    ops = ([t[2]] if t[2] is not None else []) + list(t[3])
                    ka, sa = _side_key(ops[0], pa, pb)
                    kb, sb = _side_key(ops[1], pa, pb)
                    if ka == kb and sa == "a" and sb == "b":
                        hq = str(t[1])
                        if hq.startswith("fcppt::"):
                            okh, how = _helper_lex_ok(db, hq)
                            if okh is False:
                                rep.fail("LT-LEX", key, F.primary_site(fn), F.describe(fn)[:160], why="operator< delegates to %s, which is not a lexicographic comparison: %s" % (hq, how))
                                continue
                            if okh is None:
                                rep.broken("C17 LT-LEX: %s delegates to %s, which is written in a form the check cannot decide (%s)" % (key, hq, how))
                                continue
                            rep.ok("LT-LEX", key, F.primary_site(fn), F.describe(fn)[:160], how="delegates(%s(a, b)): %s" % (hq.split("::")[-1], how if okh else "helper not decided"))
                            continue
                        rep.ok("LT-LEX", key, F.primary_site(fn), F.describe(fn)[:160], how="delegates(%s(a, b))" % str(t[1]).split("::")[-1])
                        continue
                    if ka == kb and sa == "b":
                        rep.fail("LT-LEX", key, F.primary_site(fn), F.describe(fn)[:160], why="delegates with the operands swapped: %s" % T.show(t))
                        continue
                except _NoParse:
                    pass
            rep.note("LT-LEX: %s is outside the accepted forms (%s); not decided" % (key, ex))
            continue
        comps = _lt_comps(e, [])
        ok_perm = None
        rows = list(itertools.product("<=>", repeat=len(comps)))
        for perm in itertools.permutations(comps):
            good = True
            for row in rows:
                rel = dict(zip(comps, row))
                want = False
                for c in perm:
                    if rel[c] != "=":
                        want = rel[c] == "<"
                        break
                if _lt_eval(e, rel) != want:
                    good = False
                    break
            if good:
                ok_perm = perm
                break
        if ok_perm is not None:
            rep.ok("LT-LEX", key, F.primary_site(fn), F.describe(fn)[:160], how="lexicographic(%s)" % ", ".join(ok_perm), detail={"rows": len(rows)})
        else:
            bad = None
            for row in rows:
                rel = dict(zip(comps, row))
                rel2 = {c: {"<": ">", ">": "<", "=": "="}[r] for c, r in rel.items()}
                if _lt_eval(e, rel) and _lt_eval(e, rel2):
                    bad = "a < b and b < a both hold when %s" % ", ".join("%s: a %s b" % (c, r) for c, r in rel.items())
                    break
            rep.fail("LT-LEX", key, F.primary_site(fn), F.describe(fn)[:160],
                     why="operator< is not the lexicographic order of its components (%s) in any order%s" % (", ".join(comps), ("; " + bad) if bad else ""))



# accessors that are not plain field getters but determine the value together with the other compared components
INJECTIVE_VIEWS = {
    "fcppt::math::box::object": {"size": "size() = max - pos: given pos it determines max", "pos": "", "max": ""},
}


def rule_eq_form(rep, db, acc=None):
    """operator== of a value type is the CONJUNCTION of its component equalities: truth table over the component-equality
    atoms (and any other atom the expression consults, treated as free)"""
    import itertools
    seen = set()
    for fn in db.functions:
        if fn.get("op") != "==" or len(fn.get("params", [])) != 2:
            continue
        u = fn["_unit"]
        pts = [F.strip_targs((u.ty(p_["t"]) or "").replace("const ", "").replace(" &", "")) for p_ in fn["params"]]
        if pts[0] != pts[1] or pts[0] not in EQ_TYPES or pts[0] in seen or not u.file_of(fn["primary"]).startswith("libs/"):
            continue
        rets = [r for r in F.walk(fn.get("body"), into_lambdas=False) if r.get("k") == "return"]
        if len(rets) != 1:
            continue
        seen.add(pts[0])
        pa, pb = fn["params"][0]["id"], fn["params"][1]["id"]
        key = "%s operator==" % pts[0].replace("fcppt::", "")
        atoms = {}

        def leaf(t):
            """('E', name) for a component equality, ('N', name) for a component inequality, ('F', text) otherwise"""
            op = l = r = None
            if isinstance(t, tuple) and t and t[0] == "b" and t[1] in ("==", "!="):
                op, l, r = t[1], t[2], t[3]
            elif isinstance(t, tuple) and t and t[0] == "c" and isinstance(t[1], str):
                short = t[1].split("::")[-1]
                ops = ([t[2]] if t[2] is not None else []) + list(t[3])
                if short in ("operator==", "operator!=") and len(ops) == 2:
                    op, l, r = short[8:], ops[0], ops[1]
                elif short == "equal" and len(ops) in (3, 4):
                    try:
                        ka, sa = _side_key(ops[0], pa, pb)
                        kb, sb = _side_key(ops[2], pa, pb)
                        if ka == kb and sa != sb:
                            return ("E", "elements[%s]" % ka)
                    except _NoParse:
                        pass
                elif len(ops) == 2:
                    try:
                        ka, sa = _side_key(ops[0], pa, pb)
                        kb, sb = _side_key(ops[1], pa, pb)
                        if ka == kb and sa != sb and ka == "@":
                            return ("E", "whole[%s]" % short)
                    except _NoParse:
                        pass
            if op is not None:
                try:
                    ka, sa = _side_key(l, pa, pb)
                    kb, sb = _side_key(r, pa, pb)
                    if ka == kb and sa != sb:
                        m_ = re.match(r"^@\.(\w+)\(\)$", ka)
                        if m_ and acc is not None:
                            meth = m_.group(1)
                            if ("%s::%s" % (pts[0], meth)) not in acc and meth not in INJECTIVE_VIEWS.get(pts[0], {}) and \
                                    meth not in ("get", "impl", "begin", "end", "storage", "std_ptr", "array", "value", "children"):
                                # a derived quantity (e.g. a cell count): equality of it is a condition, not a component equality
                                return ("F", "%s equal" % ka)
                        return ("E" if op == "==" else "N", ka)
                except _NoParse:
                    pass
            return ("F", T.show(t))

        def ev(t, val):
            if isinstance(t, tuple) and t and t[0] == "b" and t[1] in ("&&", "||"):
                a = ev(t[2], val)
                if (t[1] == "&&") != a:
                    return a
                return ev(t[3], val)
            if isinstance(t, tuple) and t and t[0] == "u" and t[1] == "!":
                return not ev(t[2], val)
            if isinstance(t, tuple) and t and t[0] == "cond":
                return ev(t[2], val) if ev(t[1], val) else ev(t[3], val)
            kind, name = leaf(t)
            if kind == "N":
                return not val[("E", name)]
            return val[(kind, name)]

        def collect(t):
            if isinstance(t, tuple) and t and ((t[0] == "b" and t[1] in ("&&", "||")) or (t[0] == "u" and t[1] == "!") or t[0] == "cond"):
                for x in t[1:]:
                    if isinstance(x, tuple):
                        collect(x)
                return
            kind, name = leaf(t)
            atoms[("E" if kind == "N" else kind, name)] = True
        t = T.snorm(u, fn, rets[0]["e"])
        collect(t)
        es = [a for a in atoms if a[0] == "E"]
        fs = [a for a in atoms if a[0] == "F"]
        if not es or len(atoms) > 8:
            rep.note("EQ-FORM: %s is outside the accepted forms (%s); not decided" % (key, T.show(t)[:120]))
            continue
        why = None
        order = es + fs
        for row in itertools.product((True, False), repeat=len(order)):
            val = dict(zip(order, row))
            want = all(val[e] for e in es)
            if ev(t, val) != want:
                why = "with %s the result is %s; equality must hold exactly when every component compares equal" % (
                    ", ".join("%s %s" % (n, ("equal" if v else "different") if k == "E" else ("true" if v else "false")) for (k, n), v in val.items()), ev(t, val))
                break
        (rep.fail if why else rep.ok)("EQ-FORM", key, F.primary_site(fn), F.describe(fn)[:160], **({"why": why} if why else {"how": "conjunction(%s)" % ", ".join(n for k, n in es)}))


def _anon(t, ren):
    """term with variables identified by their canonical (positional) name only, optionally renamed: comparable across functions"""
    if isinstance(t, tuple):
        if len(t) == 3 and t[0] == "v":
            return ("v", ren.get(t[2], t[2]))
        return tuple(_anon(x, ren) for x in t)
    return t


_NEG_OP = {"==": "!=", "!=": "==", "<": ">=", ">=": "<", ">": "<=", "<=": ">"}


def _nnf(t, negate):
    """negation normal form of a boolean term: negations pushed through &&, ||, ?: and BUILT-IN comparisons (an overloaded
    operator call is an atom: its negation stays a negation)"""
    if isinstance(t, tuple) and t:
        if t[0] == "u" and t[1] == "!":
            return _nnf(t[2], not negate)
        if t[0] == "b" and t[1] in ("&&", "||"):
            o = t[1] if not negate else ("||" if t[1] == "&&" else "&&")
            return ("b", o, _nnf(t[2], negate), _nnf(t[3], negate))
        if t[0] == "cond":
            return ("cond", _nnf(t[1], False), _nnf(t[2], negate), _nnf(t[3], negate))
        if t[0] == "b" and t[1] in ("==", "!=") and negate:
            return ("b", _NEG_OP[t[1]], t[2], t[3])
        if t in (("k", "1"), ("k", "true")):
            return ("k", "0") if negate else ("k", "1")
        if t in (("k", "0"), ("k", "false")):
            return ("k", "1") if negate else ("k", "0")
    return ("u", "!", t) if negate else t


def rule_eq_all(rep, db):
    seen = set()
    for fn in db.fns("fcppt::math::detail::array_equal"):
        ta = tuple(fn.get("targs") or [])
        if ta in seen or not ta:
            continue
        seen.add(ta)
        u = fn["_unit"]
        key = "array_equal<%s>" % re.sub(r"fcppt::math::(detail::)?", "", ta[0])[:70]
        m = re.search(r"static_storage<[^<>]*(?:<[^<>]*>)?[^<>]*,\s*(\d+)\s*>", ta[0])
        if not m:
            rep.broken("C17 EQ-ALL %s: the storage size cannot be read from the operand type" % key)
            continue
        n = int(m.group(1))
        lams = [T.resolve_lambda(u, fn, c["args"][1]) for c in F.walk(fn.get("body"), into_lambdas=False)
                if c.get("k") == "call" and (T.callee_qn(u, c) or "") in ("fcppt::algorithm::all_of", "fcppt::algorithm::loop_break", "fcppt::algorithm::loop") and len(c.get("args", [])) == 2]
        lams = [l for l in lams if l is not None]
        if len(lams) != 1:
            rep.broken("C17 EQ-ALL %s at %s: the element comparison is not a closure handed to algorithm::all_of; this form is not followed" % (key, F.primary_site(fn)))
            continue
        try:
            idx = sorted(int(str((o.get("targs") or ["x"])[0]).rstrip("uUlL")) for o in lams[0].get("ops", []))
        except ValueError:
            rep.broken("C17 EQ-ALL %s: element comparison instantiated without an index" % key)
            continue
        ok = idx == list(range(n))
        (rep.ok if ok else rep.fail)("EQ-ALL", key, F.primary_site(fn), F.describe(fn)[:140],
                                     **({"how": "indices 0..%d" % (n - 1)} if ok else
                                        {"why": "the storage holds %d elements but the element comparison is instantiated for the indices %s: elements beyond them never take part in ==, while the hash covers them" % (n, idx)}))


def main(rep, tier, only):
    db = load.load(tier, lib=False, drivers=["drv_compare", "drv_oev"], tests=False)
    rep.extra.update(db.stats())
    rep.rule("ST-MIRROR", "strong_typedef operators apply the operator in their name to .get() of the operands in order", floor=20)
    rep.rule("DERIVED", "!=, >, <=, >= are derived from == / < in an accepted form", floor=15)
    rep.rule("EQ-COVER", "operator== reads every value component of the type on both operands", floor=10)
    rep.rule("EQ-ALL", "math::detail::array_equal (== of vector, dim, matrix) compares every element of the STORAGE: one instantiation of the "
                       "element comparison per storage index 0 .. N-1, N being the size of the static storage (rows x columns for a matrix)", floor=3)
    rep.rule("LT-COVER", "operator< reads the same component set as == on both operands", floor=4)
    rep.rule("EQ-FORM", "operator== of every value type is exactly the conjunction of its component equalities (truth table over the component "
                        "atoms; any other condition the expression consults is a free atom and must not change the result)", floor=8)
    rep.rule("LT-LEX", "operator< of every fcppt value type is a lexicographic order of its components (some fixed order; truth table over "
                       "the 3^k relations of the components), or a whole-object delegation with the operands in order", floor=6)
    rep.rule("HASH-COH", "hash reads only (and at least one of) the components == compares", floor=4)
    rep.rule("OE-TABLE", "decision tables of optional ==, <, either ==", floor=3)
    acc = accessor_map(db)
    rule_lt_lex(rep, db)
    rule_eq_all(rep, db)
    rule_eq_form(rep, db, acc)
    # ------------------------------------------------------------------ strong_typedef mirror
    seen = set()
    for fn in db.functions:
        u = fn["_unit"]
        name = F.fn_name(fn)
        if not name.startswith("fcppt::operator") or not fn.get("op"):
            continue
        params = fn.get("params", [])
        pts = [u.ty(p["t"]) or "" for p in params]
        if not pts or not all("fcppt::strong_typedef<" in t or t == "int" for t in pts) or "fcppt::strong_typedef<" not in pts[0]:
            continue
        op = fn["op"]
        arity = len([t for t in pts if "strong_typedef" in t])
        key = "operator%s/%d%s" % (op, arity, "(int)" if "int" in pts else "")
        if key in seen:
            continue
        seen.add(key)
        nodes = [n for n in F.walk(fn.get("body"), into_lambdas=False)]
        why = None
        lget = ("c", "fcppt::strong_typedef::get", ("v", params[0]["id"], params[0]["name"]), (), ())
        rget = ("c", "fcppt::strong_typedef::get", ("v", params[1]["id"], params[1]["name"]), (), ()) if arity == 2 else None
        if arity == 2 and not op.endswith("=") or op in ("==", "<=", ">=", "!="):
            b = [n for n in nodes if n.get("k") == "binop" or (n.get("k") == "call" and n.get("opcall"))]
            found = False
            for n in b:
                if n.get("k") == "binop":
                    o, l, r = n["op"], T.norm(u, n["l"]), T.norm(u, n["r"])
                else:
                    o = n["opcall"]
                    ops_ = ([n["recv"]] if n.get("recv") is not None else []) + n.get("args", [])
                    if len(ops_) != 2:
                        continue
                    l, r = T.norm(u, ops_[0]), T.norm(u, ops_[1])
                if l == lget and r == rget:
                    found = True
                    if o != op:
                        why = "operator%s applies %s to the wrapped values" % (op, o)
                elif l == rget and r == lget:
                    found = True
                    why = "operands are swapped"
            if not found:
                why = why or "no application of an operator to _left.get(), _right.get() found"
        elif arity == 2:
            ca = [n for n in nodes if n.get("k") == "compound_assign" or (n.get("k") == "call" and n.get("opcall", "").endswith("="))]
            ok = False
            for n in ca:
                if n.get("k") == "compound_assign":
                    o, l, r = n["op"], T.norm(u, n["l"]), T.norm(u, n["r"])
                else:
                    o = n["opcall"]
                    l, r = T.norm(u, n.get("recv")), T.norm(u, (n.get("args") or [None])[0])
                if l == lget and r == rget:
                    ok = o == op
                    if not ok:
                        why = "operator%s applies %s" % (op, o)
            rets = [T.norm(u, r_["e"]) for r_ in nodes if r_.get("k") == "return"]
            if not ca:
                why = "no assigning operator applied to _left.get(), _right.get()"
            elif ok and rets != [("v", params[0]["id"], params[0]["name"])]:
                why = "the assigning form does not return its left operand"
        else:
            un = [n for n in nodes if n.get("k") == "unop" or (n.get("k") == "call" and n.get("opcall") and not n.get("args"))]
            okk = False
            for n in un:
                o = n.get("op") or n.get("opcall")
                e = T.norm(u, n.get("e") if n.get("k") == "unop" else n.get("recv"))
                if e == lget and o == op:
                    okk = True
            # post-increment delegates to pre-increment on the same object
            if not okk and "int" in pts:
                okk = any(n.get("k") == "call" and n.get("opcall") == op for n in nodes)
            if not okk:
                why = "unary operator%s is not applied to _value.get()" % op
        (rep.fail if why else rep.ok)("ST-MIRROR", key, F.primary_site(fn), F.describe(fn)[:140], **({"why": why} if why else {"how": "mirrors " + op}))
    # ------------------------------------------------------------------ derived operators
    seen = set()
    for fn in db.functions:
        u = fn["_unit"]
        op = fn.get("op")
        if op not in ("!=", ">", "<=", ">=") or not u.file_of(fn["primary"]).startswith("libs/"):
            continue
        params = fn.get("params", [])
        if len(params) != 2:
            continue
        pts = [F.strip_targs((u.ty(p["t"]) or "").replace("const ", "").replace(" &", "")) for p in params]
        if "fcppt::strong_typedef" in pts[0]:
            continue   # mirrored above
        site = F.primary_site(fn)
        if site in seen:
            continue
        seen.add(site)
        rets = [r for r in F.walk(fn.get("body"), into_lambdas=False) if r.get("k") == "return"]
        t = T.snorm(u, fn, rets[0]["e"]) if len(rets) == 1 else None
        a = ("v", params[0]["id"], params[0]["name"])
        b = ("v", params[1]["id"], params[1]["name"])

        def is_op(term, o, x, y):
            if not isinstance(term, tuple):
                return False
            if term[0] == "b" and term[1] == o and strip_copy(term[2]) == x and strip_copy(term[3]) == y:
                return True
            if term[0] == "c" and str(term[1]).endswith("operator" + o):
                ops_ = ([term[2]] if term[2] is not None else []) + list(term[3])
                return len(ops_) == 2 and strip_copy(ops_[0]) == x and strip_copy(ops_[1]) == y
            return False

        def strip_copy(x):
            while isinstance(x, tuple) and x[0] == "new" and len(x[2]) == 1:
                x = x[2][0]
            return x

        def neg(term):
            return term[2] if isinstance(term, tuple) and term[0] == "u" and term[1] == "!" else None
        ok = False
        how = ""
        if t is not None:
            if op == "!=":
                ok = bool(neg(t) is not None and is_op(neg(t), "==", a, b))
                how = "!(a == b)"
                if not ok and mirrors_components(t, "!=", a, b):
                    ok, how = True, "mirrored underlying !="
                if not ok and neg(t) is not None and mirrors_components(neg(t), "==", a, b):
                    ok, how = True, "!(component == component)"
            elif op == ">":
                ok = is_op(t, "<", b, a)
                how = "b < a"
                if not ok and mirrors_components(t, ">", a, b):
                    ok, how = True, "mirrored underlying >"
            elif op == "<=":
                ok = bool(neg(t) is not None and (is_op(neg(t), "<", b, a) or is_op(neg(t), ">", a, b)))
                how = "!(b < a)"
                if not ok and mirrors_components(t, "<=", a, b):
                    ok, how = True, "mirrored underlying <="
            elif op == ">=":
                ok = bool(neg(t) is not None and is_op(neg(t), "<", a, b))
                how = "!(a < b)"
                if not ok and mirrors_components(t, ">=", a, b):
                    ok, how = True, "mirrored underlying >="
        if not ok:
            # the base operator written out in place: the term is the (negated / operand-swapped) RESULT of the sibling == / <
            # of the same operand types, compared in negation normal form
            base_op, negate, swap = {"!=": ("==", True, False), ">": ("<", False, True), "<=": ("<", True, True), ">=": ("<", True, False)}[op]
            sib = [g for g in db.functions if g.get("op") == base_op and len(g.get("params", [])) == 2 and g["_unit"] is u
                   and [F.strip_targs((u.ty(p["t"]) or "").replace("const ", "").replace(" &", "")) for p in g["params"]] == pts
                   and u.file_of(g["primary"]) == u.file_of(fn["primary"])]
            t_self = T.return_term(u, fn)
            t_sib = T.return_term(u, sib[0]) if sib else None
            if t_self is not None and t_sib is not None:
                lhs = _nnf(_anon(t_self, {}), negate)
                rhs = _nnf(_anon(t_sib, {"r_a0": "r_a1", "r_a1": "r_a0"} if swap else {}), False)
                if lhs == rhs:
                    ok, how = True, "operator%s written out: %s of the sibling operator%s%s" % (op, "the negation" if negate else "the result", base_op, " with the operands exchanged" if swap else "")
        key = "%s operator%s" % (pts[0].replace("fcppt::", ""), op)
        (rep.ok if ok else rep.fail)("DERIVED", key, site, F.describe(fn)[:140],
                                     **({"how": how} if ok else {"why": "operator%s is `%s`; accepted forms: %s or the same operator mirrored on the operands' components" % (op, T.show(t) if t else "?", how)}))
    # ------------------------------------------------------------------ EQ / LT coverage, hash coherence
    eq_comps = {}
    for tname, want in EQ_TYPES.items():
        fields = record_fields(db, tname)
        if fields is None:
            rep.broken("C17: record %s not found" % tname)
            continue
        extra = [f for f in fields if f not in want and f not in NOT_VALUE.get(tname, {})]
        missing_decl = [f for f in want if f not in fields]
        if extra or missing_decl:
            rep.fail("EQ-COVER", tname + "|fields", tname, tname,
                     why="the type's data members changed: %s not in the component table / %s vanished" % (extra, missing_decl))
            continue
        for opname, rid in (("==", "EQ-COVER"), ("<", "LT-COVER")):
            cands = []
            for fn in db.functions:
                if fn.get("op") != opname or len(fn.get("params", [])) != 2:
                    continue
                u = fn["_unit"]
                pts = [F.strip_targs((u.ty(p["t"]) or "").replace("const ", "").replace(" &", "")) for p in fn["params"]]
                if pts[0] == tname and pts[1] == tname:
                    cands.append(fn)
            if not cands:
                if opname == "==":
                    rep.broken("C17: no operator== for %s analysed" % tname)
                continue
            fn = cands[0]
            u = fn["_unit"]
            ca = components(db, u, fn, fn["params"][0], acc)
            cb = components(db, u, fn, fn["params"][1], acc)
            fa = set(c for c in ca if not c.startswith("@"))
            fb = set(c for c in cb if not c.startswith("@"))
            key = "%s operator%s" % (tname.replace("fcppt::", ""), opname)
            if opname == "==":
                eq_comps[tname] = fa & fb
            if set(want) <= fa and set(want) <= fb:
                rep.ok(rid, key, F.primary_site(fn), F.describe(fn)[:140], how="reads " + ",".join(sorted(want)))
            else:
                rep.fail(rid, key, F.primary_site(fn), F.describe(fn)[:140],
                         why="left operand reads %s, right operand reads %s; every value component %s must be read on both" % (sorted(ca), sorted(cb), want))
    HASHES = {"fcppt::container::bitfield::hash::operator()": "fcppt::container::bitfield::object",
              "fcppt::strong_typedef_hash::operator()": "fcppt::strong_typedef",
              "fcppt::math::detail::hash": None, "fcppt::reference_hash::operator()": "fcppt::reference"}
    seen = set()
    for fn in db.functions:
        nm = F.fn_name(fn)
        if not (nm.endswith("hash::operator()") or nm in HASHES) or not fn["_unit"].file_of(fn["primary"]).startswith("libs/") or not fn.get("params"):
            continue
        u = fn["_unit"]
        pt = F.strip_targs((u.ty(fn["params"][0]["t"]) or "").replace("const ", "").replace(" &", ""))
        if pt not in EQ_TYPES or (nm, pt) in seen:
            continue
        seen.add((nm, pt))
        comps = components(db, u, fn, fn["params"][0], acc)
        fields = set(c for c in comps if not c.startswith("@"))
        key = "%s (%s)" % (nm.replace("fcppt::", ""), pt.replace("fcppt::", ""))
        eqc = eq_comps.get(pt, set(EQ_TYPES[pt]))
        if not fields and comps == {"@range"} and len(EQ_TYPES[pt]) == 1:
            fields = set(EQ_TYPES[pt])   # iterating the whole object reads its single storage member
        if fields and fields <= eqc:
            rep.ok("HASH-COH", key, F.primary_site(fn), F.describe(fn)[:140], how="hashes " + ",".join(sorted(fields)))
        else:
            rep.fail("HASH-COH", key, F.primary_site(fn), F.describe(fn)[:140],
                     why="hash reads %s, == compares %s: equal values could hash differently (or nothing is hashed)" % (sorted(comps), sorted(eqc)))
    # ------------------------------------------------------------------ optional / either tables
    cfg = sx.Config(inline_prefixes=("fcppt::cond",))
    for qn, kind in (("fcppt::optional::operator==", "opt=="), ("fcppt::optional::operator<", "opt<"), ("fcppt::either::operator==", "eith==")):
        fns = db.fns(qn)
        if not fns:
            rep.broken("C17: %s not instantiated" % qn)
            continue
        fn = fns[0]
        try:
            ps = sx.Interp(db, cfg).paths(fn)
        except sx.Unsupported as e:
            rep.broken("C17: %s outside fragment: %s" % (qn, e))
            continue
        bad = None
        rows = 0
        for p in ps:
            dec = {sx.show(a): b for a, b in p.decisions}
            out = sx.show(p.outcome[1])
            if kind.startswith("opt"):
                ha, hb = dec.get("has_value(r_a0)"), dec.get("has_value(r_a1)")
                rows += 1
                o = "==" if kind == "opt==" else "<"
                if ha and hb:
                    want = "(some_payload(r_a0) %s some_payload(r_a1))" % o
                    if out.replace("operator", "") not in (want,) and not ("some_payload(r_a0)" in out and "some_payload(r_a1)" in out and o in out and out.find("r_a0") < out.find("r_a1")):
                        bad = "both engaged: result %s, expected payload(a) %s payload(b)" % (out, o)
                else:
                    # result is has_value(a) o has_value(b) under the decided tags
                    va = bool(ha)
                    vb = bool(hb) if hb is not None else None
                    if vb is None:
                        # b undecided: the result must still be the comparison of the tags
                        if "has_value(r_a1)" not in out and out not in ("true", "false"):
                            bad = "tags not compared: %s" % out
                        continue
                    want = (va == vb) if o == "==" else (va < vb)
                    ev = out.replace("has_value(r_a0)", str(va)).replace("has_value(r_a1)", str(vb)).replace("true", "True").replace("false", "False")
                    try:
                        got = bool(eval(ev, {"__builtins__": {}}, {})) if re.fullmatch(r"[\(\)TrueFals =<!]+", ev) else None
                    except Exception:
                        got = None
                    if got is None or got != want:
                        bad = "tags (%s,%s): result %s, expected %s" % (va, vb, out, want)
            else:
                sa, sb = dec.get("has_success(r_a0)"), dec.get("has_success(r_a1)")
                rows += 1
                if sa and sb:
                    txt = out
                    if out.startswith("#"):
                        e = p.events[int(out[1:].split(":")[0]) - 1]
                        txt = sx.show_event(e)
                    if not ("success_payload(r_a0)" in txt and "success_payload(r_a1)" in txt and "==" in txt):
                        bad = "both successes: result %s" % txt
                elif sa is False and sb is False:
                    eqd = [(k_, v_) for k_, v_ in dec.items() if "failure_payload(r_a0)" in k_ and "failure_payload(r_a1)" in k_ and "==" in k_]
                    if eqd:
                        if out != ("true" if eqd[0][1] else "false"):
                            bad = "both failures: result %s although failure payloads compare %s" % (out, eqd[0][1])
                    elif not ("failure_payload(r_a0)" in out and "failure_payload(r_a1)" in out and "==" in out):
                        bad = "both failures: result %s does not compare the failure payloads" % out
                elif sa is not None and sb is not None:
                    if out != "false":
                        bad = "different alternatives compare %s" % out
        key = qn.replace("fcppt::", "")
        if bad or rows < 3:
            rep.fail("OE-TABLE", key, F.primary_site(fn), F.describe(fn)[:140], why=bad or "table has only %d rows" % rows, detail={"paths": [p.show() for p in ps]})
        else:
            rep.ok("OE-TABLE", key, F.primary_site(fn), F.describe(fn)[:140], how="%d rows" % rows)
    rep.explanation = ("Mirror / derived-form / component-coverage rules over the type-resolved AST of the comparison and hash "
                       "operators instantiated in drv_compare, plus decision tables for optional and either. Structural "
                       "conditions under which ==, != , < and hash are mutually coherent for all values.")
    rep.trusted = ["component types' own ==, < are equivalences / strict weak orders", "std::equal / lexicographical_compare / std::pair comparison semantics",
                   "the component table EQ_TYPES (checked against the records' declared fields on every run)"]


def mirrors_components(t, op, a, b):
    """t applies `op` to the same component of a and b (e.g. a.get() > b.get(), a.impl() != b.impl())"""
    if not isinstance(t, tuple):
        return False
    if t[0] == "b" and t[1] == op:
        l, r = t[2], t[3]
    elif t[0] == "c" and str(t[1]).endswith("operator" + op):
        ops_ = ([t[2]] if t[2] is not None else []) + list(t[3])
        if len(ops_) != 2:
            return False
        l, r = ops_
    else:
        return False

    def shape(x, root):
        if x == root:
            return "R"
        if isinstance(x, tuple):
            return tuple(shape(y, root) if isinstance(y, tuple) else y for y in x)
        return x
    return T.roots(l) == {a[1]} and T.roots(r) == {b[1]} and shape(l, a) == shape(r, b)
