// Instantiation driver: fcppt::math vector / dim / matrix over exact scalars (C14).
// Parsed only; never linked or run.
#include "drv.hpp"
#include <fcppt/cast/size_fun.hpp>
#include <fcppt/cast/static_cast_fun.hpp>
#include <fcppt/math/size_type.hpp>
#include <fcppt/math/static_size.hpp>
#include <fcppt/math/dim/arithmetic.hpp>
#include <fcppt/math/dim/comparison.hpp>
#include <fcppt/math/dim/contents.hpp>
#include <fcppt/math/dim/fill.hpp>
#include <fcppt/math/dim/init.hpp>
#include <fcppt/math/dim/narrow_cast.hpp>
#include <fcppt/math/dim/null.hpp>
#include <fcppt/math/dim/push_back.hpp>
#include <fcppt/math/dim/static.hpp>
#include <fcppt/math/dim/structure_cast.hpp>
#include <fcppt/math/dim/to_vector.hpp>
#include <fcppt/math/matrix/adjugate.hpp>
#include <fcppt/math/matrix/arithmetic.hpp>
#include <fcppt/math/matrix/at_r.hpp>
#include <fcppt/math/matrix/at_r_c.hpp>
#include <fcppt/math/matrix/comparison.hpp>
#include <fcppt/math/matrix/delete_row_and_column.hpp>
#include <fcppt/math/matrix/determinant.hpp>
#include <fcppt/math/matrix/identity.hpp>
#include <fcppt/math/matrix/init.hpp>
#include <fcppt/math/matrix/row.hpp>
#include <fcppt/math/matrix/scaling.hpp>
#include <fcppt/math/matrix/static.hpp>
#include <fcppt/math/matrix/structure_cast.hpp>
#include <fcppt/math/matrix/translation.hpp>
#include <fcppt/math/matrix/transpose.hpp>
#include <fcppt/math/matrix/vector.hpp>
#include <fcppt/math/vector/arithmetic.hpp>
#include <fcppt/math/vector/at.hpp>
#include <fcppt/math/vector/bit_strings.hpp>
#include <fcppt/math/vector/comparison.hpp>
#include <fcppt/math/vector/cross.hpp>
#include <fcppt/math/vector/dot.hpp>
#include <fcppt/math/vector/fill.hpp>
#include <fcppt/math/vector/init.hpp>
#include <fcppt/math/vector/length_square.hpp>
#include <fcppt/math/vector/narrow_cast.hpp>
#include <fcppt/math/vector/null.hpp>
#include <fcppt/math/vector/push_back.hpp>
#include <fcppt/math/vector/static.hpp>
#include <fcppt/math/vector/structure_cast.hpp>
#include <fcppt/math/vector/to_dim.hpp>
#include <fcppt/math/dim/at.hpp>
#include <utility>

namespace
{
using fcppt::math::size_type;
using scalar = int;
using wide = long;

template <size_type N>
void vector_ops()
{
  namespace v = fcppt::math::vector;
  using vec = v::static_<scalar, N>;
  vec const &a{drv::clv<vec>()};
  vec const &b{drv::clv<vec>()};
  scalar const &s{drv::clv<scalar>()};
  (void)(a + b);
  (void)(a - b);
  (void)(a * b);
  (void)(-a);
  (void)(a * s);
  (void)(s * a);
  (void)v::dot(a, b);
  (void)v::length_square(a);
  (void)v::null<vec>();
  (void)v::fill<vec>(s);
  (void)v::template structure_cast<v::static_<wide, N>, fcppt::cast::size_fun>(a);
  (void)v::push_back(a, s);
  (void)v::to_dim(a);
  (void)(a == b);
  (void)(a != b);
  (void)(a < b);
  vec &m{drv::lv<vec>()};
  m += b;
  m -= b;
  m *= b;
  m *= s;
  if constexpr (N > 1)
  {
    (void)v::template narrow_cast<v::static_<scalar, N - 1>>(a);
  }
}

template <size_type N>
void dim_ops()
{
  namespace d = fcppt::math::dim;
  using dm = d::static_<scalar, N>;
  dm const &a{drv::clv<dm>()};
  dm const &b{drv::clv<dm>()};
  scalar const &s{drv::clv<scalar>()};
  (void)(a + b);
  (void)(a - b);
  (void)(a * b);
  (void)(a * s);
  (void)(s * a);
  (void)d::null<dm>();
  (void)d::fill<dm>(s);
  (void)d::contents(a);
  (void)d::template structure_cast<d::static_<wide, N>, fcppt::cast::size_fun>(a);
  (void)d::push_back(a, s);
  (void)d::to_vector(a);
  (void)(a == b);
  (void)(a != b);
  (void)(a < b);
  dm &m{drv::lv<dm>()};
  m += b;
  m -= b;
  m *= b;
  m *= s;
  if constexpr (N > 1)
  {
    (void)d::template narrow_cast<d::static_<scalar, N - 1>>(a);
  }
}

template <size_type R, size_type C>
void matrix_ops()
{
  namespace mx = fcppt::math::matrix;
  using mat = mx::static_<scalar, R, C>;
  mat const &a{drv::clv<mat>()};
  mat const &b{drv::clv<mat>()};
  scalar const &s{drv::clv<scalar>()};
  (void)(a + b);
  (void)(a - b);
  (void)(a * s);
  (void)(s * a);
  (void)mx::transpose(a);
  (void)(a * drv::clv<fcppt::math::vector::static_<scalar, C>>());
  (void)mx::template structure_cast<mx::static_<wide, R, C>, fcppt::cast::size_fun>(a);
  (void)(a == b);
  (void)(a != b);
  (void)mx::template at_r<R - 1>(a);
  (void)mx::template at_r_c<R - 1, C - 1>(a);
  mat &m{drv::lv<mat>()};
  m += b;
  m -= b;
  m *= s;
}

template <size_type M1, size_type N, size_type M2>
void matrix_product()
{
  namespace mx = fcppt::math::matrix;
  (void)(drv::clv<mx::static_<scalar, M1, N>>() * drv::clv<mx::static_<scalar, N, M2>>());
}

template <size_type N>
void square_ops()
{
  namespace mx = fcppt::math::matrix;
  using mat = mx::static_<scalar, N, N>;
  mat const &a{drv::clv<mat>()};
  (void)mx::determinant(a);
  (void)mx::identity<mat>();
  if constexpr (N > 1)
  {
    (void)mx::adjugate(a);
    (void)mx::template delete_row_and_column<0, 0>(a);
    (void)mx::template delete_row_and_column<N - 1, 0>(a);
    (void)mx::template delete_row_and_column<0, N - 1>(a);
    (void)mx::template delete_row_and_column<N - 1, N - 1>(a);
  }
}

// a view storage (same shape as the one in test/math/vector/view_storage.cpp): elements live in caller-owned memory
template <typename T, size_type N>
class view_storage
{
public:
  using value_type = T;
  using size_type = fcppt::math::size_type;
  using storage_size = fcppt::math::static_size<N>;
  using pointer = value_type *;
  using reference = value_type &;
  using const_reference = value_type const &;
  explicit view_storage(pointer const _data) : data_(_data) {}
  reference operator[](size_type const _index) { return data_[_index]; }
  const_reference operator[](size_type const _index) const { return data_[_index]; }

private:
  pointer data_;
};

template <size_type R, size_type C>
void cross_storage_matrix()
{
  namespace mx = fcppt::math::matrix;
  using static_mat = mx::static_<scalar, R, C>;
  using view_mat = mx::object<scalar, R, C, view_storage<scalar, R * C>>;
  static_mat &s{drv::lv<static_mat>()};
  view_mat &v{drv::lv<view_mat>()};
  s = drv::clv<view_mat>();
  v = drv::clv<static_mat>();
}

template <size_type N>
void cross_storage_vector()
{
  namespace vx = fcppt::math::vector;
  namespace dx = fcppt::math::dim;
  using static_vec = vx::static_<scalar, N>;
  using view_vec = vx::object<scalar, N, view_storage<scalar, N>>;
  static_vec &s{drv::lv<static_vec>()};
  view_vec &v{drv::lv<view_vec>()};
  s = drv::clv<view_vec>();
  v = drv::clv<static_vec>();
  using static_dim = dx::static_<scalar, N>;
  using view_dim = dx::object<scalar, N, view_storage<scalar, N>>;
  static_dim &sd{drv::lv<static_dim>()};
  view_dim &vd{drv::lv<view_dim>()};
  sd = drv::clv<view_dim>();
  vd = drv::clv<static_dim>();
}

template <size_type R, size_type C>
auto scenario_convert_matrix(
    fcppt::math::matrix::object<scalar, R, C, view_storage<scalar, R * C>> const &_m)
{
  return fcppt::math::matrix::static_<scalar, R, C>{_m};
}

template <size_type N>
auto scenario_convert_vector(fcppt::math::vector::object<scalar, N, view_storage<scalar, N>> const &_v)
{
  return fcppt::math::vector::static_<scalar, N>{_v};
}

// mixed scalar types: the operand type is narrower than the type of the product
using narrow = signed char;

template <size_type R, size_type C>
void mixed_matrix()
{
  namespace mx = fcppt::math::matrix;
  namespace vx = fcppt::math::vector;
  mx::static_<narrow, R, C> const &a{drv::clv<mx::static_<narrow, R, C>>()};
  (void)(a * drv::clv<vx::static_<scalar, C>>());
  (void)(a * drv::clv<mx::static_<scalar, C, R>>());
  (void)(drv::clv<mx::static_<scalar, C, R>>() * a);
  (void)(a + drv::clv<mx::static_<scalar, R, C>>());
  (void)(a - drv::clv<mx::static_<scalar, R, C>>());
  (void)(a * drv::clv<scalar>());
  (void)(drv::clv<scalar>() * a);
}

template <size_type N>
void mixed_vector()
{
  namespace vx = fcppt::math::vector;
  namespace dx = fcppt::math::dim;
  vx::static_<narrow, N> const &a{drv::clv<vx::static_<narrow, N>>()};
  vx::static_<scalar, N> const &b{drv::clv<vx::static_<scalar, N>>()};
  (void)(a + b);
  (void)(b - a);
  (void)(a * b);
  (void)(a * drv::clv<scalar>());
  (void)(drv::clv<scalar>() * a);
  dx::static_<narrow, N> const &c{drv::clv<dx::static_<narrow, N>>()};
  dx::static_<scalar, N> const &d{drv::clv<dx::static_<scalar, N>>()};
  (void)(c + d);
  (void)(d - c);
  (void)(c * d);
  (void)(c * drv::clv<scalar>());
  (void)(drv::clv<scalar>() * c);
}

// every element accessor of a shape (the reader side of the storage layout)
template <size_type R, size_type C, size_type... Is>
void all_at_r_c(std::integer_sequence<size_type, Is...>)
{
  namespace mx = fcppt::math::matrix;
  using mat = mx::static_<scalar, R, C>;
  mat const &a{drv::clv<mat>()};
  ((void)mx::template at_r_c<Is / C, Is % C>(a), ...);
  mat &m{drv::lv<mat>()};
  ((void)mx::template at_r_c<Is / C, Is % C>(m), ...);
}

template <size_type R, size_type C>
void shape()
{
  all_at_r_c<R, C>(std::make_integer_sequence<size_type, R * C>{});
}

template <size_type R>
void shapes_row()
{
  shape<R, 1>();
  shape<R, 2>();
  shape<R, 3>();
  shape<R, 4>();
}

template <size_type N, size_type... Is>
void all_at(std::integer_sequence<size_type, Is...>)
{
  using vec = fcppt::math::vector::static_<scalar, N>;
  using dm = fcppt::math::dim::static_<scalar, N>;
  vec const &a{drv::clv<vec>()};
  dm const &b{drv::clv<dm>()};
  ((void)fcppt::math::vector::at<Is>(a), ...);
  ((void)fcppt::math::dim::at<Is>(b), ...);
}

// operations on row views of a matrix (view storage): the analysis root is the scenario itself
template <size_type R, size_type C, size_type I>
auto scenario_row_plus(
    fcppt::math::matrix::static_<scalar, R, C> const &_m,
    fcppt::math::vector::static_<scalar, C> const &_v)
{
  return fcppt::math::matrix::at_r<I>(_m) + _v;
}

template <size_type R, size_type C, size_type I, size_type J>
auto scenario_row_dot(fcppt::math::matrix::static_<scalar, R, C> const &_m)
{
  return fcppt::math::vector::dot(
      fcppt::math::matrix::at_r<I>(_m), fcppt::math::matrix::at_r<J>(_m));
}

template <size_type R, size_type C, size_type I>
auto scenario_row_scale(fcppt::math::matrix::static_<scalar, R, C> const &_m, scalar const &_s)
{
  return fcppt::math::matrix::at_r<I>(_m) * _s;
}

template <size_type R, size_type C, size_type I>
auto scenario_row_copy(fcppt::math::matrix::static_<scalar, R, C> const &_m)
{
  return fcppt::math::vector::static_<scalar, C>{fcppt::math::matrix::at_r<I>(_m)};
}

// construction from rows / from elements
auto scenario_rows_2x3(
    scalar const &_a,
    scalar const &_b,
    scalar const &_c,
    scalar const &_d,
    scalar const &_e,
    scalar const &_f)
{
  return fcppt::math::matrix::static_<scalar, 2, 3>{
      fcppt::math::matrix::row(_a, _b, _c), fcppt::math::matrix::row(_d, _e, _f)};
}

auto scenario_rows_3x2(
    scalar const &_a,
    scalar const &_b,
    scalar const &_c,
    scalar const &_d,
    scalar const &_e,
    scalar const &_f)
{
  return fcppt::math::matrix::static_<scalar, 3, 2>{
      fcppt::math::matrix::row(_a, _b),
      fcppt::math::matrix::row(_c, _d),
      fcppt::math::matrix::row(_e, _f)};
}

auto scenario_elements_4(scalar const &_a, scalar const &_b, scalar const &_c, scalar const &_d)
{
  return fcppt::math::vector::static_<scalar, 4>{_a, _b, _c, _d};
}

auto scenario_dim_elements_3(scalar const &_a, scalar const &_b, scalar const &_c)
{
  return fcppt::math::dim::static_<scalar, 3>{_a, _b, _c};
}

template <size_type N>
void named_accessors()
{
  using vec = fcppt::math::vector::static_<scalar, N>;
  using dm = fcppt::math::dim::static_<scalar, N>;
  vec const &a{drv::clv<vec>()};
  dm const &b{drv::clv<dm>()};
  (void)a.x();
  (void)b.w();
  if constexpr (N > 1)
  {
    (void)a.y();
    (void)b.h();
  }
  if constexpr (N > 2)
  {
    (void)a.z();
    (void)b.d();
  }
  if constexpr (N > 3)
  {
    (void)a.w();
  }
}

DRV(drv_math_shapes)
{
  shapes_row<1>();
  shapes_row<2>();
  shapes_row<3>();
  shapes_row<4>();
  all_at<1>(std::make_integer_sequence<size_type, 1>{});
  all_at<2>(std::make_integer_sequence<size_type, 2>{});
  all_at<3>(std::make_integer_sequence<size_type, 3>{});
  all_at<4>(std::make_integer_sequence<size_type, 4>{});
  all_at<5>(std::make_integer_sequence<size_type, 5>{});
  using m23 = fcppt::math::matrix::static_<scalar, 2, 3>;
  using m33 = fcppt::math::matrix::static_<scalar, 3, 3>;
  using v3 = fcppt::math::vector::static_<scalar, 3>;
  (void)scenario_row_plus<2, 3, 0>(drv::clv<m23>(), drv::clv<v3>());
  (void)scenario_row_plus<2, 3, 1>(drv::clv<m23>(), drv::clv<v3>());
  (void)scenario_row_plus<3, 3, 2>(drv::clv<m33>(), drv::clv<v3>());
  (void)scenario_row_dot<2, 3, 0, 1>(drv::clv<m23>());
  (void)scenario_row_dot<3, 3, 2, 1>(drv::clv<m33>());
  (void)scenario_row_scale<2, 3, 1>(drv::clv<m23>(), drv::clv<scalar>());
  (void)scenario_row_copy<2, 3, 1>(drv::clv<m23>());
  (void)scenario_row_copy<3, 3, 2>(drv::clv<m33>());
  scalar const &s{drv::clv<scalar>()};
  (void)scenario_rows_2x3(s, s, s, s, s, s);
  (void)scenario_rows_3x2(s, s, s, s, s, s);
  (void)scenario_elements_4(s, s, s, s);
  (void)scenario_dim_elements_3(s, s, s);
  named_accessors<1>();
  named_accessors<2>();
  named_accessors<3>();
  named_accessors<4>();
  cross_storage_matrix<2, 2>();
  cross_storage_matrix<2, 3>();
  cross_storage_matrix<3, 3>();
  cross_storage_matrix<4, 4>();
  cross_storage_vector<1>();
  cross_storage_vector<3>();
  cross_storage_vector<4>();
  (void)scenario_convert_matrix<2, 3>(drv::clv<fcppt::math::matrix::object<scalar, 2, 3, view_storage<scalar, 6>>>());
  (void)scenario_convert_matrix<3, 3>(drv::clv<fcppt::math::matrix::object<scalar, 3, 3, view_storage<scalar, 9>>>());
  (void)scenario_convert_vector<3>(drv::clv<fcppt::math::vector::object<scalar, 3, view_storage<scalar, 3>>>());
  mixed_matrix<2, 2>();
  mixed_matrix<2, 3>();
  mixed_matrix<4, 4>();
  mixed_vector<2>();
  mixed_vector<4>();
}

DRV(drv_math_vectors)
{
  vector_ops<1>();
  vector_ops<2>();
  vector_ops<3>();
  vector_ops<4>();
  dim_ops<1>();
  dim_ops<2>();
  dim_ops<3>();
  dim_ops<4>();
  namespace v = fcppt::math::vector;
  (void)v::cross(
      drv::clv<v::static_<scalar, 3>>(), drv::clv<v::static_<scalar, 3>>());
  (void)v::bit_strings<scalar, 1>();
  (void)v::bit_strings<scalar, 2>();
  (void)v::bit_strings<scalar, 3>();
}

DRV(drv_math_matrices)
{
  matrix_ops<1, 1>();
  matrix_ops<2, 2>();
  matrix_ops<3, 3>();
  matrix_ops<4, 4>();
  matrix_ops<2, 3>();
  matrix_ops<3, 2>();
  matrix_ops<1, 4>();
  matrix_ops<4, 1>();
  matrix_product<1, 1, 1>();
  matrix_product<2, 2, 2>();
  matrix_product<3, 3, 3>();
  matrix_product<4, 4, 4>();
  matrix_product<2, 3, 2>();
  matrix_product<3, 2, 3>();
  matrix_product<2, 3, 4>();
  matrix_product<1, 4, 1>();
  matrix_product<4, 1, 4>();
  matrix_product<3, 3, 4>();
  square_ops<1>();
  square_ops<2>();
  square_ops<3>();
  square_ops<4>();
  namespace mx = fcppt::math::matrix;
  scalar const &s{drv::clv<scalar>()};
  (void)mx::translation(s, s, s);
  (void)mx::translation(drv::clv<fcppt::math::vector::static_<scalar, 3>>());
  (void)mx::scaling(s, s, s);
  (void)mx::scaling(drv::clv<fcppt::math::vector::static_<scalar, 3>>());
  (void)mx::static_<scalar, 2, 3>{mx::row(s, s, s), mx::row(s, s, s)};
}
}
