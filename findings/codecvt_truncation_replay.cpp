#include <fcppt/narrow.hpp>
#include <fcppt/widen.hpp>
#include <fcppt/optional/object.hpp>
#include <iostream>
#include <string>
#include <stdexcept>
int main()
{
  // fcppt::narrow / widen use the environment locale (run with LANG=C.UTF-8)
  auto const n1{fcppt::narrow(std::wstring{L"\u20ac"})};          // euro sign: 3 bytes in UTF-8
  auto const n2{fcppt::narrow(std::wstring{L"a\u20ac"})};
  std::string w1;
  try { w1 = "success, length " + std::to_string(fcppt::widen(std::string{"ab\xe2\x82"}).size()); } catch (std::exception const &) { w1 = "failure"; }  // ends in an incomplete sequence
  auto show = [](auto const &o) { return o.has_value() ? "success, length " + std::to_string(o.get_unsafe().size()) : std::string("failure"); };
  std::cout << "narrow(L\"\\u20ac\"): " << show(n1) << " (expected success, length 3)\n";
  std::cout << "narrow(L\"a\\u20ac\"): " << show(n2) << " (expected success, length 4)\n";
  std::cout << "widen(\"ab\" + truncated euro): " << w1 << " (expected failure)\n";
  bool const ok{n1.has_value() && n1.get_unsafe().size() == 3 && n2.has_value() && n2.get_unsafe().size() == 4 && w1 == "failure"};
  return ok ? 0 : 1;
}
