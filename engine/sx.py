"""Engine S/D: control skeleton by abstract interpretation over finite abstract domains
(DESIGN.md §4.3, §4.4).

A root function is interpreted over *abstract values* (provenance terms): parameters and results
of opaque calls are symbols; optional / either / variant objects are modelled as tagged terms;
lambdas are closures; calls to the control combinators listed in a check's `inline` set (and
all lambdas) are expanded through their own bodies, so that continuation-passing code becomes an
explicit tree of branches, events and outcomes. Branch conditions are *atoms* (opaque predicates on
symbols). An oracle assigns truth values to atoms; with the free Boolean oracle every consistent
assignment is enumerated (decision-vector replay), with an order/region oracle comparisons are
decided by an abstract value of a finite domain. No solver is involved and no repository code is
executed: the interpreter walks extracted AST facts.

A construct outside the interpreted fragment raises Unsupported; the caller reports that as
analysis-broken for the function concerned (never as a pass).
"""
import re

from . import facts as F
from . import terms as T


class Unsupported(Exception):
    pass


class NeedDecision(Exception):
    def __init__(self, atom):
        self.atom = atom


class _Return(Exception):
    def __init__(self, v):
        self.v = v


class _Throw(Exception):
    def __init__(self, ty, v):
        self.ty = ty
        self.v = v


class _Truncated(Exception):
    pass


class _Break(Exception):
    pass


class _Continue(Exception):
    pass


TRUE = ("bool", True)
FALSE = ("bool", False)

TRANSPARENT = set(T.TRANSPARENT_CALLS) | {
    "fcppt::parse::deref", "fcppt::options::deref", "fcppt::deref", "fcppt::identity::operator()",
    "std::forward_like", "fcppt::cast::to_void",
}

LIST_CLASSES = ("fcppt::array::object", "std::array", "std::initializer_list")
OPT = "fcppt::optional::object"
EITH = "fcppt::either::object"
VAR = "fcppt::variant::object"


def is_const(v):
    return isinstance(v, tuple) and v and v[0] == "k"


def mk_not(v):
    if v == TRUE:
        return FALSE
    if v == FALSE:
        return TRUE
    if isinstance(v, tuple) and v[0] == "not":
        return v[1]
    if isinstance(v, tuple) and v[0] == "cmp":
        neg = {"==": "!=", "!=": "==", "<": ">=", ">=": "<", ">": "<=", "<=": ">"}
        return ("cmp", neg[v[1]], v[2], v[3])
    return ("not", v)


class Path:
    def __init__(self):
        self.events = []
        self.decisions = []   # (atom, bool) in the order asked
        self.outcome = None

    def show(self):
        return {"decisions": [(show(a), b) for a, b in self.decisions],
                "events": [show_event(e) for e in self.events], "outcome": show(self.outcome)}


def positions_as_elements(p):
    """A copy of path p in which the iterator-position view is rewritten into the range view a range-for produces:
    with b = X.begin() and e = X.end() events of the same receiver X, the decision `b + k == e` (value v) becomes
    `more(X, k)` (value not v), and `deref(b + k)` becomes the element term ("elem", X, k). Decisions and terms that do not
    have this shape are left as they are. Lets one rule read `for (auto &x : X)` and `for (it = X.begin(); it != X.end(); ++it)`
    (and std::for_each / std::accumulate summaries) as the same table."""
    evs = p.events

    def ev_kind(t):
        if isinstance(t, tuple) and len(t) >= 2 and t[0] == "ev" and isinstance(t[1], int) and 0 < t[1] <= len(evs):
            e = evs[t[1] - 1]
            nm = e[0].split("<")[0].split("::")[-1]
            if nm in ("begin", "cbegin", "end", "cend") and len(e[1]) == 1:
                return ("b" if nm in ("begin", "cbegin") else "e", e[1][0])
        return None

    def as_pos(t):
        k = 0
        while isinstance(t, tuple) and len(t) == 4 and t[0] == "op" and t[1] in ("+", "-") and is_const(t[3]):
            try:
                c = int(str(t[3][1]).rstrip("uUlL"))
            except (TypeError, ValueError):
                return None
            k += c if t[1] == "+" else -c
            t = t[2]
        kd = ev_kind(t)
        if kd is not None and kd[0] == "b" and k >= 0:
            return (kd[1], k)
        return None

    def rw(t):
        if isinstance(t, Closure) or not isinstance(t, tuple) or not t:
            return t
        if t[0] == "app" and len(t) == 3 and t[1] == "deref" and len(t[2]) == 1:
            ps_ = as_pos(t[2][0])
            if ps_ is not None:
                return ("elem", rw(ps_[0]), ps_[1])
        return tuple(rw(x) if isinstance(x, tuple) else x for x in t)
    q = Path()
    for (a, v) in p.decisions:
        done = False
        if isinstance(a, tuple) and len(a) == 4 and a[0] == "cmp" and a[1] in ("==", "!="):
            for (x, y) in ((a[2], a[3]), (a[3], a[2])):
                px, ky = as_pos(x), ev_kind(y)
                if px is not None and ky is not None and ky[0] == "e" and ky[1] == px[0]:
                    q.decisions.append((("more", rw(px[0]), px[1]), (not v) if a[1] == "==" else v))
                    done = True
                    break
        if not done:
            q.decisions.append((rw(a), v))
    q.events = [(e[0], tuple(rw(x) for x in e[1])) + tuple(e[2:]) for e in evs]
    q.outcome = rw(p.outcome) if isinstance(p.outcome, tuple) else p.outcome
    return q


def show_event(e):
    return "%s(%s)" % (e[0], ", ".join(show(a) for a in e[1]))


def show(v, depth=0):
    if depth > 8:
        return "..."
    if v is None:
        return "none"
    if isinstance(v, Closure):
        return "<lambda>"
    if not isinstance(v, tuple):
        return str(v)
    if not v:
        return "()"
    t = v[0]
    if t == "sym":
        return str(v[1])
    if t == "k":
        return str(v[1])
    if t == "bool":
        return "true" if v[1] else "false"
    if t == "ev":
        return "#%d:%s" % (v[1], v[2]) if len(v) > 2 else "#%d" % v[1]
    if t == "not":
        return "!" + show(v[1], depth + 1)
    if t == "cmp" or t == "op":
        return "(%s %s %s)" % (show(v[2], depth + 1), v[1], show(v[3], depth + 1))
    if t == "new":
        return "%s{%s}" % (v[1].split("::")[-2] + "::" + v[1].split("::")[-1] if "::" in v[1] else v[1],
                           ", ".join(show(a, depth + 1) for a in v[3])) + (":" + v[2] if v[2] else "")
    if t == "app":
        return "%s(%s)" % (v[1].split("<")[0].split("::")[-1] if not v[1].startswith(("holds<", "alt_payload<")) else v[1],
                           ", ".join(show(a, depth + 1) for a in v[2]))
    if t == "fld":
        return "%s.%s" % (show(v[1], depth + 1), v[2])
    if t == "rec":
        return "%s{%s}" % (v[1].split("::")[-1], ", ".join("%s=%s" % (f, show(x, depth + 1)) for f, x in v[2]))
    if t == "tuple":
        return "(" + ", ".join(show(a, depth + 1) for a in v[1]) + ")"
    if t == "cast":
        return "cast<%s>(%s)" % (v[1], show(v[2], depth + 1))
    if t == "elem":
        return "%s[%s]" % (show(v[1], depth + 1), v[2])
    return "%s(%s)" % (t, ", ".join(show(a, depth + 1) if isinstance(a, tuple) else str(a) for a in v[1:]))


class Closure:
    def __init__(self, node, env, unit, this):
        self.node = node
        self.env = env
        self.unit = unit
        self.this = this

    def __repr__(self):
        return "<lambda %s>" % self.node.get("loc")


class Env:
    def __init__(self, parent=None):
        self.vars = {}
        self.parent = parent

    def get(self, i):
        e = self
        while e is not None:
            if i in e.vars:
                return e.vars[i]
            e = e.parent
        return None

    def find(self, i):
        e = self
        while e is not None:
            if i in e.vars:
                return e
            e = e.parent
        return None

    def has(self, i):
        e = self
        while e is not None:
            if i in e.vars:
                return True
            e = e.parent
        return False

    def set(self, i, v):
        e = self
        while e is not None:
            if i in e.vars:
                e.vars[i] = v
                return
            e = e.parent
        self.vars[i] = v


class Config:
    """per-check configuration of the interpreter"""

    def __init__(self, inline=(), pure=(), opaque=(), inline_all_fcppt=False, max_depth=40,
                 loop_bound=2, hooks=None, pure_prefixes=(), inline_prefixes=(), record_prefixes=(), ref_writes=False, max_steps=20000, lvalues=False, iter_positions=False, iter_classes=(), std_search=False):
        self.inline = set(inline)
        self.pure = set(pure)
        self.opaque = set(opaque)
        self.inline_all_fcppt = inline_all_fcppt
        self.max_depth = max_depth
        self.loop_bound = loop_bound
        self.hooks = hooks or {}
        self.pure_prefixes = tuple(pure_prefixes)
        self.inline_prefixes = tuple(inline_prefixes)
        # classes whose constructors are interpreted field by field: the object becomes ("rec", cls, fields)
        self.record_prefixes = tuple(record_prefixes)
        # an assignment to a parameter of non-const lvalue reference type is an event ("refwrite", bound object, value)
        self.ref_writes = ref_writes
        self.max_steps = max_steps
        # opt-in storage model: assignments through member / element / accessor expressions update the variable they reach
        # (locations are access paths rooted at variables; values stay immutable terms), reference parameters bind locations
        self.lvalues = lvalues
        # opt-in (needs lvalues): std iterators are positions -- ++ / -- update the variable, std::next / std::prev / + / - build
        # base +- k terms, * is the pure term deref(position), == / != are comparison atoms on positions
        self.iter_positions = iter_positions
        self.std_search = std_search      # std::find_if as a summary over the range's `more` atoms (else an opaque event)
        self.iter_classes = tuple(iter_classes)    # further iterator classes (qualified-name prefixes of their operators) with position semantics


class Interp:
    def __init__(self, db, cfg, oracle=None):
        self.db = db
        self.cfg = cfg
        self.oracle = oracle
        self.path = None
        self.assign = None
        self.depth = 0
        self.steps = 0
        self.nquestions = 0
        self.want_loc = []

    # -- driving ---------------------------------------------------------------------------
    def paths(self, fn, args=None, this=None, limit=400):
        """Enumerate all paths of fn under the free Boolean oracle (or the given oracle)."""
        return self.paths_of(lambda: self.call_function(fn, args, this), limit, fn["qn"])

    def paths_lambda(self, closure, op, args, limit=400):
        return self.paths_of(lambda: self.apply_lambda_op(closure, op, args), limit, "lambda")

    def paths_of(self, thunk, limit=400, what=""):
        out = []
        stack = [[]]
        while stack:
            pre = stack.pop()
            if len(out) >= limit:
                raise Unsupported("more than %d paths in %s" % (limit, what))
            p = Path()
            self.path = p
            self.pre = list(pre)
            self.assign = {}
            self.depth = 0
            self.steps = 0
            self.nquestions = 0
            try:
                v = thunk()
                p.outcome = ("return", v)
            except _Throw as t:
                p.outcome = ("throw", t.ty)
            except _Truncated:
                p.outcome = ("truncated",)
            except NeedDecision as nd:
                stack.append(pre + [(nd.atom, False)])
                stack.append(pre + [(nd.atom, True)])
                continue
            out.append(p)
        return out

    def run_function(self, fn, args=None, this=None):
        """evaluate fn under self.oracle, which must decide every atom; returns (outcome, path)"""
        self.path = Path()
        self.pre = []
        self.assign = {}
        self.depth = 0
        self.steps = 0
        self.nquestions = 0
        try:
            v = self.call_function(fn, args, this)
            self.path.outcome = ("return", v)
        except _Throw as t:
            self.path.outcome = ("throw", t.ty)
        except NeedDecision as nd:
            raise Unsupported("atom not decided by the abstract domain: %s" % show(nd.atom))
        return self.path.outcome, self.path

    def run_lambda(self, closure, op, args):
        """evaluate one call-operator specialisation of a closure under self.oracle, which must decide
        every atom (finite abstract domain); returns (value, path)"""
        self.path = Path()
        self.pre = []
        self.assign = {}
        self.depth = 0
        self.steps = 0
        self.nquestions = 0
        try:
            v = self.apply_lambda_op(closure, op, args)
        except NeedDecision as nd:
            raise Unsupported("atom not decided by the abstract domain: %s" % show(nd.atom))
        return v, self.path

    def decide(self, atom):
        """truth of an atom on this path"""
        if atom == TRUE:
            return True
        if atom == FALSE:
            return False
        if isinstance(atom, tuple) and atom[0] == "not":
            return not self.decide(atom[1])
        if isinstance(atom, tuple) and atom[0] == "k":
            return atom[1] not in ("0", 0, None, "nullptr")
        if isinstance(atom, tuple) and atom[0] == "and":
            return self.decide(atom[1]) and self.decide(atom[2])
        if isinstance(atom, tuple) and atom[0] == "or":
            return self.decide(atom[1]) or self.decide(atom[2])
        self.nquestions += 1
        if self.oracle is not None:
            r = self.oracle(self, atom)
            if r is not None:
                return r
        # canonical polarity for comparisons
        if isinstance(atom, tuple) and atom[0] == "cmp" and atom[1] in ("!=", ">=", ">"):
            return not self.decide(mk_not(atom))
        if atom in self.assign:
            return self.assign[atom]
        i = len(self.path.decisions)
        if i < len(self.pre):
            a, b = self.pre[i]
            if a != atom:
                raise Unsupported("non-deterministic replay: %s vs %s" % (show(a), show(atom)))
        else:
            raise NeedDecision(atom)
        self.assign[atom] = b
        self.path.decisions.append((atom, b))
        return b

    def event(self, name, args, loc=None, label=None):
        self.path.events.append((name, tuple(args), loc))
        return ("ev", len(self.path.events), label or name.split("::")[-1])

    # -- functions -------------------------------------------------------------------------
    def call_function(self, fn, args, this, arglocs=None, thisloc=None):
        self.depth += 1
        if self.depth > self.cfg.max_depth:
            raise Unsupported("inlining depth exceeded at " + fn["qn"])
        unit = fn["_unit"]
        env = Env()
        params = fn.get("params", [])
        if args is None:
            args = [("sym", n) for n in param_symbols(params)]
        if len(args) != len(params):
            # parameter packs are expanded in instantiations, so counts must agree
            raise Unsupported("argument count mismatch calling " + fn["qn"])
        for i_, (p, a) in enumerate(zip(params, args)):
            env.vars[p["id"]] = a
            if arglocs is not None and i_ < len(arglocs) and arglocs[i_] is not None:
                env.vars[p["id"]] = ("@ref", arglocs[i_])
        if thisloc is not None:
            this = ("@ref", thisloc)
        try:
            if fn.get("kind") == "ctor":
                raise Unsupported("constructor bodies are not interpreted: " + fn["qn"])
            try:
                self.exec_stmt(unit, fn.get("body"), env, this)
            except _Return as r:
                return r.v
            return ("k", None)
        finally:
            self.depth -= 1

    def apply(self, f, args, unit, loc, this):
        """call a callable value"""
        if isinstance(f, Closure):
            ops = f.node.get("ops", [])
            op = None
            if len(ops) == 1:
                op = ops[0]
            else:
                # generic lambda: choose the specialisation by arity (all same) -> by loc match of
                # the call's resolved callee is done by the caller; fall back to first
                op = ops[0] if ops else None
            if op is None:
                raise Unsupported("lambda without instantiated call operator at %s" % f.unit.loc(f.node.get("loc")))
            return self.apply_lambda_op(f, op, args)
        # opaque functor
        return self.event("call", [f] + list(args), loc, label="call")

    def apply_lambda_op(self, f, op, args):
        self.depth += 1
        if self.depth > self.cfg.max_depth:
            raise Unsupported("inlining depth exceeded in lambda")
        env = Env(f.env)
        params = op.get("params", [])
        if len(params) != len(args):
            raise Unsupported("lambda arity mismatch")
        for p, a in zip(params, args):
            env.vars[p["id"]] = a
            if self.cfg.ref_writes and _is_mut_ref(f.unit.ty(p.get("t"))):
                env.vars[("ref", p["id"])] = a
        try:
            try:
                self.exec_stmt(f.unit, op.get("body"), env, f.this)
            except _Return as r:
                return r.v
            return ("k", None)
        finally:
            self.depth -= 1

    # -- statements ------------------------------------------------------------------------
    def exec_stmt(self, unit, s, env, this):
        if s is None:
            return
        self.steps += 1
        if self.steps > self.cfg.max_steps:
            raise Unsupported("step limit")
        k = s.get("k")
        if k in ("compound", "attributed"):
            inner = Env(env)
            for c in s.get("ch", []):
                self.exec_stmt(unit, c, inner, this)
            return
        if k == "decl":
            for v in s.get("ch", []):
                if v.get("k") != "var":
                    continue
                val = self.eval(unit, v.get("init"), env, this) if v.get("init") is not None else ("sym", v.get("name"))
                env.vars[v["id"]] = val
                base_loc = None
                if self.cfg.lvalues and v.get("bindings"):
                    # structured bindings name the elements of the initialiser (by reference) or of the hidden copy
                    is_ref = v.get("ref") in ("lref", "rref", "fwd") or (unit.ty(v.get("t")) or "").rstrip().endswith("&")
                    base_loc = self.lv(unit, v.get("init"), env, this) if is_ref and v.get("init") is not None else None
                    if base_loc is None:
                        base_loc = ("@var", env, v["id"])
                # the bindings of a std::pair ARE its members first / second (one name for `auto [a, b] = p` and `p.first`)
                is_pair = len(v.get("bindings", []) or []) == 2 and re.sub(r"^(const )?", "", (unit.ty(v.get("t")) or "")).startswith("std::pair<")
                for i, b in enumerate(v.get("bindings", []) or []):
                    if is_pair:
                        fname = ("first", "second")[i]
                        env.vars[b["id"]] = ("@ref", ("@fld", base_loc, fname)) if base_loc is not None else self.field(val, fname)
                    else:
                        env.vars[b["id"]] = ("@ref", ("@idx", base_loc, i)) if base_loc is not None else ("elem", val, i)
            return
        if k == "if":
            inner = Env(env)
            if s.get("init") is not None:
                self.exec_stmt(unit, s["init"], inner, this)
            c = self.eval(unit, s.get("cond"), inner, this)
            if self.truth(c):
                self.exec_stmt(unit, s.get("then"), inner, this)
            elif s.get("else") is not None:
                self.exec_stmt(unit, s.get("else"), inner, this)
            return
        if k == "return":
            if self.want_loc and self.want_loc[-1] == self.depth and s.get("e") is not None:
                l = self.lv(unit, s.get("e"), env, this)
                if l is None:
                    raise Unsupported("a reference result that is not an access path: %s" % unit.loc(s.get("loc")))
                raise _Return(("@loc", l))
            v = self.eval(unit, s.get("e"), env, this) if s.get("e") is not None else ("k", None)
            raise _Return(v)
        if k == "while":
            n = 0
            total = 0
            while True:
                # only iterations that ask a QUESTION count against the unrolling bound: an iteration in which neither the
                # condition nor the body decides anything (a counter running against a compile-time size) is simply executed
                q0 = self.nquestions
                c = self.eval(unit, s.get("cond"), env, this)
                if not self.truth(c):
                    break
                if n >= self.cfg.loop_bound:
                    self.event("loop-bound", [], unit.loc(s.get("loc")))
                    raise _Truncated()
                total += 1
                try:
                    self.exec_stmt(unit, s.get("body"), Env(env), this)
                except _Break:
                    break
                except _Continue:
                    pass
                if self.nquestions != q0 or total > 64:
                    n += 1
            return
        if k == "do":
            n = 0
            while True:
                if n > self.cfg.loop_bound:
                    self.event("loop-bound", [], unit.loc(s.get("loc")))
                    raise _Truncated()
                n += 1
                try:
                    self.exec_stmt(unit, s.get("body"), Env(env), this)
                except _Break:
                    break
                except _Continue:
                    pass
                c = self.eval(unit, s.get("cond"), env, this)
                if not self.truth(c):
                    break
            return
        if k == "for":
            inner = Env(env)
            if s.get("init") is not None:
                if s["init"].get("k") == "decl":
                    self.exec_stmt(unit, s["init"], inner, this)
                else:
                    self.eval(unit, s["init"], inner, this)
            n = 0
            total = 0
            while True:
                q0 = self.nquestions
                if s.get("cond") is not None:
                    c = self.eval(unit, s.get("cond"), inner, this)
                    if not self.truth(c):
                        break
                if n >= self.cfg.loop_bound:
                    self.event("loop-bound", [], unit.loc(s.get("loc")))
                    raise _Truncated()
                total += 1
                try:
                    self.exec_stmt(unit, s.get("body"), Env(inner), this)
                except _Break:
                    break
                except _Continue:
                    pass
                if s.get("inc") is not None:
                    self.eval(unit, s["inc"], inner, this)
                if self.nquestions != q0 or total > 64 or s.get("cond") is None:
                    n += 1      # (see `while`)
            return
        if k == "range_for":
            rng = self.eval(unit, s.get("range"), env, this)
            n = 0
            elems = None
            if isinstance(rng, tuple) and rng[0] == "list":
                elems = list(rng[1])
            elif isinstance(rng, tuple) and rng[0] == "new" and rng[1] in LIST_CLASSES:
                elems = []
                for a in rng[3]:
                    if isinstance(a, tuple) and a and a[0] == "tuple":
                        elems.extend(a[1])
                    else:
                        elems.append(a)
            if elems is None and self.cfg.lvalues and isinstance(rng, tuple) and rng and rng[0] in ("rec", "new"):
                elems = _elems(rng)      # an array object whose elements are known
            while True:
                if elems is not None:
                    if n >= len(elems):
                        break
                    ev = elems[n]
                else:
                    if not self.decide(("more", rng, n)):
                        break
                    if n >= self.cfg.loop_bound:
                        self.event("loop-bound", [], unit.loc(s.get("loc")))
                        raise _Truncated()
                    ev = ("elem", rng, n)
                n += 1
                inner = Env(env)
                if s.get("var") is not None:
                    inner.vars[s["var"]["id"]] = ev
                try:
                    self.exec_stmt(unit, s.get("body"), inner, this)
                except _Break:
                    break
                except _Continue:
                    continue
            return
        if k == "break":
            raise _Break()
        if k == "continue":
            raise _Continue()
        if k == "null":
            return
        if k == "switch":
            v = self.eval(unit, s.get("cond"), env, this)
            body = s.get("body")
            items = body.get("ch", []) if body is not None and body.get("k") == "compound" else []
            # find the matching label
            start = None
            default = None
            for i, c in enumerate(items):
                lab = c
                while lab is not None and lab.get("k") in ("case", "default"):
                    if lab.get("k") == "default":
                        default = i if default is None else default
                    else:
                        cv = self.eval(unit, lab.get("value"), env, this)
                        if self.truth(self.compare("==", v, cv)):
                            start = i
                            break
                    lab = lab.get("sub")
                if start is not None:
                    break
            if start is None:
                start = default
            if start is None:
                return
            inner = Env(env)
            try:
                for c in items[start:]:
                    x = c
                    while x is not None and x.get("k") in ("case", "default"):
                        x = x.get("sub")
                    self.exec_stmt(unit, x, inner, this)
            except _Break:
                pass
            return
        if k == "try":
            try:
                self.exec_stmt(unit, s.get("body"), env, this)
            except _Throw as t:
                for h in s.get("handlers", []):
                    ht = unit.ty(h.get("t")) if not h.get("all") else None
                    if h.get("all") or (ht and t.ty and _strip_cvref(ht) == _strip_cvref(t.ty)):
                        inner = Env(env)
                        if h.get("var_id") is not None:
                            inner.vars[h["var_id"]] = t.v
                        self.path.events.append(("catch", (("k", _strip_cvref(t.ty or "?")),), unit.loc(h.get("loc"))))
                        self.exec_stmt(unit, h.get("body"), inner, this)
                        return
                raise
            return
        if k and k.startswith("stmt:"):
            raise Unsupported("statement %s at %s" % (k, unit.loc(s.get("loc"))))
        # expression statement
        self.eval(unit, s, env, this)

    def truth(self, v):
        if v == TRUE:
            return True
        if v == FALSE:
            return False
        return self.decide(v)

    # -- expressions -----------------------------------------------------------------------
    def compare(self, op, a, b):
        if is_const(a) and is_const(b):
            try:
                x, y = int(a[1]), int(b[1])
                r = {"==": x == y, "!=": x != y, "<": x < y, "<=": x <= y, ">": x > y, ">=": x >= y}[op]
            except (TypeError, ValueError):
                if op in ("==", "!="):
                    r = (a[1] == b[1]) == (op == "==")
                else:
                    return ("cmp", op, a, b)
            return TRUE if r else FALSE
        if a == b and op in ("==", "<=", ">="):
            return TRUE
        if a == b and op in ("!=", "<", ">"):
            return FALSE
        if op in ("==", "!="):
            # a position a search summary FOUND (dereferenceable) is never the end() of a range
            for (x, y) in ((a, b), (b, a)):
                if isinstance(x, tuple) and x and x[0] == "iter" and isinstance(y, tuple) and y and y[0] == "ev" and self.path is not None \
                        and self.path.events[y[1] - 1][0].split("<")[0].split("::")[-1] in ("end", "cend"):
                    return FALSE if op == "==" else TRUE
            # x + j against x + k (the same base, constant offsets): equal exactly when j == k (also in modular arithmetic, the
            # offsets being small) -- `it != begin` for it == begin + 1 is not a free question
            def split(t):
                off = 0
                while isinstance(t, tuple) and len(t) == 4 and t[0] == "op" and t[1] in ("+", "-") and is_const(t[3]):
                    try:
                        c = int(str(t[3][1]).rstrip("uUlL"))
                    except (TypeError, ValueError):
                        break
                    off += c if t[1] == "+" else -c
                    t = t[2]
                return t, off
            (ba, oa), (bb, ob) = split(a), split(b)
            if ba == bb and (oa != 0 or ob != 0) and abs(oa - ob) < 256:
                return TRUE if (oa == ob) == (op == "==") else FALSE
        return ("cmp", op, a, b)

    def eval(self, unit, n, env, this):
        if n is None:
            return ("k", None)
        self.steps += 1
        if self.steps > self.cfg.max_steps:
            raise Unsupported("step limit")
        k = n.get("k")
        if k == "lit":
            if "c" in n:
                return ("k", n["c"])
            if "char" in n:
                return ("k", "char:%d" % n["char"])
            if "str" in n:
                return ("k", "str:" + n["str"])
            if n.get("nullptr"):
                return ("k", "nullptr")
            return ("k", "lit@" + n.get("loc", ""))
        if k == "ref":
            dk = n.get("dk")
            if dk in ("param", "local", "binding", "static_local"):
                v = env.get(n["id"])
                if v is None:
                    if "c" in n:
                        return ("k", n["c"])
                    return ("sym", n.get("name"))
                if isinstance(v, tuple) and v and v[0] == "@ref":
                    return self.load(v[1])
                return v
            if dk == "enumerator":
                return ("k", n.get("qn"))
            if "c" in n:
                return ("k", n["c"])
            if dk == "function":
                return ("fn", n.get("qn"), n.get("id"))
            return ("sym", n.get("qn") or n.get("name"))
        if "c" in n and k in ("sizeof", "cast", "icast", "binop", "unop", "expr:SizeOfPackExpr", "expr:TypeTraitExpr",
                               "expr:CXXNoexceptExpr", "expr:RequiresExpr", "expr:ConceptSpecializationExpr"):
            return ("k", n["c"])
        if k == "this":
            if isinstance(this, tuple) and this and this[0] == "@ref":
                return self.load(this[1])
            return this if this is not None else ("sym", "this")
        if k == "member":
            b = self.eval(unit, n.get("base"), env, this)
            return self.field(b, n.get("name"))
        if k == "initlist":
            ch = n.get("ch", [])
            ty = _strip_cvref(unit.ty(n.get("t")) or "")
            if len(ch) == 1:
                cty = _strip_cvref(unit.ty(T.unwrap(unit, ch[0]).get("t")) or "") if T.unwrap(unit, ch[0]) is not None else ""
                if cty == ty or not _is_class_type(ty):
                    return self.eval(unit, ch[0], env, this)
            if _is_class_type(ty):
                return ("new", F.strip_targs(ty), "agg", tuple(self.eval(unit, c, env, this) for c in ch))
            return ("tuple", tuple(self.eval(unit, c, env, this) for c in ch))
        if k == "icast":
            v = self.eval(unit, n.get("e"), env, this)
            if n.get("ck") in ("IntegralCast",):
                return self.cast(unit.ty(n.get("t")), v, unit, n)
            return v
        if k == "cast":
            v = self.eval(unit, n.get("e"), env, this)
            if n.get("ck") in ("IntegralCast", "IntegralToBoolean", "FloatingToIntegral", "IntegralToFloating"):
                return self.cast(unit.ty(n.get("t")), v, unit, n)
            if n.get("ck") == "ToVoid":
                return ("k", None)
            return v
        if k == "unop":
            op = n.get("op")
            if op == "!":
                return mk_not(self.eval(unit, n.get("e"), env, this))
            if op in ("++", "--"):
                e = T.unwrap(unit, n.get("e"))
                old = self.eval(unit, e, env, this)
                new = self.arith("+" if op == "++" else "-", old, ("k", "1"))
                self.store(unit, e, new, env, this)
                return old if n.get("postfix") else new
            v = self.eval(unit, n.get("e"), env, this)
            if op == "*":
                return ("deref", v)
            if op == "&":
                return ("addr", v)
            if op == "-" and is_const(v):
                try:
                    return ("k", str(-int(v[1])))
                except (TypeError, ValueError):
                    pass
            return ("op1", op, v)
        if k == "binop":
            op = n.get("op")
            if op == "&&":
                l = self.eval(unit, n.get("l"), env, this)
                if not self.truth(l):
                    return FALSE
                r = self.eval(unit, n.get("r"), env, this)
                return TRUE if self.truth(r) else FALSE
            if op == "||":
                l = self.eval(unit, n.get("l"), env, this)
                if self.truth(l):
                    return TRUE
                r = self.eval(unit, n.get("r"), env, this)
                return TRUE if self.truth(r) else FALSE
            if op == ",":
                self.eval(unit, n.get("l"), env, this)
                return self.eval(unit, n.get("r"), env, this)
            l = self.eval(unit, n.get("l"), env, this)
            r = self.eval(unit, n.get("r"), env, this)
            if op in ("==", "!=", "<", "<=", ">", ">="):
                return self.compare(op, l, r)
            return self.arith(op, l, r)
        if k in ("assign", "compound_assign"):
            r = self.eval(unit, n.get("r"), env, this)
            if k == "compound_assign":
                old = self.eval(unit, n.get("l"), env, this)
                r = self.arith(n.get("op")[:-1], old, r)
            self.store(unit, n.get("l"), r, env, this)
            return r
        if k == "cond":
            c = self.eval(unit, n.get("c_"), env, this)
            if self.truth(c):
                return self.eval(unit, n.get("then"), env, this)
            return self.eval(unit, n.get("else"), env, this)
        if k == "lambda":
            inits = [c for c in n.get("captures", []) if c.get("init_capture") and c.get("init") is not None and "id" in c]
            if inits:
                # init-captures (`[first = begin(r)]`) are evaluated where the lambda expression is, and live in the closure
                cenv = Env(env)
                for c in inits:
                    cenv.vars[c["id"]] = self.eval(unit, c["init"], env, this)
                return Closure(n, cenv, unit, this)
            return Closure(n, env, unit, this)
        if k == "construct":
            return self.construct(unit, n, env, this)
        if k == "call":
            return self.call(unit, n, env, this)
        if k == "throw":
            v = self.eval(unit, n.get("e"), env, this) if n.get("e") is not None else ("k", None)
            self.path.events.append(("throw", (("k", _strip_cvref(unit.ty(n.get("thrown")) or "rethrow")),), unit.loc(n.get("loc"))))
            raise _Throw(unit.ty(n.get("thrown")), v)
        if k == "valueinit":
            return ("k", "0")
        if k == "subscript":
            b = self.eval(unit, n.get("base"), env, this)
            i = self.eval(unit, n.get("idx"), env, this)
            return ("elem", b, i[1] if is_const(i) else i)
        if k == "sizeof":
            return ("k", n.get("c"))
        if k in ("compound", "decl", "if", "return", "do"):
            self.exec_stmt(unit, n, env, this)
            return ("k", None)
        if k == "opaque" and n.get("ch"):
            return self.eval(unit, n["ch"][0], env, this)
        raise Unsupported("expression %s at %s" % (k, unit.loc(n.get("loc"))))

    def cast(self, ty, v, unit, n):
        h = self.cfg.hooks.get("cast")
        if h is not None:
            r = h(self, ty, v, unit, n)
            if r is not None:
                return r
        if is_const(v):
            return v
        return v

    def arith(self, op, l, r):
        if is_const(l) and is_const(r):
            try:
                x, y = int(l[1]), int(r[1])
                if op == "+":
                    return ("k", str(x + y))
                if op == "-":
                    return ("k", str(x - y))
                if op == "*":
                    return ("k", str(x * y))
            except (TypeError, ValueError):
                pass
        return ("op", op, l, r)

    def field(self, b, name):
        if isinstance(b, tuple) and b and b[0] == "rec":
            d = dict(b[2])
            if name in d:
                return d[name]
        if isinstance(b, tuple) and b and b[0] == "tuple" and name in ("first", "second") and len(b[1]) == 2:
            return b[1][0 if name == "first" else 1]
        if isinstance(b, tuple) and b and b[0] == "new" and b[1] == "std::pair" and name in ("first", "second") and len(b[3]) == 2:
            return b[3][0 if name == "first" else 1]
        if isinstance(b, tuple) and b and b[0] == "deref":
            return ("fld", b[1], name)
        return ("fld", b, name)

    # -- locations (cfg.lvalues) -----------------------------------------------------------
    def lv(self, unit, n, env, this):
        """access path denoted by an lvalue expression, or None"""
        n = T.unwrap(unit, n)
        if n is None:
            return None
        k = n.get("k")
        if k == "ref" and n.get("dk") in ("local", "param", "static_local", "binding"):
            e = env.find(n["id"])
            if e is None:
                return None
            cur = e.vars[n["id"]]
            if isinstance(cur, tuple) and cur and cur[0] == "@ref":
                return cur[1]
            return ("@var", e, n["id"])
        if k == "this":
            if isinstance(this, tuple) and this and this[0] == "@ref":
                return this[1]
            return None
        if k == "unop" and n.get("op") == "*":
            e0 = T.unwrap(unit, n.get("e"))
            if e0 is not None and e0.get("k") == "this":
                return self.lv(unit, e0, env, this)
            return None      # the pointee of a pointer / iterator is not the variable that holds it
        if k == "member":
            b = self.lv(unit, n.get("base"), env, this)
            return ("@fld", b, n.get("name")) if b is not None else None
        if k == "subscript":
            b = self.lv(unit, n.get("base"), env, this)
            i = self.eval(unit, n.get("idx"), env, this)
            if b is None or not is_const(i):
                return None
            return ("@idx", b, int(str(i[1]).rstrip("uUlL")))
        if k in ("icast", "cast"):
            return self.lv(unit, n.get("e"), env, this)
        if k == "call" and n.get("callee") is not None:
            d = unit.decls.get(n["callee"])
            if d is None:
                return None
            qn = F.strip_targs(d["qn"])
            if qn in TRANSPARENT or qn in ("fcppt::cast::static_downcast",):
                tgt = n.get("recv") if n.get("recv") is not None and not n.get("args") else (n.get("args") or [None])[0]
                return self.lv(unit, tgt, env, this)
            if qn in ("fcppt::array::object::get_unsafe", "fcppt::array::object::operator[]", "std::array::operator[]") and n.get("recv") is not None:
                b = self.lv(unit, n["recv"], env, this)
                i = self.eval(unit, n["args"][0], env, this) if n.get("args") else None
                if b is None or i is None or not is_const(i):
                    return None
                return ("@idx", b, int(str(i[1]).rstrip("uUlL")))
            if qn in ("std::get", "fcppt::tuple::get") and len(n.get("args", [])) == 1:
                b = self.lv(unit, n["args"][0], env, this)
                ta = d.get("targs") or []
                if b is None or not ta or not str(ta[0]).rstrip("ULul").isdigit():
                    return None
                return ("@idx", b, int(str(ta[0]).rstrip("ULul")))
            if (qn in self.cfg.inline or any(qn.startswith(p) for p in self.cfg.inline_prefixes)) and qn not in self.cfg.opaque:
                rt = (unit.ty(d.get("ret")) or "").strip()
                if not rt.endswith("&") or rt.endswith("&&"):
                    return None     # a prvalue result is not a location
                fn = self.db.resolve(unit, d["id"])
                if fn is None or fn.get("body") is None or fn.get("kind") == "ctor":
                    return None
                args = [self.eval(unit, a, env, this) for a in n.get("args", [])]
                arglocs = self.arg_locs(unit, n, d, env, this)
                thisloc = self.lv(unit, n["recv"], env, this) if n.get("recv") is not None else None
                recv = self.eval(unit, n["recv"], env, this) if n.get("recv") is not None else None
                self.want_loc.append(self.depth + 1)
                try:
                    r = self.call_function(fn, args, recv, arglocs=arglocs, thisloc=thisloc)
                finally:
                    self.want_loc.pop()
                if isinstance(r, tuple) and r and r[0] == "@loc":
                    return r[1]
                return None
        return None

    def iter_op(self, unit, n, d, qn, short, env, this):
        """position semantics of a member / free operator of a std iterator class; None when not applicable"""
        operands = ([n["recv"]] if n.get("recv") is not None else []) + list(n.get("args", []))
        if short in ("operator++", "operator--") and operands:
            l = self.lv(unit, operands[0], env, this)
            old = self.load(l) if l is not None else self.eval(unit, operands[0], env, this)
            new = self.arith("+" if short == "operator++" else "-", old, ("k", "1"))
            if l is not None:
                self.store_loc(l, new)
            return old if len(operands) == 2 else new       # the postfix form has a dummy int argument
        if short == "operator*" and len(operands) == 1:
            return ("app", "deref", (self.eval(unit, operands[0], env, this),))
        if short == "operator->" and len(operands) == 1:
            return ("addr", ("app", "deref", (self.eval(unit, operands[0], env, this),)))
        if short in ("operator==", "operator!=") and len(operands) == 2:
            a, b = [self.eval(unit, x, env, this) for x in operands]
            return self.compare(short[-2:], a, b)
        if short in ("operator+", "operator-") and len(operands) == 2:
            a, b = [self.eval(unit, x, env, this) for x in operands]
            return self.arith(short[-1], a, b)
        if short in ("operator+=", "operator-=") and len(operands) == 2:
            l = self.lv(unit, operands[0], env, this)
            if l is None:
                return None
            new = self.arith(short[-2], self.load(l), self.eval(unit, operands[1], env, this))
            self.store_loc(l, new)
            return new
        if short == "base" and len(operands) == 1:
            return self.eval(unit, operands[0], env, this)
        return None

    def arg_locs(self, unit, n, d, env, this):
        prefs = d.get("prefs") or []
        out = []
        for i, a in enumerate(n.get("args", [])):
            out.append(self.lv(unit, a, env, this) if i < len(prefs) and prefs[i] == "lref" else None)
        return out

    def load(self, l):
        t = l[0]
        if t == "@var":
            v = l[1].vars[l[2]]
            if isinstance(v, tuple) and v and v[0] == "@ref":
                return self.load(v[1])
            return v
        if t == "@fld":
            b = self.load(l[1])
            return self.field(b, l[2])
        if t == "@idx":
            b = self.load(l[1])
            el = _elems(b)
            if el is None or not 0 <= l[2] < len(el):
                return ("elem", b, l[2])
            return el[l[2]]
        raise Unsupported("load of %r" % (t,))

    def store_loc(self, l, v):
        t = l[0]
        if t == "@var":
            cur = l[1].vars[l[2]]
            if isinstance(cur, tuple) and cur and cur[0] == "@ref":
                return self.store_loc(cur[1], v)
            l[1].vars[l[2]] = v
            return
        if t == "@fld":
            b = self.load(l[1])
            if isinstance(b, tuple) and b and b[0] == "rec" and l[2] in dict(b[2]):
                nb = ("rec", b[1], tuple((f, v if f == l[2] else x) for f, x in b[2]))
            elif isinstance(b, tuple) and b and b[0] == "tuple" and l[2] in ("first", "second") and len(b[1]) == 2:
                nb = ("tuple", (v, b[1][1]) if l[2] == "first" else (b[1][0], v))
            elif isinstance(b, tuple) and b and b[0] == "new" and b[1] == "std::pair" and l[2] in ("first", "second") and len(b[3]) == 2:
                nb = ("new", b[1], b[2], (v, b[3][1]) if l[2] == "first" else (b[3][0], v))
            else:
                raise Unsupported("store into field %s of %s" % (l[2], show(b)))
            return self.store_loc(l[1], nb)
        if t == "@idx":
            b = self.load(l[1])
            nb = _with_elem(b, l[2], v)
            if nb is None:
                raise Unsupported("store into element %d of %s" % (l[2], show(b)))
            return self.store_loc(l[1], nb)
        raise Unsupported("store to %r" % (t,))

    def store(self, unit, lhs, v, env, this):
        if self.cfg.lvalues:
            loc_ = self.lv(unit, lhs, env, this)
            l0 = T.unwrap(unit, lhs)
            plain = l0 is not None and l0.get("k") == "ref" and not (isinstance(env.get(l0.get("id")), tuple) and (env.get(l0.get("id")) or ("",))[0] == "@ref")
            if loc_ is not None and not plain:
                self.store_loc(loc_, v)
                return
        l = T.unwrap(unit, lhs)
        if l is not None and l.get("k") == "ref" and l.get("dk") in ("local", "param", "static_local"):
            if self.cfg.ref_writes and l.get("dk") == "param" and env.has(("ref", l["id"])):
                self.event("refwrite", [env.get(("ref", l["id"])), v], unit.loc(l.get("loc")), label="refwrite")
            env.set(l["id"], v)
            return
        target = self.eval(unit, lhs, env, this)
        self.event("write", [target, v], unit.loc(lhs.get("loc") if lhs else None), label="write")

    # -- constructors ----------------------------------------------------------------------
    def construct(self, unit, n, env, this):
        cls = n.get("cls")
        args = [self.eval(unit, a, env, this) for a in n.get("args", [])]
        kind = n.get("ctor")
        d = unit.decls.get(n.get("callee"))
        h = self.cfg.hooks.get("construct")
        if h is not None:
            r = h(self, cls, kind, args, d, unit, n)
            if r is not None:
                return r
        if kind in ("copy", "move") and len(args) == 1:
            return args[0]
        if cls and d is not None and any(cls.startswith(pfx) for pfx in self.cfg.record_prefixes):
            r = self.record_of(unit, n, cls, d, args)
            if r is not None:
                return r
        if cls == OPT:
            if not args:
                return ("new", OPT, "none", ())
            a = args[0]
            pt = unit.ty(d["ptypes"][0]) if d and d.get("ptypes") else ""
            if "fcppt::optional::object<" in _strip_cvref(pt):
                return a  # converting from another optional: same tag/payload
            return ("new", OPT, "some", (a,))
        if cls == EITH and len(args) == 1 and d:
            rt = d.get("rec_targs") or _class_targs(unit.ty(n.get("t")))
            pt = _strip_cvref(unit.ty(d["ptypes"][0]))
            tag = None
            if rt and len(rt) == 2:
                if pt == _norm_type(rt[1]) and pt != _norm_type(rt[0]):
                    tag = "success"
                elif pt == _norm_type(rt[0]) and pt != _norm_type(rt[1]):
                    tag = "failure"
            if tag is None:
                raise Unsupported("cannot determine either alternative constructed at %s (%s vs %s)" % (unit.loc(n.get("loc")), pt, rt))
            return ("new", EITH, tag, (args[0],))
        if cls == VAR and len(args) == 1 and d:
            pt = _strip_cvref(unit.ty(d["ptypes"][0]))
            return ("new", VAR, pt, (args[0],))
        return ("new", cls, "", tuple(args))

    def record_of(self, unit, n, cls, d, args):
        """object built by a constructor whose member initialisers are interpreted: ("rec", cls, ((field, value), ...))"""
        fn = self.db.resolve(unit, n.get("callee"))
        if fn is None or fn.get("kind") != "ctor" or "inits" not in fn:
            return None
        params = fn.get("params", [])
        if len(params) != len(args):
            return None
        env = Env()
        for p_, a in zip(params, args):
            env.vars[p_["id"]] = a
        fields = []
        for i in fn["inits"]:
            if "field" not in i:
                continue
            fields.append((i["field"], self.eval(fn["_unit"], i.get("init"), env, None)))
        return ("rec", cls, tuple(fields))

    # -- calls -----------------------------------------------------------------------------
    def call(self, unit, n, env, this):
        d = unit.decls.get(n.get("callee")) if n.get("callee") is not None else None
        loc = unit.loc(n.get("loc"))
        if d is None:
            # indirect call through a function object value
            f = self.eval(unit, n.get("fn"), env, this)
            args = [self.eval(unit, a, env, this) for a in n.get("args", [])]
            return self.apply(f, args, unit, loc, this)
        qn = F.strip_targs(d["qn"])
        short = qn.split("::")[-1]
        if "c" in n and qn.startswith("std::numeric_limits"):
            return ("k", n["c"])
        if qn.startswith("std::integral_constant::operator "):
            # conversion of a compile-time constant: the value is part of the (instantiated) class name
            import re as _re
            m = _re.match(r"std::integral_constant<[^,]+, (-?\d+)[uUlL]*>::operator ", d["qn"])
            if m:
                return ("k", m.group(1))
        if qn in TRANSPARENT:
            if n.get("recv") is not None and not (n.get("opcall") == "()" and n.get("args")):
                rv = self.eval(unit, n["recv"], env, this)
                if (short == "get" and isinstance(rv, tuple) and len(rv) == 4 and rv[0] == "new" and rv[1] == "fcppt::reference"
                        and len(rv[3]) == 1 and isinstance(rv[3][0], Closure)):
                    return rv[3][0]     # a reference to a closure denotes the closure
                return rv
            if not n.get("args"):
                return ("k", None)
            return self.eval(unit, n["args"][0], env, this)
        if d.get("assign_kind") in ("copy", "move") and n.get("recv") is not None and len(n.get("args", [])) == 1:
            # value semantics: assignment of a whole object replaces the abstract value
            v = self.eval(unit, n["args"][0], env, this)
            self.store(unit, n["recv"], v, env, this)
            return v
        recv = self.eval(unit, n["recv"], env, this) if n.get("recv") is not None else None
        if n.get("arrow") and isinstance(recv, tuple) and recv and recv[0] in ("iter", "addr"):
            recv = recv[1]
        if n.get("opcall") in ("->", "*") and not n.get("args") and isinstance(recv, tuple) and recv and recv[0] == "iter":
            return recv[1]    # dereference of the position a search summary returned
        # closure call
        if d.get("lambda_class") is not None:
            args = [self.eval(unit, a, env, this) for a in n.get("args", [])]
            if isinstance(recv, Closure):
                ops = recv.node.get("ops", [])
                op = None
                for o in ops:
                    if o["id"] == d["id"] or o.get("mangled") == d.get("mangled"):
                        op = o
                        break
                if op is None and len(ops) == 1:
                    op = ops[0]
                if op is None:
                    # the closure comes from another instantiation context: match by template args
                    for o in ops:
                        if o.get("targs") == d.get("targs"):
                            op = o
                            break
                if op is None:
                    raise Unsupported("no matching call operator for lambda at %s" % loc)
                return self.apply_lambda_op(recv, op, args)
            return self.event("call", [recv] + args, loc, label="call")
        if self.cfg.iter_positions and (_is_std_iter(d) or any(qn.startswith(p_) for p_ in self.cfg.iter_classes)):
            r = self.iter_op(unit, n, d, qn, short, env, this)
            if r is not None:
                return r
        args = [self.eval(unit, a, env, this) for a in n.get("args", [])]
        if self.cfg.iter_positions and qn == "std::accumulate" and len(args) in (3, 4):
            # summary (trusted): left fold over [first, last) -- the same `more(range, i)` atoms a range-for over that range decides
            rng = None
            f0, l0 = args[0], args[1]
            if isinstance(f0, tuple) and f0 and f0[0] == "ev" and isinstance(l0, tuple) and l0 and l0[0] == "ev":
                e0, e1 = self.path.events[f0[1] - 1], self.path.events[l0[1] - 1]
                if e0[0].split("<")[0].split("::")[-1] in ("begin", "cbegin") and e1[0].split("<")[0].split("::")[-1] in ("end", "cend") \
                        and len(e0[1]) == 1 and e0[1] == e1[1]:
                    rng = e0[1][0]
            if rng is not None:
                acc = args[2]
                i = 0
                while self.decide(("more", rng, i)):
                    if i >= self.cfg.loop_bound:
                        self.event("loop-bound", [], unit.loc(n.get("loc")))
                        raise _Truncated()
                    e = ("elem", rng, i)
                    acc = self.apply(args[3], [acc, e], unit, unit.loc(n.get("loc")), None) if len(args) == 4 else self.arith("+", acc, e)
                    i += 1
                return acc
        if short in ("operator==", "operator!=") and _is_std_iter(d):
            # std iterators without the position model: equality of identical values / of a found position with end() is decided
            vals = ([recv] if recv is not None else []) + args
            if len(vals) == 2:
                r = self.compare(short[-2:], vals[0], vals[1])
                if r in (TRUE, FALSE):
                    return r
        if self.cfg.std_search and qn == "std::find_if" and len(args) == 3:
            # summary (trusted): the position of the first element of [first, last) satisfying the predicate, else last -- over
            # the same `more(range, i)` atoms a range-for over that range decides; a found position never equals end()
            rng = None
            f0, l0 = args[0], args[1]
            if isinstance(f0, tuple) and f0 and f0[0] == "ev" and isinstance(l0, tuple) and l0 and l0[0] == "ev":
                e0, e1 = self.path.events[f0[1] - 1], self.path.events[l0[1] - 1]
                if e0[0].split("<")[0].split("::")[-1] in ("begin", "cbegin") and e1[0].split("<")[0].split("::")[-1] in ("end", "cend") \
                        and len(e0[1]) == 1 and e0[1] == e1[1]:
                    rng = e0[1][0]
            if rng is not None:
                elems = list_elems(rng)
                if elems is not None:
                    for e in elems:
                        if self.truth(self.apply(args[2], [e], unit, unit.loc(n.get("loc")), None)):
                            return ("iter", e)
                    return l0
                i = 0
                while self.decide(("more", rng, i)):
                    if i >= self.cfg.loop_bound:
                        self.event("loop-bound", [], unit.loc(n.get("loc")))
                        raise _Truncated()
                    e = ("elem", rng, i)
                    if self.truth(self.apply(args[2], [e], unit, unit.loc(n.get("loc")), None)):
                        return ("iter", e)
                    i += 1
                return l0
        if self.cfg.iter_positions and qn == "std::for_each" and len(args) == 3:
            # summary (trusted): f(*it) for every position of [first, last) in order -- the `more(range, i)` atoms of a range-for
            rng = None
            f0, l0 = args[0], args[1]
            if isinstance(f0, tuple) and f0 and f0[0] == "ev" and isinstance(l0, tuple) and l0 and l0[0] == "ev":
                e0, e1 = self.path.events[f0[1] - 1], self.path.events[l0[1] - 1]
                if e0[0].split("<")[0].split("::")[-1] in ("begin", "cbegin") and e1[0].split("<")[0].split("::")[-1] in ("end", "cend") \
                        and len(e0[1]) == 1 and e0[1] == e1[1]:
                    rng = e0[1][0]
            if rng is not None:
                i = 0
                while self.decide(("more", rng, i)):
                    if i >= self.cfg.loop_bound:
                        self.event("loop-bound", [], unit.loc(n.get("loc")))
                        raise _Truncated()
                    self.apply(args[2], [("elem", rng, i)], unit, unit.loc(n.get("loc")), None)
                    i += 1
                return args[2]
        if self.cfg.iter_positions and qn in ("std::next", "std::prev") and args:
            k = args[1] if len(args) > 1 else ("k", "1")
            return self.arith("+" if qn == "std::next" else "-", args[0], k)
        hook = self.cfg.hooks.get(qn)
        if hook is not None:
            r = hook(self, recv, args, d, unit, n)
            if r is not None:
                return r
        r = self.primitive(qn, short, recv, args, d, unit, n)
        if r is not None:
            return r
        if short == "operator()" and recv is not None and not isinstance(recv, Closure) and not d.get("has_body"):
            return self.event("call", [recv] + args, loc, label="call")
        if qn in self.cfg.pure or any(qn.startswith(p) for p in self.cfg.pure_prefixes):
            if self.cfg.lvalues and qn in ("fcppt::array::object::get_unsafe", "fcppt::array::object::operator[]") and recv is not None and len(args) == 1 \
                    and is_const(args[0]) and isinstance(recv, tuple) and recv and recv[0] in ("rec", "new"):
                el = _elems(recv)
                try:
                    i_ = int(str(args[0][1]).rstrip("uUlL"))
                except (TypeError, ValueError):
                    i_ = None
                if el is not None and i_ is not None and 0 <= i_ < len(el):
                    return el[i_]        # element of an array value that is known
            key = qn + ("<" + ",".join(d.get("targs", [])) + ">" if d.get("targs") else "")
            return ("app", key, tuple(([recv] if recv is not None else []) + args))
        if (qn in self.cfg.inline or any(qn.startswith(p) for p in self.cfg.inline_prefixes)) and qn not in self.cfg.opaque:
            fn = self.db.resolve(unit, d["id"])
            if fn is None or fn.get("body") is None:
                raise Unsupported("no body available to inline %s (called at %s)" % (qn, loc))
            if self.cfg.lvalues:
                arglocs = self.arg_locs(unit, n, d, env, this)
                thisloc = self.lv(unit, n["recv"], env, this) if n.get("recv") is not None and not d.get("const") else None
                return self.call_function(fn, args, recv, arglocs=arglocs, thisloc=thisloc)
            return self.call_function(fn, args, recv)
        key = qn + ("<" + ",".join(d.get("targs", [])) + ">" if d.get("targs") else "")
        return self.event(key, ([recv] if recv is not None else []) + args, loc, label=short)

    def primitive(self, qn, short, recv, args, d, unit, n):
        # ---- optional
        if qn == OPT + "::has_value":
            return self.opt_has(recv)
        if qn == OPT + "::get_unsafe":
            if isinstance(recv, tuple) and recv[0] == "new" and recv[1] == OPT:
                if recv[2] == "some":
                    return recv[3][0]
                self.path.events.append(("UNSAFE", (recv,), unit.loc(n.get("loc"))))
                return ("app", "get_unsafe", (recv,))
            if not self.truth(self.opt_has(recv)):
                self.path.events.append(("UNSAFE", (recv,), unit.loc(n.get("loc"))))
            return ("app", "some_payload", (recv,))
        # ---- either
        if qn == EITH + "::has_success":
            return self.eith_tag(recv)
        if qn == EITH + "::has_failure":
            return mk_not(self.eith_tag(recv))
        if qn in (EITH + "::get_success_unsafe", EITH + "::get_failure_unsafe"):
            want = "success" if "success" in short else "failure"
            if isinstance(recv, tuple) and recv[0] == "new" and recv[1] == EITH:
                if recv[2] == want:
                    return recv[3][0]
                self.path.events.append(("UNSAFE", (recv,), unit.loc(n.get("loc"))))
                return ("app", want + "_payload", (recv,))
            has = self.truth(self.eith_tag(recv))
            if has != (want == "success"):
                self.path.events.append(("UNSAFE", (recv,), unit.loc(n.get("loc"))))
            return ("app", want + "_payload", (recv,))
        # ---- variant
        if qn == "fcppt::variant::holds_type":
            ty = _norm_type((d.get("targs") or ["?"])[0])
            return self.var_holds(args[0], ty)
        if qn in ("fcppt::variant::get_unsafe", VAR + "::get_unsafe"):
            v = recv if recv is not None else args[0]
            ty = _norm_type((d.get("targs") or ["?"])[0])
            if isinstance(v, tuple) and v[0] == "new" and v[1] == VAR:
                if _norm_type(v[2]) == ty:
                    return v[3][0]
            elif self.truth(self.var_holds(v, ty)):
                return ("app", "alt_payload<%s>" % ty, (v,))
            self.path.events.append(("UNSAFE", (v,), unit.loc(n.get("loc"))))
            return ("app", "alt_payload<%s>" % ty, (v,))
        if qn == "fcppt::variant::apply" and len(args) == 2 and isinstance(args[0], Closure):
            # semantic summary of std::visit over one variant: the visitor's call operator for the held
            # alternative's type is applied to that alternative (alternatives are mutually exclusive)
            f, v = args
            ops = f.node.get("ops", [])
            alts = []
            for op in ops:
                ps = op.get("params", [])
                if len(ps) != 1:
                    raise Unsupported("variant::apply visitor with %d parameters" % len(ps))
                alts.append((_strip_cvref(f.unit.ty(ps[0]["t"])), op))
            if not alts:
                raise Unsupported("variant::apply visitor without instantiated call operators")
            chosen = None
            if isinstance(v, tuple) and v[0] == "new" and v[1] == VAR:
                for ty, op in alts:
                    if _norm_type(v[2]) == ty:
                        chosen = (ty, op, v[3][0])
            else:
                for ty, op in alts[:-1]:
                    if self.truth(self.var_holds(v, ty)):
                        chosen = (ty, op, ("app", "alt_payload<%s>" % ty, (v,)))
                        break
                if chosen is None:
                    ty, op = alts[-1]
                    # the last alternative holds by exclusion: record it so that later holds<> tests agree
                    self.assign[("app", "holds<%s>" % ty, (v,))] = True
                    chosen = (ty, op, ("app", "alt_payload<%s>" % ty, (v,)))
            if chosen is None:
                raise Unsupported("variant::apply: no visitor specialisation for the held alternative")
            return self.apply_lambda_op(f, chosen[1], [chosen[2]])
        if qn == "fcppt::variant::match" and len(args) >= 2:
            # semantic summary (its index selection is pinned by the C04 type witnesses): the i-th function is
            # applied to the payload of the i-th alternative, alternatives in type-list order, exactly one holds
            v = args[0]
            fs = args[1:]
            pt = _strip_cvref(unit.ty(d["ptypes"][0])) if d.get("ptypes") else ""
            types = [_norm_type(t) for t in (_class_targs(pt) or [])]
            if len(types) != len(fs):
                raise Unsupported("variant::match with %d functions over %s" % (len(fs), pt))
            chosen = None
            if isinstance(v, tuple) and v[0] == "new" and v[1] == VAR:
                for i, ty in enumerate(types):
                    if _norm_type(v[2]) == ty:
                        chosen = i
                payload = v[3][0]
            else:
                for i, ty in enumerate(types[:-1]):
                    if self.truth(self.var_holds(v, ty)):
                        chosen = i
                        break
                if chosen is None:
                    chosen = len(types) - 1
                payload = ("app", "alt_payload<%s>" % types[chosen], (v,))
            if chosen is None:
                raise Unsupported("variant::match: constructed alternative %s not in %s" % (v[2], types))
            return self.apply(fs[chosen], [payload], unit, unit.loc(n.get("loc")), None)
        if qn == "fcppt::not_":
            return mk_not(args[0])
        if qn in ("fcppt::algorithm::find_if_opt",) and len(args) == 2:
            # summary (trusted): position of the first element satisfying the predicate, else nothing
            elems = list_elems(args[0])
            if elems is not None:
                for e in elems:
                    v = self.apply(args[1], [e], unit, unit.loc(n.get("loc")), None)
                    if self.truth(v):
                        return ("new", OPT, "some", (("iter", e),))
                return ("new", OPT, "none", ())
            if isinstance(args[0], tuple) and args[0] and args[0][0] in ("sym", "fld", "ev"):
                # run-time range: the same `more(range, i)` atoms a later range-for over the same range decides
                i = 0
                while self.decide(("more", args[0], i)):
                    if i >= self.cfg.loop_bound:
                        self.event("loop-bound", [], unit.loc(n.get("loc")))
                        raise _Truncated()
                    e = ("elem", args[0], i)
                    v = self.apply(args[1], [e], unit, unit.loc(n.get("loc")), None)
                    if self.truth(v):
                        return ("new", OPT, "some", (("iter", e),))
                    i += 1
                return ("new", OPT, "none", ())
        if qn == "fcppt::algorithm::all_of" and len(args) == 2:
            # summary (trusted, listed in the evidence): conjunction in iteration order, short-circuit
            elems = list_elems(args[0])
            if elems is not None:
                for e in elems:
                    if isinstance(args[1], tuple) and args[1][0] == "new" and args[1][1] == "fcppt::identity":
                        v = e
                    else:
                        v = self.apply(args[1], [e], unit, unit.loc(n.get("loc")), None)
                    if not self.truth(v):
                        return FALSE
                return TRUE
        if qn in ("std::min", "std::max") and len(args) == 2:
            a, b = args
            if qn == "std::min":
                return b if self.truth(self.compare("<", b, a)) else a
            return b if self.truth(self.compare("<", a, b)) else a
        if qn == "std::clamp" and len(args) == 3:
            # summary (the standard's definition): v < lo ? lo : hi < v ? hi : v
            v0, lo, hi = args
            if self.truth(self.compare("<", v0, lo)):
                return lo
            return hi if self.truth(self.compare("<", hi, v0)) else v0
        if qn == "fcppt::literal" and args:
            return args[0]
        if qn in ("std::make_pair", "fcppt::tuple::make", "std::make_tuple"):
            return ("tuple", tuple(args))
        if qn == "fcppt::tuple::get" and args and isinstance(args[0], tuple) and args[0][0] == "tuple":
            idx = (d.get("targs") or ["0"])[0]
            try:
                return args[0][1][int(str(idx).rstrip("UL"))]
            except (ValueError, IndexError):
                return None
        return None

    def opt_has(self, v):
        if isinstance(v, tuple) and v[0] == "new" and v[1] == OPT:
            return TRUE if v[2] == "some" else FALSE
        return ("app", "has_value", (v,))

    def eith_tag(self, v):
        if isinstance(v, tuple) and v[0] == "new" and v[1] == EITH:
            return TRUE if v[2] == "success" else FALSE
        return ("app", "has_success", (v,))

    def var_holds(self, v, ty):
        if isinstance(v, tuple) and v[0] == "new" and v[1] == VAR:
            return TRUE if _norm_type(v[2]) == ty else FALSE
        # exclusive alternatives: if another type is already known to be held, this one is not
        for (a, b) in list(self.assign.items()):
            if b and isinstance(a, tuple) and a[0] == "app" and a[1].startswith("holds<") and a[2] == (v,) and a[1] != "holds<%s>" % ty:
                return FALSE
        return ("app", "holds<%s>" % ty, (v,))


def _is_std_iter(d):
    q = d.get("qn") or ""
    if not (q.startswith("std::") or q.startswith("__gnu_cxx::")):
        return False
    head = q.split("(")[0]
    return "iterator" in head.lower() or head.startswith("__gnu_cxx::operator") or bool(_re_iter_free.match(head))


import re as _re_mod
_re_iter_free = _re_mod.compile(r"^std::(__detail::)?operator(==|!=|\+|-)$")


def _elems(v):
    """element list of an array-like value: descends single-field records and std::array aggregates"""
    for _ in range(8):
        if isinstance(v, tuple) and v and v[0] == "new" and v[2] == "agg" and v[1].endswith("]"):
            return list(v[3])       # a built-in array aggregate
        if isinstance(v, tuple) and v and v[0] == "new" and v[2] == "agg" and len(v[3]) == 1 and isinstance(v[3][0], tuple) and v[3][0] \
                and v[3][0][0] == "new" and v[3][0][2] == "agg" and v[3][0][1].endswith("]"):
            return list(v[3][0][3])
        if isinstance(v, tuple) and v and v[0] == "rec" and len(v[2]) == 1:
            v = v[2][0][1]
            continue
        if isinstance(v, tuple) and v and v[0] == "tuple":
            return list(v[1])
        if isinstance(v, tuple) and v and v[0] == "new" and v[1] in ("std::pair", "std::tuple", "fcppt::tuple::object") and v[2] != "agg":
            return list(v[3])
        el = list_elems(v)
        if el is not None:
            return list(el)
        return None
    return None


def _with_elem(v, i, x):
    if isinstance(v, tuple) and v and v[0] == "rec" and len(v[2]) == 1:
        inner = _with_elem(v[2][0][1], i, x)
        return None if inner is None else ("rec", v[1], ((v[2][0][0], inner),))
    if isinstance(v, tuple) and v and v[0] == "tuple":
        el = list(v[1])
        if 0 <= i < len(el):
            el[i] = x
            return ("tuple", tuple(el))
        return None
    if isinstance(v, tuple) and v and v[0] == "list":
        el = list(v[1])
        if 0 <= i < len(el):
            el[i] = x
            return ("list", tuple(el))
        return None
    if isinstance(v, tuple) and v and v[0] == "new" and v[1] in ("std::pair", "std::tuple", "fcppt::tuple::object") and v[2] != "agg":
        el = list(v[3])
        if 0 <= i < len(el):
            el[i] = x
            return ("new", v[1], v[2], tuple(el))
        return None
    if isinstance(v, tuple) and v and v[0] == "new" and v[1] in LIST_CLASSES:
        el = list_elems(v)
        if el is not None and 0 <= i < len(el):
            el = list(el)
            el[i] = x
            return ("new", v[1], v[2], (("tuple", tuple(el)),))
        return None
    return None


def _is_mut_ref(t):
    t = (t or "").strip()
    return t.endswith("&") and not t.endswith("&&") and not t.startswith("const ")


def _is_class_type(t):
    return bool(t) and "::" in t and not t.endswith("*")


def list_elems(v):
    if isinstance(v, tuple) and v and v[0] == "list":
        return list(v[1])
    if isinstance(v, tuple) and v and v[0] == "new" and v[1] in LIST_CLASSES:
        out = []
        for a in v[3]:
            if isinstance(a, tuple) and a and a[0] == "tuple":
                out.extend(a[1])
            else:
                out.append(a)
        return out
    return None


def param_symbols(params):
    """symbol names for parameters; expanded packs share one name and get an index suffix"""
    names = [p["name"] or "arg%d" % i for i, p in enumerate(params)]
    out = []
    for i, n in enumerate(names):
        if names.count(n) > 1:
            out.append("%s#%d" % (n, names[:i].count(n) + 1))
        else:
            out.append(n)
    return out


def _strip_cvref(t):
    if t is None:
        return None
    t = t.strip()
    changed = True
    while changed:
        changed = False
        for suf in ("&&", "&"):
            if t.endswith(suf):
                t = t[:-len(suf)].strip()
                changed = True
        if t.startswith("const "):
            t = t[6:].strip()
            changed = True
        if t.endswith(" const"):
            t = t[:-6].strip()
            changed = True
    return _norm_type(t)


def _norm_type(t):
    return (t or "").replace(" >", ">").replace("> >", ">>").strip()


def _class_targs(t):
    """template argument strings of 'ns::cls<a, b<c, d>>' (top level split)"""
    if not t or "<" not in t:
        return None
    inner = t[t.index("<") + 1: t.rindex(">")]
    out, depth, cur = [], 0, ""
    for ch in inner:
        if ch == "<":
            depth += 1
        elif ch == ">":
            depth -= 1
        if ch == "," and depth == 0:
            out.append(cur.strip())
            cur = ""
        else:
            cur += ch
    if cur.strip():
        out.append(cur.strip())
    return out
