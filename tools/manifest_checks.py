check("C04", "proof",
      "Every combinator's decision table (continuation invoked, how often, with which payload, which constructor builds the result) is derived by abstract interpretation over all consistent tag assignments and compared row by row with the documented table; variadic forms by a dedicated pack rule; 114 type-level witnesses. Exhaustive over the finite abstract domain; the lift to all types, values and functions is the parametricity argument of specs/C04-laws.md.",
      "Trusted: clang front end; std::optional/std::variant behind has_value/holds_type/get_unsafe; summaries of algorithm::all_of / find_if_opt; the written parametricity argument. Loop combinators (cat, sequence, first_success, loop) and variant::match/apply are covered by guard and witness rules only in this round.",
      "abstract interpretation over finite tag domains + decision-table comparison + compile witnesses", "DESIGN.md §6 C04")
check("C09", "other",
      "Invariant preservation: every member function of tree::object is checked against who-may-write(parent_), paired re-parenting of every children_ replacement, detach-nulls-parent and constructor establishment rules; given std::list address stability this gives the link invariant after every operation history.",
      "Decides the link invariant only (first sentence of the property); traversal/depth/level/map/comparison agreement with a reference model is not decided. Trusted: std::list address stability.",
      "field-write and paired-update rules over the type-resolved AST", "DESIGN.md §6 C09")
check("C11", "other",
      "Ring-surgery discipline: every path of every member of intrusive::base / intrusive::list orders its link writes as bridge-before-overwrite and takeover = copy + adopt + reset; list moves are guarded by emptiness; signal call order and unregister destructor shape.",
      "Decides preservation of the doubly-linked ring invariant by each operation and the signal call/unregister structure; the history-level membership statement follows informally and is not mechanised.",
      "path-ordered link-write classification", "DESIGN.md §6 C11")
