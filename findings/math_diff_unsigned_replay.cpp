#include <fcppt/math/diff.hpp>
#include <cstdint>
#include <cstdio>
int main()
{
  int bad = 0;
  auto chk = [&](auto a, auto b, auto want) {
    auto got = fcppt::math::diff(a, b);
    if (got != want) { std::printf("diff(%llu, %llu) = %llu, exact |a-b| = %llu\n", (unsigned long long)a, (unsigned long long)b, (unsigned long long)got, (unsigned long long)want); ++bad; }
  };
  chk(std::uint32_t{0}, std::uint32_t{0xFFFFFFFFu}, std::uint32_t{0xFFFFFFFFu});
  chk(std::uint32_t{0xC0000000u}, std::uint32_t{1}, std::uint32_t{0xBFFFFFFFu});
  chk(std::uint8_t{0}, std::uint8_t{255}, std::uint8_t{255});
  chk(std::uint8_t{3}, std::uint8_t{5}, std::uint8_t{2});
  chk(std::uint64_t{0}, ~std::uint64_t{0}, ~std::uint64_t{0});
  chk(std::uint32_t{7}, std::uint32_t{9}, std::uint32_t{2});
  std::printf(bad ? "VIOLATION\n" : "OK\n");
  return bad != 0;
}
