"""C11 Intrusive list / signal membership equals the set of live connections (DESIGN.md §6 C11).

Ring invariant R: x.next_->prev_ == x and x.prev_->next_ == x for every hook including list heads.
Decided (RING-SHAPE): every member of intrusive::base and intrusive::list, interpreted over one
representative heap per SHAPE CLASS of the rings involved (engine/shape.py), preserves R and produces
exactly the ring membership the ring-surgery specification prescribes (takeover, unlink, splice).
An earlier version classified the link WRITES by pattern (bridge / copy-links / adopt / self-loop) and
required an order; it was exact on the code as written but raised false alarms on the corrected
takeover (`_other.prev_ == &_other ? this : _other.prev_`), so it was replaced. Signal: operator()
visits connections() in list order folding from the initial value; the unregister destructor is
unlink, then the callback exactly once, never throwing past terminate.
Not decided: the history-level statement beyond R.
"""
from engine import facts as F
from engine import load
from engine import lrules as L
from engine import shape as SH
from engine import sx
from engine import terms as T

LEVEL = "other"
BASE = "fcppt::intrusive::base"
LIST = "fcppt::intrusive::list"
THIS = ("this",)


def shape_cases(db):
    """[(key, description, function, builder)] -- builder() -> (heap, this value, args, live nodes, expected rings)"""
    def pick(qn, pred):
        seen = {}
        for fn in db.fns(qn):
            if pred(fn) and fn.get("body") is not None:
                seen.setdefault(F.primary_site(fn), fn)
        return list(seen.values())[:1]
    u_ty = lambda fn, i: fn["_unit"].ty(fn["params"][i]["t"]) or ""
    cases = []

    def heap_with(rings, fresh=(), lists=()):
        h = SH.Heap()
        for r in rings:
            h.ring(r)
        for f_ in fresh:
            h.fresh(f_)
        for (l, hd) in lists:
            h.lists[l] = hd
        h.far = set(n for r in rings for n in r if n.endswith("F"))
        return h

    def takeover_spec(rings, t, o):
        """t takes o's place (after t left its own ring); o ends as a ring of one"""
        if t == o:
            return rings
        r2 = SH.spec_remove(rings, t)
        alone = any(r == [o] for r in r2)
        if alone:
            return [r for r in r2 if r != [o]] + [[t], [o]]
        return SH.spec_replace(r2, o, t) + [[o]]

    # unary: destructor, unlink
    for fn in pick(BASE + "::~base", lambda f: True):
        for r in SH.ring_shapes("T", "a"):
            cases.append(("~base|ring=%d" % len(r), "destroying a hook closes its ring around it", fn,
                          (lambda r=r: (heap_with([r]), ("n", "T"), [], set(r) - {"T"}, SH.spec_remove([r], "T")))))
    for fn in pick(BASE + "::unlink", lambda f: True):
        for r in SH.ring_shapes("T", "a"):
            cases.append(("unlink|ring=%d" % len(r), "unlink closes the ring and leaves the hook as a ring of one", fn,
                          (lambda r=r: (heap_with([r]), ("n", "T"), [], set(r), SH.spec_remove([r], "T") + [["T"]]))))
    # insertion constructor
    for fn in pick(BASE + "::base", lambda f: len(f.get("params", [])) == 1 and "intrusive::list" in u_ty(f, 0)):
        for r in SH.ring_shapes("H", "h"):
            cases.append(("base(list&)|list-ring=%d" % len(r), "a new hook is spliced in before the head (at the end of the list)", fn,
                          (lambda r=r: (heap_with([r], fresh=["T"], lists=[("L", "H")]), ("n", "T"), [("l", "L")], set(r) | {"T"}, [r + ["T"]]))))
    # default constructor
    for fn in pick(BASE + "::base", lambda f: not f.get("params")):
        cases.append(("base()", "a default-constructed hook is a ring of one", fn,
                      (lambda: (heap_with([], fresh=["T"]), ("n", "T"), [], {"T"}, [["T"]]))))
    # move constructor
    for fn in pick(BASE + "::base", lambda f: f.get("ctor_kind") == "move"):
        for r in SH.ring_shapes("O", "o"):
            cases.append(("base(base&&)|source-ring=%d" % len(r), "the new hook takes the source's place; a source that is a ring of one (unlinked, moved-from, or its list died) gives a ring of one", fn,
                          (lambda r=r: (heap_with([r], fresh=["N"]), ("n", "N"), [("n", "O")], set(r) | {"N"}, takeover_spec([r] + [["N"]], "N", "O")))))
    # move assignment
    for fn in pick(BASE + "::operator=", lambda f: len(f.get("params", [])) == 1):
        for r in SH.ring_shapes("T", "a"):
            cases.append(("base::operator=|self|ring=%d" % len(r), "self-assignment changes nothing", fn,
                          (lambda r=r: (heap_with([r]), ("n", "T"), [("n", "T")], set(r), [r]))))
        for rt in SH.ring_shapes("T", "a"):
            for ro in SH.ring_shapes("O", "o"):
                cases.append(("base::operator=|target-ring=%d,source-ring=%d" % (len(rt), len(ro)),
                              "the target leaves its ring (which closes) and takes the source's place; the source ends as a ring of one", fn,
                              (lambda rt=rt, ro=ro: (heap_with([rt, ro]), ("n", "T"), [("n", "O")], set(rt) | set(ro), takeover_spec([rt, ro], "T", "O")))))
        for r in (["T", "O"], ["T", "O", "x1"], ["O", "T", "x1"], ["T", "O", "x1", "xF", "x2"], ["O", "T", "x1", "xF", "x2"],
                  ["T", "x1", "O", "x2"], ["T", "a1", "aF", "a2", "O", "b1", "bF", "b2"]):
            cases.append(("base::operator=|same-ring=%s" % "-".join(r), "target and source in the same ring", fn,
                          (lambda r=r: (heap_with([r]), ("n", "T"), [("n", "O")], set(r), takeover_spec([r], "T", "O")))))
    # list move construction / assignment (the heads are hooks)
    for fn in pick(LIST + "::list", lambda f: f.get("ctor_kind") == "move"):
        for r in SH.ring_shapes("H1", "e"):
            cases.append(("list(list&&)|source-ring=%d" % len(r), "the new list takes over the members; an empty source gives an empty list", fn,
                          (lambda r=r: (heap_with([r], fresh=["H2"], lists=[("L1", "H1"), ("L2", "H2")]), ("l", "L2"), [("l", "L1")], set(r) | {"H2"},
                                        takeover_spec([r] + [["H2"]], "H2", "H1")))))
    for fn in pick(LIST + "::operator=", lambda f: len(f.get("params", [])) == 1):
        for r in SH.ring_shapes("H1", "e"):
            cases.append(("list::operator=|self|ring=%d" % len(r), "self-assignment changes nothing", fn,
                          (lambda r=r: (heap_with([r], lists=[("L1", "H1")]), ("l", "L1"), [("l", "L1")], set(r), [r]))))
        for rt in SH.ring_shapes("H2", "t"):
            for ro in SH.ring_shapes("H1", "e"):
                cases.append(("list::operator=|target-ring=%d,source-ring=%d" % (len(rt), len(ro)),
                              "the target's old members stay a closed ring among themselves, the target takes over the source's members, the source is empty", fn,
                              (lambda rt=rt, ro=ro: (heap_with([rt, ro], lists=[("L1", "H1"), ("L2", "H2")]), ("l", "L2"), [("l", "L1")], set(rt) | set(ro),
                                                     takeover_spec([rt, ro], "H2", "H1")))))
    return cases


def rule_shape(rep, db):
    cases = shape_cases(db)
    for (key, text, fn, build) in cases:
        heap, this, args, live, want = build()
        site = F.primary_site(fn)
        try:
            SH.Interp(db, heap).run(fn, this, args)
        except SH.ShapeUnsupported as e:
            rep.broken("C11 RING-SHAPE %s: %s" % (key, e))
            continue
        got = heap.rings_of(live)
        exp = SH.canon_set(want)
        if isinstance(got, str):
            rep.fail("RING-SHAPE", key, site, F.describe(fn)[:160], why="%s: %s" % (text, got),
                     detail={"links_after": {n: heap.nodes[n] for n in sorted(heap.nodes)}, "expected_rings": sorted(exp)})
        elif got != exp:
            rep.fail("RING-SHAPE", key, site, F.describe(fn)[:160],
                     why="%s: rings afterwards are %s, specification %s" % (text, sorted(got), sorted(exp)),
                     detail={"links_after": {n: heap.nodes[n] for n in sorted(heap.nodes)}})
        else:
            rep.ok("RING-SHAPE", key, site, F.describe(fn)[:160], how="shape-class")


def main(rep, tier, only):
    db = load.load(tier, lib=False, drivers=["drv_containers"])
    rep.extra.update(db.stats())
    rep.rule("RING-SHAPE", "every ring operation of intrusive::base / intrusive::list, interpreted over one representative heap per shape "
                           "class of the rings involved (ring of one / two / distinct neighbours; different rings, same ring adjacent or "
                           "not), leaves every live hook in a consistent ring with exactly the membership the ring-surgery specification "
                           "prescribes", floor=40)
    if only in (None, "RING-SHAPE"):
        rule_shape(rep, db)
    rep.rule("SIG-ORDER", "signal::operator() visits connections() in list order, folding from the initial value / calling every item", floor=2)
    rep.rule("SIG-UNREG", "unregister connection destructor: unlink first, then the unregister callback exactly once, "
                          "exceptions end in std::terminate", floor=1)
    # ---- signal
    seen_sig = set()

    def sig_order(db, fn):
        """decided on the paths of operator() over a twice-unrolled connection list, however the iteration is written (range-for,
        algorithm::fold, std::accumulate): connection k's function is called with the caller's arguments, in list order, once each;
        a combining signal calls combiner(state so far, result of connection k) and returns the last state"""
        u_ = fn["_unit"]
        cfg = sx.Config(inline_prefixes=("fcppt::algorithm::", "fcppt::range::", "fcppt::signal::detail::"), loop_bound=2, lvalues=True, iter_positions=True,
                        iter_classes=("fcppt::iterator::base::",))
        try:
            # an explicit loop with the list's iterators is read as the range-for it stands for (positions -> elements)
            ps = [sx.positions_as_elements(p_) for p_ in sx.Interp(db, cfg).paths(fn, this=("sym", "this"), limit=40)]
        except sx.Unsupported as e:
            rep.broken("C11 SIG-ORDER %s: %s" % (F.describe(fn)[:80], e))
            return "broken"
        void = u_.ty(fn.get("ret")) == "void"
        params = [p_["name"] for p_ in fn.get("params", [])]
        sig_args = params if void else params[1:]
        complete = 0
        for p in ps:
            if p.outcome[0] != "return":
                continue
            ev = p.events
            conn = None        # the term of the connection list
            n = 0
            for d, v in p.decisions:
                if not (isinstance(d, tuple) and d and d[0] == "more"):
                    return "the iteration depends on something other than 'there is another connection': %s" % sx.show(d)
                if conn is None:
                    conn = d[1]
                if d[1] != conn:
                    return "two different ranges are iterated"
                n += 1 if v else 0
            cs = sx.show(conn) if conn is not None else ""
            if conn is not None and "connections" not in cs:
                return "the range iterated is %s, not the signal's connections" % cs
            complete += 1

            def conn_index(t):
                """k when the callee denotes the function of connection k"""
                if isinstance(t, tuple) and t and t[0] == "ev":
                    e = ev[t[1] - 1]
                    if e[0].split("<")[0].endswith("::function") and len(e[1]) == 1:
                        t = e[1][0]
                while isinstance(t, tuple) and t and t[0] == "fld":
                    t = t[1]
                if isinstance(t, tuple) and t and t[0] == "elem" and t[1] == conn:
                    return t[2]
                return None
            calls = [(i_, e) for i_, e in enumerate(ev, 1) if e[0].split("<")[0] == "fcppt::function::operator()"]
            fcalls = [(i_, e) for i_, e in calls if conn_index(e[1][0]) is not None]
            ccalls = [(i_, e) for i_, e in calls if "combiner_" in sx.show(e[1][0])]
            if [conn_index(e[1][0]) for i_, e in fcalls] != list(range(n)):
                return "for %d connections the functions called are those of connections %s" % (n, [conn_index(e[1][0]) for i_, e in fcalls])
            if any([sx.show(a) for a in e[1][1:]] != sig_args for i_, e in fcalls):
                return "a connection is not called with the signal's own arguments"
            if len(calls) != len(fcalls) + len(ccalls):
                return "calls other than the connections' functions and the combiner"
            if void:
                if ccalls:
                    return "a void signal calls a combiner"
                continue
            if len(ccalls) != n:
                return "for %d connections the combiner is called %d times" % (n, len(ccalls))
            state = None
            for k, ((ci, ce), (fi, fe)) in enumerate(zip(ccalls, fcalls)):
                a = ce[1][1:]
                if len(a) != 2:
                    return "the combiner is not called with two arguments"
                s0 = a[0]
                if isinstance(s0, tuple) and s0 and s0[0] == "ev" and ev[s0[1] - 1][0].split("<")[0].endswith("strong_typedef::get"):
                    s0 = ev[s0[1] - 1][1][0]
                first_ok = sx.show(s0) == params[0] if k == 0 else (isinstance(a[0], tuple) and a[0][:2] == ("ev", state))
                if not first_ok or not (isinstance(a[1], tuple) and a[1][:2] == ("ev", fi)):
                    return "step %d calls combiner(%s, %s); a left fold calls combiner(state so far, result of this connection)" % (k, sx.show(a[0]), sx.show(a[1]))
                state = ci
            out = p.outcome[1]
            if n == 0:
                o0 = out
                if isinstance(o0, tuple) and o0 and o0[0] == "ev" and ev[o0[1] - 1][0].split("<")[0].endswith("strong_typedef::get"):
                    o0 = ev[o0[1] - 1][1][0]
                if sx.show(o0) != params[0]:
                    return "without connections the result is %s, not the initial value" % sx.show(out)
            elif not (isinstance(out, tuple) and out[:2] == ("ev", state)):
                return "the result is %s, not the last combined state" % sx.show(out)
        if complete < 3:
            return "fewer than three complete paths (0, 1, 2 connections)"
        return None
    for fn in db.functions:
        nm = F.fn_name(fn)
        u = fn["_unit"]
        if nm == "fcppt::signal::object::operator()":
            key = "%s|%s|%s" % (nm, "void" if u.ty(fn.get("ret")) == "void" else "combining", (fn.get("rec_targs") or ["?", "?"])[-1].split("::")[-2] if "unregister" in str(fn.get("rec_targs")) else "plain")
            if key in seen_sig:
                continue
            seen_sig.add(key)
            why = sig_order(db, fn)
            if why == "broken":
                continue
            if why is None:
                rep.ok("SIG-ORDER", key, F.primary_site(fn), F.describe(fn), how="list-order")
            else:
                rep.fail("SIG-ORDER", key, F.primary_site(fn), F.describe(fn), why=why)
        if nm.endswith("signal::unregister::detail::concrete_connection::~concrete_connection"):
            items = (fn.get("body") or {}).get("ch", [])
            # a local lambda that is called as a statement stands for its body at the place of the call
            lams = {}
            for st in items:
                if st.get("k") == "decl":
                    for v in st.get("ch", []):
                        li = T.unwrap(u, v.get("init")) if v.get("k") == "var" and v.get("init") is not None else None
                        if li is not None and li.get("k") == "lambda" and len(li.get("ops", [])) == 1:
                            lams[v["id"]] = li
            flat = []
            for st in items:
                c0 = T.unwrap(u, st) if st.get("k") == "call" else None
                r0 = T.unwrap(u, c0.get("recv")) if c0 is not None and c0.get("recv") is not None else None
                if c0 is not None and c0.get("opcall") == "()" and r0 is not None and r0.get("k") == "ref" and r0.get("id") in lams and not c0.get("args"):
                    b0 = lams[r0["id"]]["ops"][0].get("body") or {}
                    flat.extend(b0.get("ch", []) if b0.get("k") == "compound" else [b0])
                elif st.get("k") == "decl" and all((T.unwrap(u, v.get("init")) or {}).get("k") == "lambda" for v in st.get("ch", []) if v.get("k") == "var" and v.get("init") is not None):
                    continue
                else:
                    flat.append(st)
            items = flat
            key = "unregister::concrete_connection::~concrete_connection"
            # the unlink comes before the try block (declarations in front of it do not matter)
            eff = [x for x in items if x.get("k") not in ("decl", "null")]
            first = T.unwrap(u, eff[0]) if eff else None
            ok1 = first is not None and first.get("k") == "call" and T.callee_qn(u, first) == BASE + "::unlink"
            trys = [s for s in items if s.get("k") == "try"]
            ok2 = False
            if len(trys) == 1:
                t = trys[0]
                ncall = len([1 for n in F.walk(t.get("body")) if n.get("k") == "call" and "unregister_" in T.show(T.norm(u, n))])
                allh = [h for h in t.get("handlers", []) if h.get("all")]
                term = allh and any(q == "std::terminate" for (_, _, q) in L.calls_in(u, allh[0].get("body")))
                outside = len([1 for s in items if s.get("k") != "try" for n in F.walk(s) if n.get("k") == "call" and "unregister_" in T.show(T.norm(u, n))])
                ok2 = ncall == 1 and term and outside == 0
            if ok1 and ok2:
                rep.ok("SIG-UNREG", key, F.primary_site(fn), F.describe(fn), how="unlink;callback-once;terminate")
            else:
                rep.fail("SIG-UNREG", key, F.primary_site(fn), F.describe(fn),
                         why="destructor is not `unlink(); try { unregister_(); } catch (...) { std::terminate(); }` (unlink first: %s, single guarded callback: %s)" % (ok1, ok2))
    rep.explanation = ("Ring-surgery discipline over every path of every member of intrusive::base and intrusive::list "
                       "(explicit instantiations in drv_containers); necessary and, given the hook's constructor/destructor "
                       "discipline, sufficient for the ring invariant to be preserved by each operation.")
    rep.trusted = ["clang 14 front end", "members of the hook are only written by intrusive::base / intrusive::list (private fields, friend list)"]
