#include <fcppt/intrusive/base.hpp>
#include <fcppt/intrusive/list.hpp>
#include <iostream>
#include <memory>
struct el : fcppt::intrusive::base<el> { int v; el(fcppt::intrusive::list<el> &l, int x) : fcppt::intrusive::base<el>(l), v(x) {} };
static int count(fcppt::intrusive::list<el> &l) { int n = 0; for (el &e : l) { (void)e; ++n; } return n; }
int main()
{
  fcppt::intrusive::list<el> a;
  auto e1 = std::make_unique<el>(a, 1);
  auto e2 = std::make_unique<el>(a, 2);
  fcppt::intrusive::list<el> empty;
  a = std::move(empty);                       // a took over an empty list
  int after_assign = count(a);                // expected 0
  e1.reset();                                 // an element that is no longer a member dies
  int after_death = count(a);                 // expected 0
  std::cout << "after move-assign from empty: " << after_assign << " members; after destroying element 1: " << after_death << " members (expected 0, 0)\n";
  return (after_assign == 0 && after_death == 0) ? 0 : 1;
}
