"""C09, tree::map: the mapped tree has the function's result at every node and the mapped subtree of EVERY child, in order
(the recursion is an opaque event per child; the list is built by appending the results in order)."""
import re

from engine import facts as F
from engine import sx


def rules(rep, db):
    rep.rule("TREE-MAP", "tree::map: value = function(value of the node); children = the recursive map of every child, in order, unconditionally", floor=1)
    cfg = sx.Config(inline_prefixes=("fcppt::algorithm::",), loop_bound=2)
    seen = set()
    for fn in db.fns("fcppt::container::tree::map"):
        k_ = tuple(fn.get("targs") or [])
        if k_ in seen:
            continue
        seen.add(k_)
        key = "tree::map<%s>" % ", ".join(x.replace("fcppt::container::tree::", "").replace("std::", "") for x in k_)[:90]
        t, f = fn["params"][0]["name"], fn["params"][1]["name"]
        try:
            ps = sx.Interp(db, cfg).paths(fn, limit=60)
        except sx.Unsupported as e:
            rep.broken("C09 TREE-MAP %s: %s" % (key, e))
            continue
        why = None
        complete = 0
        for p in ps:
            ev = [(e[0].split("<")[0], [sx.show(a) for a in e[1]]) for e in p.events]
            dec = [(sx.show(d), v) for d, v in p.decisions]
            kids = [i for i, (n, a) in enumerate(ev, 1) if n.endswith("tree::object::children") and a == [t]]
            if len(kids) != 1:
                why = "the children of the node are not read exactly once"
                break
            c = "#%d:children" % kids[0]
            others = [(d, v) for d, v in dec if not d.startswith("more(%s," % c)]
            if others:
                # a shortcut for some children: sound only if its condition implies that the child has no children
                verdict = None
                for d, v in others:
                    m = re.match(r"^\(#(\d+):(size|empty)(?: (<=|<|==|!=|>=|>) (\d+))?\)$", d)
                    src = ev[int(m.group(1)) - 1] if m else None
                    if not m or not re.match(r"^%s\[\d+\]$" % re.escape(c), (src[1] or ["?"])[0]):
                        verdict = "broken"
                        break
                    if m.group(2) == "empty":
                        taken = {0} if v else set(range(1, 4))
                    else:
                        k2 = int(m.group(4))
                        f2 = {"<=": lambda s_: s_ <= k2, "<": lambda s_: s_ < k2, "==": lambda s_: s_ == k2, "!=": lambda s_: s_ != k2,
                              ">=": lambda s_: s_ >= k2, ">": lambda s_: s_ > k2}[m.group(3)]
                        taken = {s_ for s_ in range(0, 4) if f2(s_) == v}
                    child = src[1][0]
                    recursed = any(nm == "fcppt::container::tree::map" and a and a[0] == child for nm, a in ev)
                    if not recursed and not taken <= {0}:
                        verdict = "child %s is mapped without its own children when its size satisfies %s = %s (sizes %s)" % (child, d, v, sorted(taken))
                        break
                if verdict == "broken" or verdict is None:
                    rep.broken("C09 TREE-MAP %s: the result depends on conditions the rule does not follow: %s" % (key, [d for d, v in others][:2]))
                    why = "skip"
                else:
                    why = verdict
                break
            n = sum(1 for d, v in dec if v) - (1 if p.outcome[0] == "truncated" else 0)
            vals = [i for i, (nm, a) in enumerate(ev, 1) if nm.endswith("tree::object::value") and a == [t]]
            calls = [i for i, (nm, a) in enumerate(ev, 1) if nm == "call" and a[0] == f]
            if len(vals) != 1 or len(calls) != 1 or ev[calls[0] - 1][1] != [f, "#%d:value" % vals[0]]:
                why = "the function is not applied exactly once, to the node's own value: %s" % [ev[i - 1] for i in calls]
                break
            recs = [(i, a) for i, (nm, a) in enumerate(ev, 1) if nm == "fcppt::container::tree::map"]
            if [a for i, a in recs][:n] != [["%s[%d]" % (c, j), f] for j in range(n)]:
                why = "the children mapped are %s, expected child 0..%d each with the same function" % ([a for i, a in recs], n - 1)
                break
            ins = [a[-1] for nm, a in ev if nm.split("::")[-1] in ("insert", "push_back", "emplace_back")]
            if ins[:n] != ["#%d:map" % i for i, a in recs][:n]:
                why = "the mapped children are not appended in order: %s" % ins
                break
            if p.outcome[0] == "return":
                complete += 1
                out = sx.show(p.outcome[1]).replace(" ", "")
                if not re.match(r"^tree::object\{#%d:call,std::list\{\}\}$" % calls[0], out):
                    why = "the result is %s, expected the tree of the function's result and the list of mapped children" % out
                    break
        if why == "skip":
            continue
        if not why and complete < 3:
            why = "fewer than three complete paths"
        (rep.fail if why else rep.ok)("TREE-MAP", key, F.primary_site(fn), F.describe(fn)[:160], **({"why": why} if why else {"how": "%d complete paths" % complete}))
