"""C09 Tree keeps parent/child links consistent under every operation history (DESIGN.md §6 C09).

Invariant I: for every node n and every c in n.children_: c.parent_ == &n; a node that is in no
child list has parent_ == nullptr. Decided: every member function of tree::object preserves I
(who-may-write on parent_, paired update of children_ with re-parenting, detach nulls the parent).
Given std::list's address stability (trusted), preservation by every operation gives I after
every history. Not decided: agreement of the traversals with a reference model.
"""
import re

from engine import facts as F
from engine import load
from engine import lrules as L
from engine import sx
from engine import terms as T

LEVEL = "other"
REC = "fcppt::container::tree::object"
THIS = ("this",)
CHILDREN = ("m", THIS, "children_")


def _w2_ok(u, v):
    return L.is_this(u, v) or L.is_nullptr(u, v) or (T.unwrap(u, v) or {}).get("k") == "unop"


def _lambda_param_args(u, fn, v):
    """v refers to a parameter of a local, named, non-generic lambda of fn: the argument expressions at that position of every
    call of the lambda in fn ([] when the lambda is used in any other way); None when v is not such a parameter"""
    r = T.unwrap(u, v)
    if r is None or r.get("k") != "ref" or r.get("dk") != "param":
        return None
    for var in F.walk(fn.get("body"), into_lambdas=True):
        li = T.unwrap(u, var.get("init")) if var.get("k") == "var" and var.get("init") is not None else None
        if li is None or li.get("k") != "lambda" or len(li.get("ops", [])) != 1:
            continue
        ps = li["ops"][0].get("params", [])
        idx = [i for (i, p) in enumerate(ps) if p.get("id") == r.get("id")]
        if not idx:
            continue
        uses = [n for n in F.walk(fn.get("body"), into_lambdas=True) if n.get("k") == "ref" and n.get("id") == var["id"]]
        calls = [n for n in F.walk(fn.get("body"), into_lambdas=True) if n.get("k") == "call" and n.get("opcall") == "()"
                 and (T.unwrap(u, n.get("recv")) or {}).get("id") == var["id"] and len(n.get("args", [])) == len(ps)]
        if len(calls) != len(uses) or not calls:
            return []
        return [c["args"][idx[0]] for c in calls]
    return None


def _iterator_loop(u, st, defs):
    """`for (It it(FIRST); it != LAST; ++it)` -> (FIRST, LAST) as shown terms (locals substituted); None for any other loop"""
    init = st.get("init")
    vs = [v for v in (init or {}).get("ch", []) if v.get("k") == "var"] if init is not None and init.get("k") == "decl" else []
    if len(vs) != 1 or vs[0].get("init") is None:
        return None
    vid = vs[0]["id"]
    cond, inc = T.unwrap(u, st.get("cond")), T.unwrap(u, st.get("inc"))
    if cond is None or inc is None:
        return None

    def is_it(n):
        n = T.unwrap(u, n)
        return n is not None and n.get("k") == "ref" and n.get("id") == vid
    neg = False
    if cond.get("k") == "unop" and cond.get("op") == "!":      # C++20 rewrites a != b as !(a == b)
        cond, neg = T.unwrap(u, cond.get("e")), True
        if cond is None:
            return None
    ops = ([cond.get("recv")] if cond.get("recv") is not None else []) + list(cond.get("args", [])) if cond.get("k") == "call" else [cond.get("l"), cond.get("r")]
    cop = cond.get("opcall") if cond.get("k") == "call" else cond.get("op")
    if neg:
        cop = {"==": "!=", "!=": "=="}.get(cop)
    if cop != "!=" or len(ops) != 2 or not (is_it(ops[0]) != is_it(ops[1])):
        return None
    last = ops[1] if is_it(ops[0]) else ops[0]
    iop = inc.get("opcall") if inc.get("k") == "call" else inc.get("op")
    itarget = inc.get("recv") if inc.get("k") == "call" and inc.get("recv") is not None else (inc.get("args") or [None])[0] if inc.get("k") == "call" else inc.get("e")
    if iop != "++" or not is_it(itarget):
        return None
    # the body must not move the iterator itself
    for n in F.walk(st.get("body")):
        if n.get("k") in ("assign", "compound_assign") and is_it(n.get("l")):
            return None
        if n.get("k") in ("unop",) and n.get("op") in ("++", "--") and is_it(n.get("e")):
            return None
        if n.get("k") == "call" and n.get("opcall") in ("++", "--", "=", "+=", "-=") and is_it(n.get("recv") if n.get("recv") is not None else (n.get("args") or [None])[0]):
            return None
    first = vs[0]["init"]
    f0 = T.unwrap(u, first)
    if f0 is not None and f0.get("k") == "construct" and len(f0.get("args", [])) == 1:
        first = f0["args"][0]
    show = lambda x: T.show(T.norm(u, x, defs)).replace(" ", "")
    return (show(first), show(last))


def _nest_early_returns(stmts):
    """`if (a) { x; return; } rest...` in a void function is `if (a) { x; } else { rest... }`: rebuild the nested form so that a rule sees
    one decision tree whichever way the author wrote it (synthetic nodes; the originals are not modified)"""
    stmts = list(stmts)
    for i, st in enumerate(stmts):
        if st.get("k") == "if" and st.get("else") is None and st.get("init") is None:
            thn = st.get("then") or {}
            body = list(thn.get("ch", [])) if thn.get("k") == "compound" else [thn]
            if body and body[-1].get("k") == "return" and body[-1].get("e") is None and i + 1 < len(stmts):
                rest = _nest_early_returns(stmts[i + 1:])
                els = rest[0] if len(rest) == 1 else {"k": "compound", "loc": st.get("loc"), "ch": rest}
                new = {"k": "if", "loc": st.get("loc"), "cond": st.get("cond"), "then": {"k": "compound", "loc": thn.get("loc"), "ch": body[:-1]}, "else": els}
                return stmts[:i] + [new]
    return stmts


def main(rep, tier, only):
    db = load.load(tier, lib=False, drivers=["drv_containers"], tests=(tier == "thorough"),
                   test_filter=lambda f: "/tree/" in f or "log" in f)
    rep.extra.update(db.stats())
    fns = L.method_fns(db, REC)
    if len(fns) < 30:
        rep.broken("tree::object: only %d member functions analysed (expected >= 30)" % len(fns))
    rep.rule("TREE-W1", "a member function never writes its own node's parent_ outside a constructor "
                        "(membership in the parent's child list is not changed by the node's own operations)", floor=30)
    rep.rule("TREE-W2", "every write to another node's parent_ is either `= this` on a node that is in / being put into "
                        "this->children_, `= &X` in a re-parenting loop over X.children_, or `= nullptr` on a node detached "
                        "from a child list", floor=5)
    rep.rule("TREE-P1", "every statement that replaces, swaps or assigns children_ installs a list whose elements were "
                        "re-parented to the new owner (copy_children / move_children / re-parenting loops)", floor=5)
    rep.rule("TREE-P2", "copy_children / move_children assign parent_ = this to every element of the list they return", floor=2)
    rep.rule("TREE-P3", "release / pop_back / pop_front null the parent of the node they hand out", floor=3)
    rep.rule("TREE-P4", "insert links the inserted node to this (children_.insert(...)->parent_ = this) and every "
                        "other insertion entry point goes through it", floor=3)
    rep.rule("TREE-PRE", "pre_order's step: descend exactly when the current node has a child (first child becomes current, the others are pushed "
                         "in reverse), otherwise end when no position is left, otherwise continue with the top of the stack", floor=1)
    rep.rule("TREE-ID", "child_position identifies the child by address among the parent's children (a node is its identity, not its value)", floor=2)
    rep.rule("TREE-C1", "constructors initialise parent_ with nullptr and children_ empty or through copy_children / move_children", floor=5)
    by_name = {}
    for fn in fns:
        by_name.setdefault(F.fn_name(fn).split("::")[-1], []).append(fn)
    for fn in fns:
        u = fn["_unit"]
        name = F.fn_name(fn).split("::")[-1]
        site = F.primary_site(fn)
        is_ctor = fn.get("kind") == "ctor"
        key = "%s@%s" % (F.fn_name(fn), ",".join(u.ty(p["t"]) for p in fn.get("params", [])))
        # ---- W1 / W2
        ws = L.field_writes(u, fn, "parent_")
        own_bad = [w for w in ws if w["base"] == THIS and not is_ctor]
        if own_bad:
            w = own_bad[0]
            rep.fail("TREE-W1", key, u.loc(w["node"]["loc"]), F.describe(fn),
                     why="writes its own parent_ (%s): the node stays in (or out of) its parent's child list, so the link "
                         "no longer matches the list that contains it" % w["how"])
        else:
            rep.ok("TREE-W1", key, site, F.describe(fn), how="no-own-parent-write")
        for w in ws:
            if w["base"] == THIS:
                continue
            wk = "%s|%s.parent_" % (key, T.show(w["base"]))
            v = w.get("value")
            if w["how"] != "assign":
                rep.fail("TREE-W2", wk, u.loc(w["node"]["loc"]), F.describe(fn), why="parent_ of another node is modified through %s" % w["how"])
            elif _w2_ok(u, v):
                rep.ok("TREE-W2", wk, u.loc(w["node"]["loc"]), F.describe(fn),
                       how="=this" if L.is_this(u, v) else ("=nullptr" if L.is_nullptr(u, v) else "=&owner"))
            elif _lambda_param_args(u, fn, v) is not None:
                # written inside a local helper lambda from one of its parameters: the rule applies to the argument of every call
                args = _lambda_param_args(u, fn, v)
                bad = [a for a in args if not _w2_ok(u, a)]
                if not args:
                    rep.broken("TREE-W2: %s assigns parent_ from the parameter of a local lambda whose calls are not visible (%s)" % (key, u.loc(w["node"]["loc"])))
                elif bad:
                    rep.fail("TREE-W2", wk, u.loc(w["node"]["loc"]), F.describe(fn), why="parent_ assigned (through a local lambda) from %s" % T.show(T.norm(u, bad[0])))
                else:
                    rep.ok("TREE-W2", wk, u.loc(w["node"]["loc"]), F.describe(fn), how="=this / =&owner at every call of the local helper")
            else:
                rep.fail("TREE-W2", wk, u.loc(w["node"]["loc"]), F.describe(fn), why="parent_ assigned from %s" % T.show(T.norm(u, v)))
        # ---- P1: children_ replaced
        cw = [w for w in L.field_writes(u, fn, "children_")
              if w["how"] == "assign" or w["how"] in ("call:swap", "call:splice", "call:merge")
              or w["how"] in ("passed-by-lref-to:std::swap", "passed-by-rref-to:" + REC + "::move_children")]
        for w in cw:
            pk = "%s|children_ %s" % (key, w["how"])
            loc = u.loc(w["node"]["loc"])
            ok = False
            why = ""
            if w["how"] == "assign":
                v = T.unwrap(u, w["value"])
                q = T.callee_qn(u, v) if v is not None and v.get("k") == "call" else None
                if q in (REC + "::copy_children", REC + "::move_children") and T.norm(u, v.get("recv")) == w["base"]:
                    ok = True
                else:
                    why = "children_ assigned from %s, which is not copy_children/move_children of the same node" % T.show(T.norm(u, w["value"]))
            elif w["how"] == "passed-by-rref-to:" + REC + "::move_children" or w["how"].endswith("fcppt::move_clear") or w["how"] == "passed-by-rref-to:std::list::list":
                ok = True   # source list handed to move_children (it is emptied by move_clear)
            else:
                # swap and friends: both lists must be re-parented afterwards in the same function
                body = fn.get("body")
                stmts = T.inline_local_lambda_calls(u, body.get("ch", []) if body else [])   # a local helper lambda stands for its body
                loops = L.reparent_loops(u, stmts, "parent_", None)
                other = None
                if w["how"] == "call:swap" and w.get("args"):
                    fo = L.field_of(u, w["args"][0])
                    other = fo[0] if fo else None
                have_this = any(Lt == ("m", w["base"], "children_") and (L.is_this(u, v) if w["base"] == THIS else True) for (Lt, v) in loops)
                have_other = other is not None and any(Lt == ("m", other, "children_") and L.is_addr_of(u, v, other) for (Lt, v) in loops)
                ok = have_this and have_other
                why = "children_ exchanged through %s without re-parenting the elements of both lists" % w["how"]
            if ok:
                rep.ok("TREE-P1", pk, loc, F.describe(fn), how="re-parented")
            else:
                rep.fail("TREE-P1", pk, loc, F.describe(fn), why=why)
        # ---- C1
        if is_ctor:
            inits = {i.get("field"): i for i in fn.get("inits", []) if i.get("field")}
            okp = "parent_" in inits and L.is_nullptr(u, inits["parent_"]["init"])
            ci = inits.get("children_")
            okc = False
            if ci is not None:
                v = T.unwrap(u, ci["init"])
                if v is not None and v.get("k") == "construct" and not v.get("args"):
                    okc = True
                elif v is not None and v.get("k") == "call" and T.callee_qn(u, v) in (REC + "::copy_children", REC + "::move_children"):
                    okc = True
                elif v is not None and v.get("k") == "construct" and len(v.get("args", [])) == 1:
                    a = T.unwrap(u, v["args"][0])
                    okc = a is not None and a.get("k") == "call" and T.callee_qn(u, a) in (REC + "::copy_children", REC + "::move_children")
            if okp and okc:
                rep.ok("TREE-C1", key, site, F.describe(fn), how="parent_=nullptr;children re-parented")
            else:
                rep.fail("TREE-C1", key, site, F.describe(fn),
                         why="constructor does not establish the invariant (parent_ nullptr: %s, children_ empty/re-parented: %s)" % (okp, okc))
    # ---- P2
    for nm in ("copy_children", "move_children"):
        for fn in by_name.get(nm, []):
            u = fn["_unit"]
            body = fn.get("body")
            stmts = body.get("ch", []) if body else []
            loops = L.reparent_loops(u, stmts, "parent_", None)
            ret = [s for s in stmts if s.get("k") == "return"]
            ok = False
            if ret and loops:
                rv = T.norm(u, ret[-1].get("e"))
                if rv[0] == "new" and len(rv[2]) == 1:
                    rv = rv[2][0]   # implicit move construction of the returned local
                ok = any(Lt == rv and L.is_this(u, v) for (Lt, v) in loops)
            if ok:
                rep.ok("TREE-P2", nm, F.primary_site(fn), F.describe(fn), how="loop-over-returned-list")
            else:
                rep.fail("TREE-P2", nm, F.primary_site(fn), F.describe(fn), why="no unconditional loop assigning parent_ = this over the returned list")
    if not by_name.get("copy_children") or not by_name.get("move_children"):
        rep.broken("tree::object::copy_children / move_children not found")
    # ---- P3
    for nm in ("release", "pop_back", "pop_front"):
        for fn in by_name.get(nm, []):
            u = fn["_unit"]
            ws = [w for w in L.field_writes(u, fn, "parent_") if w["how"] == "assign" and L.is_nullptr(u, w["value"]) and w["base"] != THIS]
            if ws:
                rep.ok("TREE-P3", nm, F.primary_site(fn), F.describe(fn), how="detached-node.parent_=nullptr")
            else:
                rep.fail("TREE-P3", nm, F.primary_site(fn), F.describe(fn), why="the node handed out keeps a parent_ pointing into the tree it was removed from")
    # ---- P4
    for fn in by_name.get("insert", []):
        u = fn["_unit"]
        pts = [u.ty(p["t"]) for p in fn.get("params", [])]
        k2 = "insert(%s)" % pts[-1]
        if "tree::object" in pts[-1]:
            ws = [w for w in L.field_writes(u, fn, "parent_") if w["how"] == "assign" and L.is_this(u, w["value"])]
            ok = False
            defs = T.const_local_defs(u, fn)

            def subst(t):
                if isinstance(t, tuple) and t and t[0] == "v" and t[1] in defs:
                    return defs[t[1]]
                if isinstance(t, tuple):
                    return tuple(subst(x) if isinstance(x, tuple) else x for x in t)
                return t
            for w in ws:
                b = subst(w["base"])     # a named iterator stands for the insert call that produced it
                # base is (*children_.insert(...)) : the freshly inserted element
                ok = ok or "insert" in T.show(b)
            if ok:
                rep.ok("TREE-P4", k2, F.primary_site(fn), F.describe(fn), how="inserted->parent_=this")
            else:
                rep.fail("TREE-P4", k2, F.primary_site(fn), F.describe(fn), why="inserted node is not linked to this")
        else:
            ok = any(q == REC + "::insert" for (_, _, q) in L.calls_in(u, fn.get("body")))
            if ok:
                rep.ok("TREE-P4", k2, F.primary_site(fn), F.describe(fn), how="delegates-to-insert(object&&)")
            else:
                rep.fail("TREE-P4", k2, F.primary_site(fn), F.describe(fn), why="does not go through insert(iterator, object&&)")
    for nm in ("push_back", "push_front"):
        for fn in by_name.get(nm, []):
            u = fn["_unit"]
            ok = any(q == REC + "::insert" for (_, _, q) in L.calls_in(u, fn.get("body")))
            muts = [w for w in L.field_writes(u, fn, "children_")]
            k2 = "%s(%s)" % (nm, u.ty(fn["params"][0]["t"]) if fn.get("params") else "")
            if ok and not muts:
                rep.ok("TREE-P4", k2, F.primary_site(fn), F.describe(fn), how="delegates-to-insert")
            else:
                rep.fail("TREE-P4", k2, F.primary_site(fn), F.describe(fn), why="adds a child without going through insert (which links it)")
    # ---- TREE-PRE: pre-order iterator step (the traversal context::set and the tree algorithms rely on)
    seen_pre = set()
    for fn in db.functions:
        name = F.fn_name(fn)
        if not name.endswith("pre_order::iterator::increment") or not name.startswith("fcppt::container::tree::"):
            continue
        if F.primary_site(fn) in seen_pre:
            continue
        seen_pre.add(F.primary_site(fn))
        u = fn["_unit"]
        defs = T.const_local_defs(u, fn)
        ifs = [x for x in _nest_early_returns((fn.get("body") or {}).get("ch", [])) if x.get("k") == "if"]
        why = None
        if len(ifs) != 1:
            why = "the step is not one three-way decision (has children / stack empty / otherwise)"
        else:
            top = ifs[0]
            c = T.show(T.norm(u, top.get("cond"), defs)).replace(" ", "")
            m = re.match(r"^(?:!([\w.()]+)\.empty\(\)|\(([\w.()]+)\.size\(\)(?:>0|!=0)\))$", c)
            x = (m.group(1) or m.group(2)) if m else None
            is_cur = False
            if x is not None:
                if "dereference()" in x:
                    is_cur = True
                else:
                    for v in F.walk(fn.get("body"), into_lambdas=False):
                        if v.get("k") == "var" and v.get("name") == x and v.get("init") is not None and "dereference()" in T.show(T.norm(u, v["init"])):
                            is_cur = True
            if not is_cur:
                why = "the iterator descends under `%s`; it must descend exactly when the current node has a child (`!current.empty()`): a node with children would otherwise be treated as a leaf" % T.show(T.norm(u, top.get("cond"), defs))
            thn = top.get("then")
            asg = [T.show(T.norm(u, x, defs)).replace(" ", "") for x in F.walk(thn, into_lambdas=False) if x.get("k") in ("assign", "call") and "current_" in T.show(T.norm(u, x.get("l") or x.get("recv") or x, defs))[:40]]
            if not why and not any("front()" in a for a in asg):
                why = "after descending the current node is not the first child (%s)" % asg
            rf = [x for x in F.walk(thn, into_lambdas=False) if x.get("k") in ("range_for", "for")]
            if not why:
                # the pushed range [first, last): `for (e : make_range(first, last))` or `for (it(first); it != last; ++it)`
                rng, lbody = "", None
                if len(rf) == 1 and rf[0]["k"] == "range_for":
                    rng, lbody = T.show(T.norm(u, rf[0].get("range"), defs)).replace(" ", ""), rf[0].get("body")
                elif len(rf) == 1:
                    lp = _iterator_loop(u, rf[0], defs)
                    if lp is None:
                        rep.broken("TREE-PRE: the loop over the remaining children at %s is not a plain iterator loop (init; it != last; ++it)" % u.loc(rf[0]["loc"]))
                        continue
                    rng, lbody = "range(%s,%s)" % lp, rf[0].get("body")
                m2 = re.match(r"^[\w:]+\((.+)\.rbegin\(\),(?:std::)?prev\((.+)\.rend\(\)(?:,1)?\)\)$", rng)
                if not (m2 and m2.group(1) == m2.group(2)):
                    why = "the remaining children are not pushed in reverse order without the first one (range %s)" % rng
                elif not any((T.callee_qn(u, x) or "").endswith("::push") for x in F.walk(lbody) if x.get("k") == "call"):
                    why = "the remaining children are not pushed onto the position stack"
            els = top.get("else")
            if not why:
                if els is None or els.get("k") != "if" or "positions_.empty()" not in T.show(T.norm(u, els.get("cond"), defs)).replace("this.", ""):
                    why = "a leaf does not test whether positions are left"
                else:
                    fin = [T.show(T.norm(u, x, defs)) for x in F.walk(els.get("then"), into_lambdas=False) if x.get("k") in ("assign", "call")]
                    calls = [(T.callee_qn(u, x) or "").split("::")[-1] for x in F.walk(els.get("else"), into_lambdas=False) if x.get("k") == "call"]
                    if "top" not in calls or "pop" not in calls or calls.index("top") > calls.index("pop"):
                        why = "a leaf does not continue with the top of the position stack (top before pop): %s" % calls
        (rep.fail if why else rep.ok)("TREE-PRE", "pre_order::iterator::increment", F.primary_site(fn), F.describe(fn)[:160],
                                      **({"why": why} if why else {"how": "children? first child + push rest reversed : stack empty? end : top/pop"}))
    # ---- TREE-ID: child_position finds the child by identity (address), not by value -- decided on the paths of the search, however
    # it is written (find_if_opt with a lambda, a hand-written loop): every element test must compare ADDRESSES
    seen = set()
    idcfg = sx.Config(inline_prefixes=("fcppt::algorithm::", "fcppt::range::", "fcppt::optional::"), loop_bound=2, lvalues=True, iter_positions=True)
    for fn in db.fns("fcppt::container::tree::child_position"):
        u = fn["_unit"]
        k2 = "child_position<%s>" % ",".join(fn.get("targs") or [])
        if k2 in seen or len(fn.get("params", [])) != 2:
            continue
        seen.add(k2)
        parent, child = fn["params"][0]["name"], fn["params"][1]["name"]
        why = None
        try:
            ps = sx.Interp(db, idcfg).paths(fn, limit=60)
        except sx.Unsupported as e:
            rep.broken("C09 TREE-ID %s: %s" % (k2, e))
            continue

        def element_index(t, evs):
            """k when the term denotes child k of the parent (parent[k] or *(begin(parent) + k)), else None"""
            if isinstance(t, tuple) and t and t[0] == "elem" and sx.show(t[1]) == parent:
                return t[2] if isinstance(t[2], int) else None
            inner = t[2][0] if isinstance(t, tuple) and t and t[0] == "app" and t[1] == "deref" and len(t[2]) == 1 else (t[1] if isinstance(t, tuple) and t and t[0] == "deref" else None)
            if inner is None:
                return None
            k = 0
            while isinstance(inner, tuple) and inner and inner[0] == "op" and inner[1] == "+" and sx.is_const(inner[3]):
                k += int(str(inner[3][1]).rstrip("uUlL"))
                inner = inner[2]
            if isinstance(inner, tuple) and inner and inner[0] == "ev" and 0 < inner[1] <= len(evs):
                e = evs[inner[1] - 1]
                if e[0].split("<")[0].split("::")[-1] in ("begin", "cbegin") and len(e[1]) == 1 and sx.show(e[1][0]) == parent:
                    return k
            return None
        found_some, found_none = False, False
        for p in ps:
            if p.outcome[0] != "return":
                continue
            hit = None
            for d, v in p.decisions:
                t = sx.show(d)
                if t.startswith("more(") or (isinstance(d, tuple) and d and d[0] == "cmp" and any(
                        isinstance(x, tuple) and x and x[0] == "ev" and p.events[x[1] - 1][0].split("<")[0].split("::")[-1] in ("end", "cend") for x in d[2:4])):
                    continue
                if not (isinstance(d, tuple) and d and d[0] == "cmp" and d[1] in ("==", "!=")):
                    why = "an element test that is not a comparison of addresses: %s" % t
                    break
                sides = [x[1] if isinstance(x, tuple) and x and x[0] == "addr" else None for x in d[2:4]]
                if None in sides:
                    why = "an element test that compares values, not addresses (%s): a structurally equal sibling would be reported instead" % t
                    break
                ks = [element_index(x, p.events) for x in sides]
                others = [sx.show(x) for x, k in zip(sides, ks) if k is None]
                if len([k for k in ks if k is not None]) != 1 or others != [child]:
                    why = "an address comparison that is not between an element of the parent and the given child: %s" % t
                    break
                eq = v if d[1] == "==" else not v
                if eq:
                    hit = [k for k in ks if k is not None][0]
            if why:
                break
            out = sx.show(p.outcome[1])
            if hit is None:
                found_none = True
                if not out.endswith(":none"):
                    why = "no element has the child's address but the result is %s" % out
            else:
                found_some = True
                if not out.endswith(":some") or ("[%d]" % hit not in out and (("+ %d" % hit) not in out if hit else "begin" not in out)):
                    why = "the child is element %d but the result is %s" % (hit, out)
            if why:
                break
        if not why and not (found_some and found_none):
            why = "found / not found are not both possible"
        if why:
            rep.fail("TREE-ID", k2, F.primary_site(fn), F.describe(fn), why=why)
        else:
            rep.ok("TREE-ID", k2, F.primary_site(fn), F.describe(fn), how="address comparison with every element in order")
    if only in (None, "TREE-MAP"):
        from checks import c09_map
        c09_map.rules(rep, db)
    rep.explanation = ("Invariant-preservation rules over every member function of tree::object (type-resolved AST of the "
                       "explicit instantiations in drv_containers). Decides that no operation can break the parent/child "
                       "link invariant; does not decide traversal results.")
    rep.trusted = ["std::list keeps element addresses stable under insert/erase/splice/swap/move", "clang 14 front end"]
