
#include <fcppt/parse/fatal_impl.hpp>
#include <fcppt/parse/alternative_impl.hpp>
#include <fcppt/parse/make_fatal.hpp>
#include <fcppt/parse/named.hpp>
#include <fcppt/parse/string.hpp>
#include <fcppt/parse/parse_string.hpp>
#include <fcppt/parse/operators/alternative.hpp>
#include <iostream>
#include <string>
int main()
{
  // fatal("ab") | "ac" must FAIL on "ac": the fatal error of the first alternative stops backtracking
  auto const plain{fcppt::parse::make_fatal(fcppt::parse::string{std::string{"ab"}}) | fcppt::parse::string{std::string{"ac"}}};
  auto const named{fcppt::parse::named<char, fcppt::parse::fatal<fcppt::parse::string>>{fcppt::parse::make_fatal(fcppt::parse::string{std::string{"ab"}}), std::string{"x"}} | fcppt::parse::string{std::string{"ac"}}};
  bool const r1{fcppt::parse::parse_string(plain, std::string{"ac"}).has_success()};
  bool const r2{fcppt::parse::parse_string(named, std::string{"ac"}).has_success()};
  std::cout << "fatal(ab)|ac on \"ac\": success=" << r1 << "   named(fatal(ab))|ac on \"ac\": success=" << r2 << " (expected 0 0)\n";
  return r1 == r2 ? 0 : 1;
}
