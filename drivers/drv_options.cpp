// Instantiation driver for fcppt.options: every parser combinator over OPAQUE sub-parsers
// (declared-only parse/flag_names/option_names/usage), the real leaf parsers for several value
// types, the error helpers and the entry points. Never linked or run.
#include "drv.hpp"
// LIBRARY DEFECT workaround: fcppt/options/unit_fwd.hpp declares `template <typename Label> class
// flag;` instead of `class unit;`, so unit.hpp cannot be combined with flag.hpp / switch.hpp /
// unit_switch.hpp / help_switch.hpp / parse_help.hpp in one translation unit. Skip that header
// (via its include guard) and declare unit ourselves.
#define FCPPT_OPTIONS_UNIT_FWD_HPP_INCLUDED
namespace fcppt::options
{
template <typename Label>
class unit;
}
#include <fcppt/args_vector.hpp>
#include <fcppt/make_cref.hpp>
#include <fcppt/reference_impl.hpp>
#include <fcppt/string.hpp>
#include <fcppt/strong_typedef_impl.hpp>
#include <fcppt/strong_typedef_output.hpp>
#include <fcppt/unique_ptr_impl.hpp>
#include <fcppt/unit.hpp>
#include <fcppt/unit_comparison.hpp>
#include <fcppt/unit_output.hpp>
#include <fcppt/either/object_impl.hpp>
#include <fcppt/enum/to_string_impl_fwd.hpp>
#include <fcppt/io/istream.hpp>
#include <fcppt/io/ostream.hpp>
#include <fcppt/optional/object_impl.hpp>
#include <fcppt/options/active_value.hpp>
#include <fcppt/options/apply.hpp>
#include <fcppt/options/argument.hpp>
#include <fcppt/options/base.hpp>
#include <fcppt/options/base_unique_ptr.hpp>
#include <fcppt/options/commands_decl.hpp>
#include <fcppt/options/commands_impl.hpp>
#include <fcppt/options/default_help_switch.hpp>
#include <fcppt/options/default_value.hpp>
#include <fcppt/options/deref.hpp>
#include <fcppt/options/deref_type.hpp>
#include <fcppt/options/duplicate_names.hpp>
#include <fcppt/options/error.hpp>
#include <fcppt/options/error_output.hpp>
#include <fcppt/options/exception.hpp>
#include <fcppt/options/flag.hpp>
#include <fcppt/options/flag_name.hpp>
#include <fcppt/options/flag_name_set.hpp>
#include <fcppt/options/help_result.hpp>
#include <fcppt/options/help_switch.hpp>
#include <fcppt/options/help_text.hpp>
#include <fcppt/options/inactive_value.hpp>
#include <fcppt/options/indent.hpp>
#include <fcppt/options/left.hpp>
#include <fcppt/options/long_name.hpp>
#include <fcppt/options/make_active_value.hpp>
#include <fcppt/options/make_base.hpp>
#include <fcppt/options/make_commands.hpp>
#include <fcppt/options/make_default_value.hpp>
#include <fcppt/options/make_inactive_value.hpp>
#include <fcppt/options/make_left.hpp>
#include <fcppt/options/make_many.hpp>
#include <fcppt/options/make_optional.hpp>
#include <fcppt/options/make_right.hpp>
#include <fcppt/options/make_sub_command.hpp>
#include <fcppt/options/make_success.hpp>
#include <fcppt/options/make_sum.hpp>
#include <fcppt/options/many_decl.hpp>
#include <fcppt/options/many_impl.hpp>
#include <fcppt/options/missing_error.hpp>
#include <fcppt/options/no_default_value.hpp>
#include <fcppt/options/option.hpp>
#include <fcppt/options/option_name.hpp>
#include <fcppt/options/option_name_set.hpp>
#include <fcppt/options/optional_decl.hpp>
#include <fcppt/options/optional_help_text.hpp>
#include <fcppt/options/optional_impl.hpp>
#include <fcppt/options/optional_short_name.hpp>
#include <fcppt/options/options_label.hpp>
#include <fcppt/options/other_error.hpp>
#include <fcppt/options/parse.hpp>
#include <fcppt/options/parse_context.hpp>
#include <fcppt/options/parse_error.hpp>
#include <fcppt/options/parse_help.hpp>
#include <fcppt/options/parse_result.hpp>
#include <fcppt/options/pretty_type.hpp>
#include <fcppt/options/pretty_type_enum.hpp>
#include <fcppt/options/pretty_type_impl.hpp>
#include <fcppt/options/product_decl.hpp>
#include <fcppt/options/product_impl.hpp>
#include <fcppt/options/result.hpp>
#include <fcppt/options/result_of.hpp>
#include <fcppt/options/right.hpp>
#include <fcppt/options/short_name.hpp>
#include <fcppt/options/state.hpp>
#include <fcppt/options/state_with_value.hpp>
#include <fcppt/options/sub_command_decl.hpp>
#include <fcppt/options/sub_command_impl.hpp>
#include <fcppt/options/sub_command_label.hpp>
#include <fcppt/options/sum_decl.hpp>
#include <fcppt/options/sum_impl.hpp>
#include <fcppt/options/switch.hpp>
#include <fcppt/options/unit.hpp>
#include <fcppt/options/unit_switch.hpp>
#include <fcppt/options/detail/apply.hpp>
#include <fcppt/options/detail/combine_errors.hpp>
#include <fcppt/options/detail/combine_errors_impl.hpp>
#include <fcppt/options/detail/concrete_decl.hpp>
#include <fcppt/options/detail/concrete_impl.hpp>
#include <fcppt/options/detail/parse_to_empty.hpp>
#include <fcppt/options/detail/type_annotation.hpp>
#include <fcppt/record/element.hpp>
#include <fcppt/record/make_label.hpp>
#include <fcppt/record/object_impl.hpp>
#include <fcppt/variant/object_impl.hpp>
#include <string>
#include <string_view>

namespace drv_options
{
// a value type with declared-only stream conversions
enum class color
{
  red,
  green,
  blue,
  fcppt_maximum = blue
};
fcppt::io::istream &operator>>(fcppt::io::istream &, color &);
fcppt::io::ostream &operator<<(fcppt::io::ostream &, color);
}
namespace fcppt::enum_
{
template <>
struct to_string_impl<drv_options::color>
{
  static std::string_view get(drv_options::color);
};
}

namespace drv_options
{
namespace O = fcppt::options;
using drv::clv;
using drv::lv;
using drv::make;

// distinct, mutually non-convertible payload types
struct VA
{
  int a;
};
struct VB
{
  int b;
};
struct VC
{
  int c;
};

FCPPT_RECORD_MAKE_LABEL(la);
FCPPT_RECORD_MAKE_LABEL(lb);
FCPPT_RECORD_MAKE_LABEL(lc);
FCPPT_RECORD_MAKE_LABEL(ld);
FCPPT_RECORD_MAKE_LABEL(lsum);
FCPPT_RECORD_MAKE_LABEL(lsum2);
FCPPT_RECORD_MAKE_LABEL(cmd1);
FCPPT_RECORD_MAKE_LABEL(cmd2);
FCPPT_RECORD_MAKE_LABEL(cmd3);
FCPPT_RECORD_MAKE_LABEL(lint);
FCPPT_RECORD_MAKE_LABEL(luint);
FCPPT_RECORD_MAKE_LABEL(lstr);
FCPPT_RECORD_MAKE_LABEL(lenum);
FCPPT_RECORD_MAKE_LABEL(lflag);
FCPPT_RECORD_MAKE_LABEL(lopt);
FCPPT_RECORD_MAKE_LABEL(lsw);
FCPPT_RECORD_MAKE_LABEL(lunit);
FCPPT_RECORD_MAKE_LABEL(lusw);

// OPAQUE options parser: all members a combinator may use, declared only
template <typename Label, typename T>
struct stub_parser
{
  using result_type = fcppt::record::object<fcppt::record::element<Label, T>>;
  [[nodiscard]] O::parse_result<result_type> parse(O::state &&, O::parse_context const &) const;
  [[nodiscard]] O::flag_name_set flag_names() const;
  [[nodiscard]] O::option_name_set option_names() const;
  [[nodiscard]] fcppt::string usage() const;
};
// OPAQUE parser with a two-element result
template <typename Label1, typename T1, typename Label2, typename T2>
struct stub_parser2
{
  using result_type = fcppt::record::
      object<fcppt::record::element<Label1, T1>, fcppt::record::element<Label2, T2>>;
  [[nodiscard]] O::parse_result<result_type> parse(O::state &&, O::parse_context const &) const;
  [[nodiscard]] O::flag_name_set flag_names() const;
  [[nodiscard]] O::option_name_set option_names() const;
  [[nodiscard]] fcppt::string usage() const;
};

using sa = stub_parser<la, VA>;
using sb = stub_parser<lb, VB>;
using sc = stub_parser<lc, VC>;
using sab = stub_parser2<la, VA, lb, VB>;
using rsa = fcppt::reference<sa const>;
using rsb = fcppt::reference<sb const>;
template <typename S>
using fn = drv::fn<S>;

// parse + flag_names + option_names + usage on a const lvalue
#define DRV_MEMBERS(...) \
  (void)clv<__VA_ARGS__>().parse(make<O::state>(), clv<O::parse_context>()); \
  (void)clv<__VA_ARGS__>().flag_names(); \
  (void)clv<__VA_ARGS__>().option_names(); \
  (void)clv<__VA_ARGS__>().usage()

// ---- combinators over stubs -------------------------------------------------------------
DRV(comb_optional)
{
  (void)O::optional<sa>{make<sa>()};
  (void)O::make_optional(make<sa>());
  (void)O::make_optional(fcppt::make_cref(clv<sa>()));
  DRV_MEMBERS(O::optional<sa>);
  DRV_MEMBERS(O::optional<rsa>);
  DRV_MEMBERS(O::optional<sab>);
}
DRV(comb_many)
{
  (void)O::many<sa>{make<sa>()};
  (void)O::make_many(make<sa>());
  (void)O::make_many(fcppt::make_cref(clv<sa>()));
  DRV_MEMBERS(O::many<sa>);
  DRV_MEMBERS(O::many<rsa>);
  DRV_MEMBERS(O::many<sab>);
}
DRV(comb_product)
{
  (void)O::product<sa, sb>{make<sa>(), make<sb>()};
  (void)O::apply(make<sa>());
  (void)O::apply(make<sa>(), make<sb>());
  (void)O::apply(make<sa>(), make<sb>(), make<sc>());
  (void)O::apply(fcppt::make_cref(clv<sa>()), fcppt::make_cref(clv<sb>()));
  (void)O::detail::apply(make<sa>());
  (void)O::detail::apply(make<sa>(), make<sb>());
  DRV_MEMBERS(O::product<sa, sb>);
  DRV_MEMBERS(O::product<rsa, rsb>);
  DRV_MEMBERS(O::product<sa, O::product<sb, sc>>);
  DRV_MEMBERS(O::product<sab, sc>);
}
DRV(comb_sum)
{
  (void)O::sum<lsum, sa, sb>{make<sa>(), make<sb>()};
  (void)O::make_sum<lsum>(make<sa>(), make<sb>());
  (void)O::make_sum<lsum>(fcppt::make_cref(clv<sa>()), fcppt::make_cref(clv<sb>()));
  DRV_MEMBERS(O::sum<lsum, sa, sb>);
  DRV_MEMBERS(O::sum<lsum, rsa, rsb>);
  // both alternatives with the same result type
  DRV_MEMBERS(O::sum<lsum, sa, stub_parser<la, VA>>);
  DRV_MEMBERS(O::sum<lsum2, O::sum<lsum, sa, sb>, sc>);
}
using sub1 = O::sub_command<cmd1, sa>;
using sub2 = O::sub_command<cmd2, sb>;
using sub3 = O::sub_command<cmd3, rsa>;
DRV(comb_sub_command)
{
  (void)sub1{make<fcppt::string>(), make<sa>(), make<O::optional_help_text>()};
  (void)O::make_sub_command<cmd1>(make<fcppt::string>(), make<sa>(), make<O::optional_help_text>());
  (void)O::make_sub_command<cmd3>(
      make<fcppt::string>(), fcppt::make_cref(clv<sa>()), make<O::optional_help_text>());
  (void)clv<sub1>().name();
  (void)clv<sub1>().parser();
  (void)clv<sub1>().help_text();
  (void)clv<sub3>().name();
  (void)clv<sub3>().parser();
  (void)clv<sub3>().help_text();
}
DRV(comb_commands)
{
  using cmds = O::commands<sc, sub1, sub2>;
  (void)cmds{make<sc>(), make<sub1>(), make<sub2>()};
  (void)cmds{clv<sc>(), clv<sub1>(), clv<sub2>()};
  (void)O::make_commands(make<sc>(), make<sub1>(), make<sub2>());
  (void)O::make_commands(clv<sc>(), clv<sub1>(), clv<sub2>());
  DRV_MEMBERS(cmds);
  // three sub-commands, options parser and one sub-command parser held by reference
  using cmds3 = O::commands<fcppt::reference<sc const>, sub1, sub2, sub3>;
  (void)cmds3{make<fcppt::reference<sc const>>(), make<sub1>(), make<sub2>(), make<sub3>()};
  DRV_MEMBERS(cmds3);
  // sub-commands held by reference
  using cmdsr = O::commands<sc, fcppt::reference<sub1 const>, fcppt::reference<sub2 const>>;
  (void)O::make_commands(
      make<sc>(), fcppt::make_cref(clv<sub1>()), fcppt::make_cref(clv<sub2>()));
  DRV_MEMBERS(cmdsr);
}
// ---- base / make_base / detail::concrete -------------------------------------------------
using rec_a = sa::result_type;
using rec_ab = fcppt::record::
    object<fcppt::record::element<la, VA>, fcppt::record::element<lb, VB>>;
using rec_ba = fcppt::record::
    object<fcppt::record::element<lb, VB>, fcppt::record::element<la, VA>>;
DRV(base_make)
{
  (void)O::make_base<rec_a>(make<sa>());
  (void)O::make_base<rec_a>(fcppt::make_cref(clv<sa>()));
  (void)O::make_base<rec_ab>(make<O::product<sa, sb>>());
  // the result may be a permutation of the parser's result
  (void)O::make_base<rec_ba>(make<O::product<sa, sb>>());
  (void)O::make_base<rec_ba>(make<sab>());
  DRV_MEMBERS(O::base<rec_a>);
  DRV_MEMBERS(O::detail::concrete<rec_a, sa>);
  DRV_MEMBERS(O::detail::concrete<rec_ba, sab>);
  (void)(*clv<O::base_unique_ptr<rec_a>>()).usage();
  // base_unique_ptr as sub-parser
  DRV_MEMBERS(O::optional<O::base_unique_ptr<rec_a>>);
  DRV_MEMBERS(O::product<O::base_unique_ptr<rec_a>, sb>);
  (void)O::apply(make<O::base_unique_ptr<rec_a>>(), make<sb>());
}
}
template class fcppt::options::detail::concrete<drv_options::rec_a, drv_options::sa>;
template class fcppt::options::detail::concrete<drv_options::rec_ba, drv_options::sab>;
template class fcppt::options::detail::concrete<drv_options::rec_a, drv_options::rsa>;
namespace drv_options
{
DRV(deref_all)
{
  (void)O::deref(clv<sa>());
  (void)O::deref(clv<rsa>());
  (void)O::deref(clv<O::base_unique_ptr<rec_a>>());
  (void)O::deref(clv<fcppt::reference<O::base_unique_ptr<rec_a> const>>());
}
// ---- leaf parsers -------------------------------------------------------------------------
#define DRV_LEAVES(T) \
  (void)O::argument<lint, T>{make<O::long_name>(), make<O::optional_help_text>()}; \
  DRV_MEMBERS(O::argument<lint, T>); \
  (void)O::flag<lflag, T>{ \
      make<O::optional_short_name>(), \
      make<O::long_name>(), \
      make<O::active_value<T>>(), \
      make<O::inactive_value<T>>(), \
      make<O::optional_help_text>()}; \
  DRV_MEMBERS(O::flag<lflag, T>); \
  (void)clv<O::flag<lflag, T>>().short_name(); \
  (void)clv<O::flag<lflag, T>>().long_name(); \
  (void)O::option<lopt, T>{ \
      make<O::optional_short_name>(), \
      make<O::long_name>(), \
      make<O::option<lopt, T>::optional_default_value>(), \
      make<O::optional_help_text>()}; \
  DRV_MEMBERS(O::option<lopt, T>); \
  (void)O::make_active_value(make<T>()); \
  (void)O::make_active_value(clv<T>()); \
  (void)O::make_inactive_value(make<T>()); \
  (void)O::make_inactive_value(clv<T>()); \
  (void)O::make_default_value(make<fcppt::optional::object<T>>()); \
  (void)O::make_default_value(clv<fcppt::optional::object<T>>()); \
  (void)O::no_default_value<T>(); \
  (void)O::pretty_type<T>(); \
  (void)O::detail::type_annotation<T>()
DRV(leaves_int) { DRV_LEAVES(int); }
DRV(leaves_unsigned) { DRV_LEAVES(unsigned); }
DRV(leaves_string) { DRV_LEAVES(fcppt::string); }
DRV(leaves_enum) { DRV_LEAVES(color); }
DRV(leaves_bool) { DRV_LEAVES(bool); }
DRV(leaves_switches)
{
  (void)O::switch_<lsw>{
      make<O::optional_short_name>(), make<O::long_name>(), make<O::optional_help_text>()};
  DRV_MEMBERS(O::switch_<lsw>);
  (void)clv<O::switch_<lsw>>().short_name();
  (void)clv<O::switch_<lsw>>().long_name();
  (void)O::unit<lunit>{};
  DRV_MEMBERS(O::unit<lunit>);
  (void)O::unit_switch<lusw>{make<O::optional_short_name>(), make<O::long_name>()};
  DRV_MEMBERS(O::unit_switch<lusw>);
  (void)clv<O::unit_switch<lusw>>().short_name();
  (void)clv<O::unit_switch<lusw>>().long_name();
  (void)O::default_help_switch();
  DRV_MEMBERS(O::help_switch);
}
DRV(pretty_types)
{
  (void)O::pretty_type<std::string>();
  (void)O::pretty_type<std::wstring>();
  (void)O::pretty_type<O::long_name>();
  (void)O::pretty_type<O::active_value<int>>();
  (void)O::pretty_type<VA>();
  (void)O::pretty_type_impl<color>::get();
}
// ---- errors and helpers -----------------------------------------------------------------------
DRV(errors)
{
  (void)O::error{make<fcppt::string>()};
  (void)O::other_error{make<fcppt::string>()};
  (void)O::missing_error{make<O::state>(), make<fcppt::string>()};
  (void)lv<O::missing_error>().state();
  (void)clv<O::missing_error>().state();
  (void)lv<O::missing_error>().error();
  (void)clv<O::missing_error>().error();
  (void)O::parse_error{make<O::missing_error>()};
  (void)O::parse_error{make<O::other_error>()};
  (void)(lv<fcppt::io::ostream>() << clv<O::error>());
  (void)O::exception{make<fcppt::string>()};
  (void)O::duplicate_names{make<fcppt::string>()};
  (void)O::help_text{make<fcppt::string>()};
  (void)O::indent(make<fcppt::string>());
}
DRV(combine_errors)
{
  using f = fn<fcppt::string(fcppt::string &&, fcppt::string &&)>;
  (void)O::detail::combine_errors(make<O::parse_error>(), make<O::parse_error>(), clv<f>());
  (void)O::detail::combine_errors_impl(
      make<O::missing_error>(), make<O::missing_error>(), clv<f>());
  (void)O::detail::combine_errors_impl(make<O::other_error>(), make<O::missing_error>(), clv<f>());
  (void)O::detail::combine_errors_impl(make<O::missing_error>(), make<O::other_error>(), clv<f>());
  (void)O::detail::combine_errors_impl(make<O::other_error>(), make<O::other_error>(), clv<f>());
}
DRV(helpers)
{
  (void)O::make_success(make<rec_a>());
  (void)O::make_success(clv<rec_a>());
  (void)O::make_left(make<rec_a>());
  (void)O::make_left(clv<rec_a>());
  (void)O::make_right(make<rec_a>());
  (void)O::make_right(clv<rec_a>());
  using sv = O::state_with_value<rec_a>;
  (void)sv{make<O::state>(), make<rec_a>()};
  (void)lv<sv>().state();
  (void)clv<sv>().state();
  (void)lv<sv>().value();
  (void)clv<sv>().value();
  (void)O::state{make<fcppt::args_vector>()};
  (void)clv<O::state>().empty();
  (void)lv<O::state>().args();
  (void)clv<O::state>().args();
  (void)O::parse_context{make<O::option_name_set>()};
  (void)clv<O::parse_context>().option_names();
  (void)O::option_name{make<fcppt::string>(), make<O::option_name::is_short>()};
  (void)clv<O::option_name>().name();
  (void)clv<O::option_name>().get_is_short();
}
// ---- entry points -------------------------------------------------------------------------
DRV(entry_stub)
{
  (void)O::detail::parse_to_empty(clv<sa>(), make<O::state>(), clv<O::parse_context>());
  (void)O::detail::parse_to_empty(clv<rsa>(), make<O::state>(), clv<O::parse_context>());
  (void)O::parse(clv<sa>(), clv<fcppt::args_vector>());
  (void)O::parse(clv<rsa>(), clv<fcppt::args_vector>());
  (void)O::parse(clv<O::base<rec_a>>(), clv<fcppt::args_vector>());
  (void)O::parse(clv<O::base_unique_ptr<rec_a>>(), clv<fcppt::args_vector>());
  (void)O::parse(clv<O::product<sa, sb>>(), clv<fcppt::args_vector>());
  (void)O::parse_help(clv<O::help_switch>(), clv<sa>(), clv<fcppt::args_vector>());
  (void)O::parse_help(O::default_help_switch(), clv<sab>(), clv<fcppt::args_vector>());
  (void)O::parse_help(clv<O::help_switch>(), clv<O::base<rec_a>>(), clv<fcppt::args_vector>());
}
DRV(entry_real)
{
  auto const parser{O::apply(
      O::argument<lint, int>{make<O::long_name>(), make<O::optional_help_text>()},
      O::make_optional(O::option<lopt, unsigned>{
          make<O::optional_short_name>(),
          make<O::long_name>(),
          O::no_default_value<unsigned>(),
          make<O::optional_help_text>()}),
      O::make_many(O::argument<lstr, fcppt::string>{
          make<O::long_name>(), make<O::optional_help_text>()}),
      O::flag<lenum, color>{
          make<O::optional_short_name>(),
          make<O::long_name>(),
          O::make_active_value(color::red),
          O::make_inactive_value(color::green),
          make<O::optional_help_text>()},
      O::switch_<lsw>{
          make<O::optional_short_name>(), make<O::long_name>(), make<O::optional_help_text>()})};
  (void)O::parse(parser, clv<fcppt::args_vector>());
  (void)O::parse_help(O::default_help_switch(), parser, clv<fcppt::args_vector>());
  (void)parser.usage();
  auto const commands{O::make_commands(
      O::unit_switch<lusw>{make<O::optional_short_name>(), make<O::long_name>()},
      O::make_sub_command<cmd1>(
          make<fcppt::string>(), fcppt::make_cref(parser), make<O::optional_help_text>()),
      O::make_sub_command<cmd2>(
          make<fcppt::string>(),
          O::make_sum<lsum>(
              O::unit<lunit>{},
              O::option<luint, unsigned>{
                  make<O::optional_short_name>(),
                  make<O::long_name>(),
                  O::make_default_value(fcppt::optional::object<unsigned>{make<unsigned>()}),
                  make<O::optional_help_text>()}),
          make<O::optional_help_text>()))};
  (void)O::parse(commands, clv<fcppt::args_vector>());
  (void)O::parse_help(O::default_help_switch(), commands, clv<fcppt::args_vector>());
  (void)commands.usage();
  using result_type = O::result_of<decltype(parser)>;
  auto const base{O::make_base<result_type>(fcppt::make_cref(parser))};
  (void)O::parse(*base, clv<fcppt::args_vector>());
}
}
