// fcppt-facts: libTooling fact extractor (engine F of DESIGN.md).
//
// For one translation unit, writes a JSON file describing every non-dependent function
// definition (including template instantiations, constructors with their initialisers, and
// lambda call operators inline) whose definition lies under one of the root prefixes, as a
// normalised, type-resolved statement/expression tree, plus the complete records (fields,
// bases) defined under those prefixes.
//
// usage: fcppt-facts --out=<file.json> --roots=<prefix>[,<prefix>...] <source> -- <clang flags>
//
// Nothing is executed; this is a pure front-end pass.

#include "clang/AST/ASTConsumer.h"
#include "clang/AST/ASTContext.h"
#include "clang/AST/Mangle.h"
#include "clang/AST/RecursiveASTVisitor.h"
#include "clang/AST/RawCommentList.h"
#include "clang/Frontend/CompilerInstance.h"
#include "clang/Frontend/FrontendAction.h"
#include "clang/Tooling/CommonOptionsParser.h"
#include "clang/Tooling/Tooling.h"
#include "llvm/Support/CommandLine.h"
#include "llvm/Support/JSON.h"
#include "llvm/Support/raw_ostream.h"

#include <map>
#include <set>
#include <string>
#include <vector>

using namespace clang;

static llvm::cl::OptionCategory Cat("fcppt-facts");
static llvm::cl::opt<std::string> OutFile("out", llvm::cl::desc("output json"), llvm::cl::cat(Cat));
static llvm::cl::opt<std::string> Roots(
    "roots", llvm::cl::desc("comma separated path prefixes"), llvm::cl::cat(Cat));

namespace
{
std::vector<std::string> splitRoots()
{
  std::vector<std::string> R;
  std::string S = Roots;
  size_t P = 0;
  while (P <= S.size())
  {
    size_t Q = S.find(',', P);
    if (Q == std::string::npos)
      Q = S.size();
    if (Q > P)
      R.push_back(S.substr(P, Q - P));
    P = Q + 1;
  }
  return R;
}

class Dumper
{
public:
  Dumper(ASTContext &C, llvm::json::OStream &J)
      : Ctx(C), SM(C.getSourceManager()), J(J), RootList(splitRoots()),
        MC(ItaniumMangleContext::create(C, C.getDiagnostics()))
  {
    PP.SuppressTagKeyword = true;
    PP.Bool = true;
    PP.SuppressUnwrittenScope = true;
  }

  ASTContext &Ctx;
  SourceManager &SM;
  llvm::json::OStream &J;
  std::vector<std::string> RootList;
  std::unique_ptr<ItaniumMangleContext> MC;
  PrintingPolicy PP{LangOptions()};
  std::map<std::string, unsigned> Files;
  std::vector<std::string> FileList;
  std::map<std::string, unsigned> Types;
  std::vector<std::string> TypeList;
  std::map<const void *, unsigned> Ids;
  unsigned NFunctions = 0, NLambdas = 0, NRecords = 0;

  unsigned id(const void *P)
  {
    auto It = Ids.find(P);
    if (It != Ids.end())
      return It->second;
    unsigned N = static_cast<unsigned>(Ids.size()) + 1;
    Ids[P] = N;
    return N;
  }

  unsigned fileIdx(llvm::StringRef F)
  {
    std::string S = F.str();
    auto It = Files.find(S);
    if (It != Files.end())
      return It->second;
    unsigned N = static_cast<unsigned>(FileList.size());
    Files[S] = N;
    FileList.push_back(S);
    return N;
  }

  unsigned typeIdx(QualType T)
  {
    std::string S = T.isNull() ? std::string("<null>") : T.getCanonicalType().getAsString(PP);
    auto It = Types.find(S);
    if (It != Types.end())
      return It->second;
    unsigned N = static_cast<unsigned>(TypeList.size());
    Types[S] = N;
    TypeList.push_back(S);
    return N;
  }

  std::string locStr(SourceLocation L)
  {
    if (L.isInvalid())
      return "";
    SourceLocation E = SM.getExpansionLoc(L);
    PresumedLoc P = SM.getPresumedLoc(E);
    if (P.isInvalid())
      return "";
    return std::to_string(fileIdx(P.getFilename())) + ":" + std::to_string(P.getLine()) + ":" +
           std::to_string(P.getColumn());
  }

  std::string fileOf(SourceLocation L)
  {
    if (L.isInvalid())
      return "";
    PresumedLoc P = SM.getPresumedLoc(SM.getExpansionLoc(L));
    if (P.isInvalid())
      return "";
    return P.getFilename();
  }

  bool underRoots(SourceLocation L)
  {
    std::string F = fileOf(L);
    for (auto const &R : RootList)
      if (F.compare(0, R.size(), R) == 0)
        return true;
    return false;
  }

  // spelled macro name if the location comes from a macro expansion
  std::string macroName(SourceLocation L)
  {
    if (!L.isMacroID())
      return "";
    SourceLocation Cur = L;
    std::string Outer;
    while (Cur.isMacroID())
    {
      Outer = Lexer::getImmediateMacroName(Cur, SM, Ctx.getLangOpts()).str();
      Cur = SM.getImmediateMacroCallerLoc(Cur);
    }
    return Outer;
  }

  static const char *refKind(QualType T)
  {
    if (T->isLValueReferenceType())
      return T.getNonReferenceType().isConstQualified() ? "clref" : "lref";
    if (T->isRValueReferenceType())
      return "rref";
    return "val";
  }

  static bool isForwardingRef(const ParmVarDecl *PatternParm, const FunctionDecl *Pattern)
  {
    QualType T = PatternParm->getType();
    if (!T->isRValueReferenceType())
      return false;
    QualType Pointee = T->getPointeeType();
    if (Pointee.hasQualifiers())
      return false;
    const auto *TTP = Pointee->getAs<TemplateTypeParmType>();
    if (!TTP)
      return false;
    const FunctionTemplateDecl *FT = Pattern->getDescribedFunctionTemplate();
    if (!FT)
      return false; // T&& of an enclosing class template's parameter is a plain rvalue reference
    return TTP->getDepth() == FT->getTemplateParameters()->getDepth();
  }

  void templateArgs(const TemplateArgumentList *L)
  {
    if (!L)
      return;
    J.attributeArray("targs", [&] {
      for (const TemplateArgument &A : L->asArray())
        emitTArg(A);
    });
  }

  void emitTArg(const TemplateArgument &A)
  {
    std::string S;
    llvm::raw_string_ostream OS(S);
    if (A.getKind() == TemplateArgument::Type)
      OS << A.getAsType().getCanonicalType().getAsString(PP);
    else if (A.getKind() == TemplateArgument::Pack)
    {
      OS << "<";
      bool First = true;
      for (const TemplateArgument &E : A.pack_elements())
      {
        if (!First)
          OS << ", ";
        First = false;
        if (E.getKind() == TemplateArgument::Type)
          OS << E.getAsType().getCanonicalType().getAsString(PP);
        else
          E.print(PP, OS, true);
      }
      OS << ">";
    }
    else
      A.print(PP, OS, true);
    J.value(OS.str());
  }

  std::string mangled(const FunctionDecl *FD)
  {
    if (isa<CXXConstructorDecl>(FD) || isa<CXXDestructorDecl>(FD))
    {
      std::string S;
      llvm::raw_string_ostream OS(S);
      GlobalDecl GD = isa<CXXConstructorDecl>(FD)
                          ? GlobalDecl(cast<CXXConstructorDecl>(FD), Ctor_Complete)
                          : GlobalDecl(cast<CXXDestructorDecl>(FD), Dtor_Complete);
      if (MC->shouldMangleDeclName(FD))
        MC->mangleName(GD, OS);
      return OS.str();
    }
    if (!MC->shouldMangleDeclName(FD))
      return FD->getNameAsString();
    std::string S;
    llvm::raw_string_ostream OS(S);
    MC->mangleName(GlobalDecl(FD), OS);
    return OS.str();
  }

  const FunctionDecl *patternOf(const FunctionDecl *FD)
  {
    if (const FunctionDecl *P = FD->getTemplateInstantiationPattern())
      return P;
    return FD;
  }

  std::string docOf(const FunctionDecl *FD)
  {
    const FunctionDecl *P = patternOf(FD);
    for (const FunctionDecl *R : P->redecls())
    {
      const Decl *D = R;
      if (const FunctionTemplateDecl *FT = R->getDescribedFunctionTemplate())
        D = FT;
      if (const RawComment *RC = Ctx.getRawCommentForDeclNoCache(D))
        return RC->getRawText(SM).str();
    }
    // member of class template: look at the member it was instantiated from
    if (const auto *MD = dyn_cast<CXXMethodDecl>(P))
    {
      if (const FunctionDecl *M = MD->getInstantiatedFromMemberFunction())
        for (const FunctionDecl *R : M->redecls())
          if (const RawComment *RC = Ctx.getRawCommentForDeclNoCache(R))
            return RC->getRawText(SM).str();
    }
    return "";
  }

  // ---------------------------------------------------------------------------------------
  // function record
  void functionHeader(const FunctionDecl *FD)
  {
    J.attribute("id", id(FD->getCanonicalDecl()));
    J.attribute("qn", FD->getQualifiedNameAsString());
    J.attribute("mangled", mangled(FD));
    const char *Kind = "function";
    if (isa<CXXConstructorDecl>(FD))
      Kind = "ctor";
    else if (isa<CXXDestructorDecl>(FD))
      Kind = "dtor";
    else if (isa<CXXConversionDecl>(FD))
      Kind = "conversion";
    else if (FD->isOverloadedOperator())
      Kind = isa<CXXMethodDecl>(FD) ? "method_operator" : "operator";
    else if (isa<CXXMethodDecl>(FD))
      Kind = "method";
    J.attribute("kind", Kind);
    if (FD->isOverloadedOperator())
      J.attribute("op", getOperatorSpelling(FD->getOverloadedOperator()));
    J.attribute("loc", locStr(FD->getLocation()));
    const FunctionDecl *P = patternOf(FD);
    if (const auto *PD = P->getDefinition())
      P = PD;
    J.attribute("primary", locStr(P->getLocation()));
    J.attribute("inst", FD->isTemplateInstantiation() || P != FD);
    J.attribute("ret", typeIdx(FD->getReturnType()));
    if (const auto *FPT = FD->getType()->getAs<FunctionProtoType>())
      J.attribute("noexcept", FPT->canThrow() == CT_Cannot);
    if (const auto *MD = dyn_cast<CXXMethodDecl>(FD))
    {
      J.attribute("record", MD->getParent()->getQualifiedNameAsString());
      J.attribute("record_id", id(MD->getParent()->getCanonicalDecl()));
      J.attribute("const", MD->isConst());
      J.attribute("static", MD->isStatic());
      J.attribute("access", static_cast<int>(MD->getAccess()));
      J.attribute("virtual", MD->isVirtual());
      if (MD->getRefQualifier() != RQ_None)
        J.attribute("refq", MD->getRefQualifier() == RQ_LValue ? "&" : "&&");
      if (const auto *CD = dyn_cast<CXXConstructorDecl>(FD))
      {
        J.attribute(
            "ctor_kind",
            CD->isCopyConstructor() ? "copy"
                                    : (CD->isMoveConstructor()
                                           ? "move"
                                           : (CD->isDefaultConstructor() ? "default" : "other")));
      }
      if (MD->isCopyAssignmentOperator())
        J.attribute("assign_kind", "copy");
      if (MD->isMoveAssignmentOperator())
        J.attribute("assign_kind", "move");
    }
    J.attribute("defaulted", FD->isDefaulted());
    templateArgs(FD->getTemplateSpecializationArgs());
    if (const auto *MD = dyn_cast<CXXMethodDecl>(FD))
      if (const auto *CTS = dyn_cast<ClassTemplateSpecializationDecl>(MD->getParent()))
      {
        J.attributeArray("rec_targs", [&] {
          for (const TemplateArgument &A : CTS->getTemplateArgs().asArray())
            emitTArg(A);
        });
      }
    J.attributeArray("params", [&] {
      unsigned N = FD->getNumParams();
      for (unsigned I = 0; I < N; ++I)
      {
        const ParmVarDecl *PV = FD->getParamDecl(I);
        J.object([&] {
          J.attribute("id", id(PV));
          J.attribute("name", PV->getNameAsString());
          J.attribute("t", typeIdx(PV->getType()));
          J.attribute("ref", refKind(PV->getType()));
          bool Fwd = false;
          if (P != FD && !P->isVariadic())
          {
            // map to the pattern parameter if it is not a pack expansion
            bool HasPack = false;
            for (const ParmVarDecl *PP2 : P->parameters())
              if (PP2->isParameterPack())
                HasPack = true;
            if (!HasPack && I < P->getNumParams())
              Fwd = isForwardingRef(P->getParamDecl(I), P);
            else if (HasPack)
            {
              // find pattern param: all before pack map 1:1; rest map to the pack
              unsigned K = 0;
              for (; K < P->getNumParams(); ++K)
                if (P->getParamDecl(K)->isParameterPack() || K == I)
                  break;
              if (K < P->getNumParams())
              {
                const ParmVarDecl *PP3 = P->getParamDecl(K);
                QualType T = PP3->getType();
                if (const auto *PE = T->getAs<PackExpansionType>())
                  T = PE->getPattern();
                if (T->isRValueReferenceType() && !T->getPointeeType().hasQualifiers() &&
                    T->getPointeeType()->getAs<TemplateTypeParmType>())
                  Fwd = true;
              }
            }
          }
          J.attribute("fwd", Fwd);
        });
      }
    });
  }

  void functionRecord(const FunctionDecl *FD, bool IsLambda)
  {
    J.object([&] {
      functionHeader(FD);
      if (IsLambda)
        J.attribute("lambda", true);
      else
      {
        std::string Doc = docOf(FD);
        if (!Doc.empty())
          J.attribute("doc", Doc);
      }
      if (const auto *CD = dyn_cast<CXXConstructorDecl>(FD))
      {
        J.attributeArray("inits", [&] {
          for (const CXXCtorInitializer *I : CD->inits())
          {
            J.object([&] {
              if (I->isAnyMemberInitializer())
              {
                J.attribute("field", I->getAnyMember()->getNameAsString());
                J.attribute("field_id", id(I->getAnyMember()->getCanonicalDecl()));
              }
              else if (I->isBaseInitializer())
                J.attribute(
                    "base", QualType(I->getBaseClass(), 0).getCanonicalType().getAsString(PP));
              else if (I->isDelegatingInitializer())
                J.attribute("delegating", true);
              J.attribute("written", I->isWritten());
              J.attributeBegin("init");
              stmt(I->getInit());
              J.attributeEnd();
            });
          }
        });
      }
      J.attributeBegin("body");
      stmt(FD->getBody());
      J.attributeEnd();
    });
    if (IsLambda)
      ++NLambdas;
    else
      ++NFunctions;
  }

  // ---------------------------------------------------------------------------------------
  static const Expr *strip(const Expr *E)
  {
    for (;;)
    {
      if (!E)
        return E;
      if (const auto *P = dyn_cast<ParenExpr>(E))
        E = P->getSubExpr();
      else if (const auto *P = dyn_cast<ExprWithCleanups>(E))
        E = P->getSubExpr();
      else if (const auto *P = dyn_cast<MaterializeTemporaryExpr>(E))
        E = P->getSubExpr();
      else if (const auto *P = dyn_cast<CXXBindTemporaryExpr>(E))
        E = P->getSubExpr();
      else if (const auto *P = dyn_cast<ConstantExpr>(E))
        E = P->getSubExpr();
      else if (const auto *P = dyn_cast<SubstNonTypeTemplateParmExpr>(E))
        E = P->getReplacement();
      else if (const auto *P = dyn_cast<CXXDefaultArgExpr>(E))
        E = P->getExpr();
      else if (const auto *P = dyn_cast<CXXDefaultInitExpr>(E))
        E = P->getExpr();
      else if (const auto *P = dyn_cast<CXXStdInitializerListExpr>(E))
        E = P->getSubExpr();
      else if (const auto *P = dyn_cast<CXXRewrittenBinaryOperator>(E))
        E = P->getSemanticForm();
      else if (const auto *P = dyn_cast<ImplicitCastExpr>(E))
      {
        switch (P->getCastKind())
        {
        case CK_IntegralCast:
        case CK_IntegralToBoolean:
        case CK_IntegralToFloating:
        case CK_FloatingToIntegral:
        case CK_FloatingCast:
        case CK_DerivedToBase:
        case CK_UncheckedDerivedToBase:
        case CK_PointerToBoolean:
        case CK_BooleanToSignedIntegral:
          return E;
        default:
          E = P->getSubExpr();
        }
      }
      else
        return E;
    }
  }

  std::vector<const FunctionDecl *> CalleeDecls;
  std::set<const Decl *> CalleeSeen;

  void calleeInfo(const FunctionDecl *FD)
  {
    J.attribute("callee", id(FD->getCanonicalDecl()));
    if (CalleeSeen.insert(FD->getCanonicalDecl()).second)
      CalleeDecls.push_back(FD);
  }

  void calleeDecl(const FunctionDecl *FD)
  {
    J.object([&] {
      J.attribute("id", id(FD->getCanonicalDecl()));
      J.attribute("qn", FD->getQualifiedNameAsString());
      J.attribute("mangled", mangled(FD));
      templateArgs(FD->getTemplateSpecializationArgs());
      const FunctionDecl *P = patternOf(FD);
      if (const auto *PD = P->getDefinition())
        P = PD;
      J.attribute("primary", locStr(P->getLocation()));
      J.attribute("has_body", FD->hasBody());
      J.attribute("ret", typeIdx(FD->getReturnType()));
      if (const auto *FPT = FD->getType()->getAs<FunctionProtoType>())
        J.attribute("noexcept", FPT->canThrow() == CT_Cannot);
      if (FD->isOverloadedOperator())
        J.attribute("op", getOperatorSpelling(FD->getOverloadedOperator()));
      if (const auto *MD = dyn_cast<CXXMethodDecl>(FD))
      {
        J.attribute("record", MD->getParent()->getQualifiedNameAsString());
        J.attribute("record_id", id(MD->getParent()->getCanonicalDecl()));
        J.attribute("const", MD->isConst());
        J.attribute("static", MD->isStatic());
        if (MD->getParent()->isLambda())
          J.attribute("lambda_class", id(MD->getParent()->getCanonicalDecl()));
        if (const auto *CTS = dyn_cast<ClassTemplateSpecializationDecl>(MD->getParent()))
        {
          J.attributeArray("rec_targs", [&] {
            for (const TemplateArgument &A : CTS->getTemplateArgs().asArray())
              emitTArg(A);
          });
        }
        if (MD->isCopyAssignmentOperator())
          J.attribute("assign_kind", "copy");
        if (MD->isMoveAssignmentOperator())
          J.attribute("assign_kind", "move");
      }
      if (FD->isDeleted())
        J.attribute("deleted", true);
      J.attributeArray("prefs", [&] {
        for (const ParmVarDecl *PV : FD->parameters())
          J.value(refKind(PV->getType()));
      });
      J.attributeArray("ptypes", [&] {
        for (const ParmVarDecl *PV : FD->parameters())
          J.value(typeIdx(PV->getType()));
      });
      if (FD->isNoReturn())
        J.attribute("noreturn", true);
    });
  }

  void exprCommon(const Expr *E)
  {
    J.attribute("t", typeIdx(E->getType()));
    if (E->isXValue())
      J.attribute("vc", "x");
    else if (E->isLValue())
      J.attribute("vc", "l");
    if (!E->isValueDependent() && !E->getType().isNull() &&
        E->getType()->isIntegralOrEnumerationType() && !isa<IntegerLiteral>(E) &&
        !isa<CXXBoolLiteralExpr>(E))
    {
      Expr::EvalResult R;
      if (E->EvaluateAsInt(R, Ctx, Expr::SE_NoSideEffects))
      {
        llvm::SmallString<32> S;
        R.Val.getInt().toString(S, 10);
        J.attribute("c", S.str());
      }
    }
  }

  void children(const Stmt *S)
  {
    J.attributeArray("ch", [&] {
      for (const Stmt *C : S->children())
        stmt(C);
    });
  }

  void varDecl(const VarDecl *VD)
  {
    J.object([&] {
      J.attribute("k", "var");
      J.attribute("id", id(VD->getCanonicalDecl()));
      J.attribute("name", VD->getNameAsString());
      J.attribute("loc", locStr(VD->getLocation()));
      J.attribute("t", typeIdx(VD->getType()));
      J.attribute("ref", refKind(VD->getType()));
      if (VD->isStaticLocal())
        J.attribute("static", true);
      if (VD->isConstexpr())
        J.attribute("constexpr", true);
      if (VD->getInitStyle() == VarDecl::ListInit)
        J.attribute("list_init", true);
      if (const auto *DD = dyn_cast<DecompositionDecl>(VD))
      {
        J.attributeArray("bindings", [&] {
          for (const BindingDecl *B : DD->bindings())
            J.object([&] {
              J.attribute("id", id(B));
              J.attribute("name", B->getNameAsString());
            });
        });
      }
      if (VD->hasInit())
      {
        J.attributeBegin("init");
        stmt(VD->getInit());
        J.attributeEnd();
      }
    });
  }

  void lambdaOps(const LambdaExpr *L)
  {
    const CXXRecordDecl *RD = L->getLambdaClass();
    J.attributeArray("ops", [&] {
      if (const FunctionTemplateDecl *FT = RD->getDependentLambdaCallOperator())
      {
        for (const FunctionDecl *Spec : FT->specializations())
          if (Spec->doesThisDeclarationHaveABody() && !Spec->isDependentContext())
            functionRecord(Spec, true);
      }
      else if (const CXXMethodDecl *Op = RD->getLambdaCallOperator())
      {
        if (Op->doesThisDeclarationHaveABody() && !Op->isDependentContext())
          functionRecord(Op, true);
      }
    });
  }

  void stmt(const Stmt *S)
  {
    if (!S)
    {
      J.value(nullptr);
      return;
    }
    if (const auto *E = dyn_cast<Expr>(S))
    {
      E = strip(E);
      expr(E);
      return;
    }
    J.object([&] {
      J.attribute("loc", locStr(S->getBeginLoc()));
      if (const auto *C = dyn_cast<CompoundStmt>(S))
      {
        J.attribute("k", "compound");
        children(C);
      }
      else if (const auto *D = dyn_cast<DeclStmt>(S))
      {
        J.attribute("k", "decl");
        J.attributeArray("ch", [&] {
          for (const Decl *Dc : D->decls())
          {
            if (const auto *VD = dyn_cast<VarDecl>(Dc))
              varDecl(VD);
          }
        });
      }
      else if (const auto *I = dyn_cast<IfStmt>(S))
      {
        J.attribute("k", "if");
        if (I->isConstexpr())
          J.attribute("constexpr", true);
        if (I->getInit())
        {
          J.attributeBegin("init");
          stmt(I->getInit());
          J.attributeEnd();
        }
        if (I->getConditionVariableDeclStmt())
        {
          J.attributeBegin("condvar");
          stmt(I->getConditionVariableDeclStmt());
          J.attributeEnd();
        }
        J.attributeBegin("cond");
        stmt(I->getCond());
        J.attributeEnd();
        J.attributeBegin("then");
        stmt(I->getThen());
        J.attributeEnd();
        J.attributeBegin("else");
        stmt(I->getElse());
        J.attributeEnd();
      }
      else if (const auto *F = dyn_cast<ForStmt>(S))
      {
        J.attribute("k", "for");
        J.attributeBegin("init");
        stmt(F->getInit());
        J.attributeEnd();
        J.attributeBegin("cond");
        stmt(F->getCond());
        J.attributeEnd();
        J.attributeBegin("inc");
        stmt(F->getInc());
        J.attributeEnd();
        J.attributeBegin("body");
        stmt(F->getBody());
        J.attributeEnd();
      }
      else if (const auto *W = dyn_cast<WhileStmt>(S))
      {
        J.attribute("k", "while");
        J.attributeBegin("cond");
        stmt(W->getCond());
        J.attributeEnd();
        J.attributeBegin("body");
        stmt(W->getBody());
        J.attributeEnd();
      }
      else if (const auto *Dw = dyn_cast<DoStmt>(S))
      {
        J.attribute("k", "do");
        J.attributeBegin("cond");
        stmt(Dw->getCond());
        J.attributeEnd();
        J.attributeBegin("body");
        stmt(Dw->getBody());
        J.attributeEnd();
      }
      else if (const auto *R = dyn_cast<CXXForRangeStmt>(S))
      {
        J.attribute("k", "range_for");
        J.attributeBegin("var");
        if (R->getLoopVariable())
          varDecl(R->getLoopVariable());
        else
          J.value(nullptr);
        J.attributeEnd();
        J.attributeBegin("range");
        stmt(R->getRangeInit());
        J.attributeEnd();
        J.attributeBegin("body");
        stmt(R->getBody());
        J.attributeEnd();
      }
      else if (const auto *Rt = dyn_cast<ReturnStmt>(S))
      {
        J.attribute("k", "return");
        J.attributeBegin("e");
        stmt(Rt->getRetValue());
        J.attributeEnd();
      }
      else if (const auto *Sw = dyn_cast<SwitchStmt>(S))
      {
        J.attribute("k", "switch");
        J.attributeBegin("cond");
        stmt(Sw->getCond());
        J.attributeEnd();
        J.attributeBegin("body");
        stmt(Sw->getBody());
        J.attributeEnd();
      }
      else if (const auto *Cs = dyn_cast<CaseStmt>(S))
      {
        J.attribute("k", "case");
        J.attributeBegin("value");
        stmt(Cs->getLHS());
        J.attributeEnd();
        J.attributeBegin("sub");
        stmt(Cs->getSubStmt());
        J.attributeEnd();
      }
      else if (const auto *Df = dyn_cast<DefaultStmt>(S))
      {
        J.attribute("k", "default");
        J.attributeBegin("sub");
        stmt(Df->getSubStmt());
        J.attributeEnd();
      }
      else if (isa<BreakStmt>(S))
        J.attribute("k", "break");
      else if (isa<ContinueStmt>(S))
        J.attribute("k", "continue");
      else if (isa<NullStmt>(S))
        J.attribute("k", "null");
      else if (const auto *T = dyn_cast<CXXTryStmt>(S))
      {
        J.attribute("k", "try");
        J.attributeBegin("body");
        stmt(T->getTryBlock());
        J.attributeEnd();
        J.attributeArray("handlers", [&] {
          for (unsigned I2 = 0; I2 < T->getNumHandlers(); ++I2)
          {
            const CXXCatchStmt *H = T->getHandler(I2);
            J.object([&] {
              J.attribute("k", "catch");
              J.attribute("loc", locStr(H->getBeginLoc()));
              if (H->getExceptionDecl())
              {
                J.attribute("t", typeIdx(H->getCaughtType()));
                J.attribute("var_id", id(H->getExceptionDecl()->getCanonicalDecl()));
              }
              else
                J.attribute("all", true);
              J.attributeBegin("body");
              stmt(H->getHandlerBlock());
              J.attributeEnd();
            });
          }
        });
      }
      else if (const auto *AS = dyn_cast<AttributedStmt>(S))
      {
        J.attribute("k", "attributed");
        J.attributeArray("ch", [&] { stmt(AS->getSubStmt()); });
      }
      else
      {
        J.attribute("k", std::string("stmt:") + S->getStmtClassName());
        children(S);
      }
    });
  }

  void declRef(const ValueDecl *D, const DeclRefExpr *DRE)
  {
    J.attribute("id", id(D->getCanonicalDecl()));
    J.attribute("name", D->getNameAsString());
    const char *DK = "other";
    if (isa<ParmVarDecl>(D))
      DK = "param";
    else if (const auto *VD = dyn_cast<VarDecl>(D))
      DK = VD->isLocalVarDecl() ? (VD->isStaticLocal() ? "static_local" : "local") : "global";
    else if (isa<FunctionDecl>(D))
      DK = "function";
    else if (isa<EnumConstantDecl>(D))
      DK = "enumerator";
    else if (isa<BindingDecl>(D))
      DK = "binding";
    else if (isa<FieldDecl>(D))
      DK = "field";
    J.attribute("dk", DK);
    if (DRE && DRE->refersToEnclosingVariableOrCapture())
      J.attribute("captured", true);
    if (const auto *FD = dyn_cast<FunctionDecl>(D))
    {
      J.attribute("qn", FD->getQualifiedNameAsString());
    }
    else if (isa<EnumConstantDecl>(D) || (isa<VarDecl>(D) && !cast<VarDecl>(D)->isLocalVarDecl() &&
                                          !isa<ParmVarDecl>(D)))
      J.attribute("qn", D->getQualifiedNameAsString());
    if (const auto *VD = dyn_cast<VarDecl>(D))
      J.attribute("ref", refKind(VD->getType()));
  }

  void expr(const Expr *E)
  {
    if (!E)
    {
      J.value(nullptr);
      return;
    }
    J.object([&] {
      J.attribute("loc", locStr(E->getExprLoc()));
      if (E->getExprLoc().isMacroID())
      {
        std::string M = macroName(E->getExprLoc());
        if (!M.empty())
          J.attribute("macro", M);
      }
      exprCommon(E);
      if (const auto *DR = dyn_cast<DeclRefExpr>(E))
      {
        J.attribute("k", "ref");
        declRef(DR->getDecl(), DR);
      }
      else if (const auto *ME = dyn_cast<MemberExpr>(E))
      {
        J.attribute("k", "member");
        J.attribute("name", ME->getMemberDecl()->getNameAsString());
        J.attribute("mid", id(ME->getMemberDecl()->getCanonicalDecl()));
        J.attribute("arrow", ME->isArrow());
        if (const auto *FD = dyn_cast<FieldDecl>(ME->getMemberDecl()))
        {
          J.attribute("field", true);
          J.attribute("record", FD->getParent()->getQualifiedNameAsString());
          J.attribute("mutable", FD->isMutable());
        }
        J.attributeBegin("base");
        stmt(ME->getBase());
        J.attributeEnd();
      }
      else if (isa<CXXThisExpr>(E))
      {
        J.attribute("k", "this");
      }
      else if (const auto *OC = dyn_cast<CXXOperatorCallExpr>(E))
      {
        J.attribute("k", "call");
        J.attribute("opcall", getOperatorSpelling(OC->getOperator()));
        const FunctionDecl *FD = OC->getDirectCallee();
        if (FD)
          calleeInfo(FD);
        bool Member = FD && isa<CXXMethodDecl>(FD) && !cast<CXXMethodDecl>(FD)->isStatic();
        unsigned Start = 0;
        if (Member && OC->getNumArgs() > 0)
        {
          J.attributeBegin("recv");
          stmt(OC->getArg(0));
          J.attributeEnd();
          Start = 1;
        }
        J.attributeArray("args", [&] {
          for (unsigned I = Start; I < OC->getNumArgs(); ++I)
            stmt(OC->getArg(I));
        });
      }
      else if (const auto *MC2 = dyn_cast<CXXMemberCallExpr>(E))
      {
        J.attribute("k", "call");
        const FunctionDecl *FD = MC2->getDirectCallee();
        if (FD)
          calleeInfo(FD);
        J.attributeBegin("recv");
        stmt(MC2->getImplicitObjectArgument());
        J.attributeEnd();
        if (const auto *ME2 = dyn_cast<MemberExpr>(MC2->getCallee()->IgnoreParenImpCasts()))
          J.attribute("arrow", ME2->isArrow());
        J.attributeArray("args", [&] {
          for (const Expr *A : MC2->arguments())
            stmt(A);
        });
      }
      else if (const auto *CE = dyn_cast<CallExpr>(E))
      {
        J.attribute("k", "call");
        const FunctionDecl *FD = CE->getDirectCallee();
        if (FD)
          calleeInfo(FD);
        else
        {
          J.attributeBegin("fn");
          stmt(CE->getCallee());
          J.attributeEnd();
        }
        J.attributeArray("args", [&] {
          for (const Expr *A : CE->arguments())
            stmt(A);
        });
      }
      else if (const auto *CC = dyn_cast<CXXConstructExpr>(E))
      {
        J.attribute("k", "construct");
        const CXXConstructorDecl *CD = CC->getConstructor();
        J.attribute("cls", CD->getParent()->getQualifiedNameAsString());
        J.attribute(
            "ctor",
            CD->isCopyConstructor()
                ? "copy"
                : (CD->isMoveConstructor() ? "move"
                                           : (CD->isDefaultConstructor() ? "default" : "other")));
        J.attribute("elidable", CC->isElidable());
        J.attribute("list", CC->isListInitialization());
        J.attribute("temp", isa<CXXTemporaryObjectExpr>(CC));
        calleeInfo(CD);
        J.attributeArray("args", [&] {
          for (const Expr *A : CC->arguments())
            stmt(A);
        });
      }
      else if (const auto *IC = dyn_cast<ImplicitCastExpr>(E))
      {
        J.attribute("k", "icast");
        J.attribute("ck", IC->getCastKindName());
        J.attributeBegin("e");
        stmt(IC->getSubExpr());
        J.attributeEnd();
      }
      else if (const auto *EC = dyn_cast<ExplicitCastExpr>(E))
      {
        J.attribute("k", "cast");
        const char *Style = "c";
        if (isa<CXXStaticCastExpr>(EC))
          Style = "static";
        else if (isa<CXXConstCastExpr>(EC))
          Style = "const";
        else if (isa<CXXReinterpretCastExpr>(EC))
          Style = "reinterpret";
        else if (isa<CXXDynamicCastExpr>(EC))
          Style = "dynamic";
        else if (isa<CXXFunctionalCastExpr>(EC))
          Style = "functional";
        J.attribute("style", Style);
        J.attribute("ck", EC->getCastKindName());
        J.attribute("to", typeIdx(EC->getTypeAsWritten()));
        J.attributeBegin("e");
        stmt(EC->getSubExpr());
        J.attributeEnd();
      }
      else if (const auto *UO = dyn_cast<UnaryOperator>(E))
      {
        J.attribute("k", "unop");
        J.attribute("op", UnaryOperator::getOpcodeStr(UO->getOpcode()));
        J.attribute("postfix", UO->isPostfix());
        J.attributeBegin("e");
        stmt(UO->getSubExpr());
        J.attributeEnd();
      }
      else if (const auto *BO = dyn_cast<BinaryOperator>(E))
      {
        J.attribute(
            "k", BO->isCompoundAssignmentOp() ? "compound_assign"
                                               : (BO->isAssignmentOp() ? "assign" : "binop"));
        J.attribute("op", BO->getOpcodeStr());
        J.attributeBegin("l");
        stmt(BO->getLHS());
        J.attributeEnd();
        J.attributeBegin("r");
        stmt(BO->getRHS());
        J.attributeEnd();
      }
      else if (const auto *CO = dyn_cast<ConditionalOperator>(E))
      {
        J.attribute("k", "cond");
        J.attributeBegin("c_");
        stmt(CO->getCond());
        J.attributeEnd();
        J.attributeBegin("then");
        stmt(CO->getTrueExpr());
        J.attributeEnd();
        J.attributeBegin("else");
        stmt(CO->getFalseExpr());
        J.attributeEnd();
      }
      else if (const auto *IL = dyn_cast<IntegerLiteral>(E))
      {
        J.attribute("k", "lit");
        llvm::SmallString<32> S;
        IL->getValue().toString(S, 10, E->getType()->isSignedIntegerType());
        J.attribute("c", S.str());
      }
      else if (const auto *BL = dyn_cast<CXXBoolLiteralExpr>(E))
      {
        J.attribute("k", "lit");
        J.attribute("c", BL->getValue() ? "1" : "0");
        J.attribute("bool", true);
      }
      else if (const auto *CL = dyn_cast<CharacterLiteral>(E))
      {
        J.attribute("k", "lit");
        J.attribute("char", static_cast<int64_t>(CL->getValue()));
      }
      else if (const auto *SL = dyn_cast<clang::StringLiteral>(E))
      {
        J.attribute("k", "lit");
        if (SL->getCharByteWidth() == 1)
          J.attribute("str", SL->getString());
        else
          J.attribute("wstr", static_cast<int64_t>(SL->getLength()));
      }
      else if (isa<FloatingLiteral>(E))
      {
        J.attribute("k", "lit");
        J.attribute("float", true);
      }
      else if (isa<CXXNullPtrLiteralExpr>(E) || isa<GNUNullExpr>(E))
      {
        J.attribute("k", "lit");
        J.attribute("nullptr", true);
      }
      else if (const auto *L = dyn_cast<LambdaExpr>(E))
      {
        J.attribute("k", "lambda");
        J.attribute("class_id", id(L->getLambdaClass()->getCanonicalDecl()));
        J.attribute("generic", L->isGenericLambda());
        J.attributeArray("captures", [&] {
          auto InitIt = L->capture_init_begin();
          for (const LambdaCapture &C : L->captures())
          {
            J.object([&] {
              if (C.capturesThis())
                J.attribute("this", true);
              else if (C.capturesVariable())
              {
                J.attribute("id", id(C.getCapturedVar()->getCanonicalDecl()));
                J.attribute("name", C.getCapturedVar()->getNameAsString());
                if (C.getCapturedVar()->isInitCapture())
                  J.attribute("init_capture", true);
              }
              J.attribute("by", C.getCaptureKind() == LCK_ByRef ? "ref" : "copy");
              J.attribute("implicit", C.isImplicit());
              if (InitIt != L->capture_init_end() && *InitIt)
              {
                J.attributeBegin("init");
                stmt(*InitIt);
                J.attributeEnd();
              }
            });
            ++InitIt;
          }
        });
        lambdaOps(L);
      }
      else if (const auto *TE = dyn_cast<CXXThrowExpr>(E))
      {
        J.attribute("k", "throw");
        if (TE->getSubExpr())
        {
          J.attribute("thrown", typeIdx(TE->getSubExpr()->getType()));
          J.attributeBegin("e");
          stmt(TE->getSubExpr());
          J.attributeEnd();
        }
        else
          J.attribute("rethrow", true);
      }
      else if (const auto *ILE = dyn_cast<InitListExpr>(E))
      {
        J.attribute("k", "initlist");
        const InitListExpr *Sem = ILE->isSemanticForm() ? ILE : ILE->getSemanticForm();
        if (!Sem)
          Sem = ILE;
        J.attributeArray("ch", [&] {
          for (const Expr *I : Sem->inits())
            stmt(I);
        });
      }
      else if (const auto *NE = dyn_cast<CXXNewExpr>(E))
      {
        J.attribute("k", "new");
        J.attribute("array", NE->isArray());
        J.attributeArray("ch", [&] {
          if (NE->getInitializer())
            stmt(NE->getInitializer());
        });
      }
      else if (const auto *DE = dyn_cast<CXXDeleteExpr>(E))
      {
        J.attribute("k", "delete");
        J.attributeArray("ch", [&] { stmt(DE->getArgument()); });
      }
      else if (const auto *AS = dyn_cast<ArraySubscriptExpr>(E))
      {
        J.attribute("k", "subscript");
        J.attributeBegin("base");
        stmt(AS->getBase());
        J.attributeEnd();
        J.attributeBegin("idx");
        stmt(AS->getIdx());
        J.attributeEnd();
      }
      else if (const auto *UE = dyn_cast<UnaryExprOrTypeTraitExpr>(E))
      {
        J.attribute("k", "sizeof");
        J.attribute("trait", static_cast<int>(UE->getKind()));
        if (UE->isArgumentType())
          J.attribute("arg_t", typeIdx(UE->getArgumentType()));
        else
          J.attribute("arg_t", typeIdx(UE->getArgumentExpr()->getType()));
      }
      else if (isa<CXXScalarValueInitExpr>(E) || isa<ImplicitValueInitExpr>(E))
      {
        J.attribute("k", "valueinit");
      }
      else if (const auto *OV = dyn_cast<OpaqueValueExpr>(E))
      {
        J.attribute("k", "opaque");
        J.attributeArray("ch", [&] {
          if (OV->getSourceExpr())
            stmt(OV->getSourceExpr());
        });
      }
      else if (const auto *PD = dyn_cast<CXXPseudoDestructorExpr>(E))
      {
        J.attribute("k", "pseudo_dtor");
        J.attributeArray("ch", [&] { stmt(PD->getBase()); });
      }
      else
      {
        J.attribute("k", std::string("expr:") + E->getStmtClassName());
        children(E);
      }
    });
  }

  void record(const CXXRecordDecl *RD)
  {
    J.object([&] {
      J.attribute("id", id(RD->getCanonicalDecl()));
      J.attribute("qn", RD->getQualifiedNameAsString());
      J.attribute("t", typeIdx(Ctx.getRecordType(RD)));
      J.attribute("loc", locStr(RD->getLocation()));
      if (const auto *CTS = dyn_cast<ClassTemplateSpecializationDecl>(RD))
      {
        J.attributeArray("targs", [&] {
          for (const TemplateArgument &A : CTS->getTemplateArgs().asArray())
            emitTArg(A);
        });
      }
      J.attributeArray("bases", [&] {
        for (const CXXBaseSpecifier &B : RD->bases())
          J.value(B.getType().getCanonicalType().getAsString(PP));
      });
      J.attributeArray("fields", [&] {
        for (const FieldDecl *F : RD->fields())
          J.object([&] {
            J.attribute("id", id(F->getCanonicalDecl()));
            J.attribute("name", F->getNameAsString());
            J.attribute("t", typeIdx(F->getType()));
            J.attribute("mutable", F->isMutable());
            J.attribute("access", static_cast<int>(F->getAccess()));
          });
      });
      J.attributeArray("methods", [&] {
        for (const CXXMethodDecl *M : RD->methods())
        {
          if (M->isImplicit())
            continue;
          J.object([&] {
            J.attribute("id", id(M->getCanonicalDecl()));
            J.attribute("name", M->getNameAsString());
            J.attribute("access", static_cast<int>(M->getAccess()));
            J.attribute("const", M->isConst());
            J.attribute("deleted", M->isDeleted());
            J.attribute("defaulted", M->isDefaulted());
          });
        }
      });
    });
    ++NRecords;
  }
};

class Visitor : public RecursiveASTVisitor<Visitor>
{
public:
  explicit Visitor(Dumper &D) : D(D) {}
  bool shouldVisitTemplateInstantiations() const { return true; }
  bool shouldVisitImplicitCode() const { return false; }

  bool VisitFunctionDecl(FunctionDecl *FD)
  {
    if (!FD->doesThisDeclarationHaveABody())
      return true;
    if (FD->isDependentContext())
    {
      if (D.underRoots(FD->getLocation()))
        Patterns.push_back(FD);
      return true;
    }
    if (const auto *MD = dyn_cast<CXXMethodDecl>(FD))
      if (MD->getParent()->isLambda())
        return true; // emitted inline
    if (!D.underRoots(FD->getLocation()))
      return true;
    if (!Seen.insert(FD->getCanonicalDecl()).second)
      return true;
    Fns.push_back(FD);
    return true;
  }

  bool VisitEnumDecl(EnumDecl *ED)
  {
    if (!ED->isCompleteDefinition() || !D.underRoots(ED->getLocation()))
      return true;
    if (SeenRec.insert(ED->getCanonicalDecl()).second)
      Enums.push_back(ED);
    return true;
  }

  bool VisitCXXRecordDecl(CXXRecordDecl *RD)
  {
    if (!RD->isCompleteDefinition() || RD->isDependentContext() || RD->isLambda())
      return true;
    if (!D.underRoots(RD->getLocation()))
      return true;
    if (!SeenRec.insert(RD->getCanonicalDecl()).second)
      return true;
    Recs.push_back(RD);
    return true;
  }

  Dumper &D;
  std::vector<const FunctionDecl *> Fns;
  std::vector<const FunctionDecl *> Patterns;
  std::vector<const CXXRecordDecl *> Recs;
  std::vector<const EnumDecl *> Enums;
  std::set<const Decl *> Seen;
  std::set<const Decl *> SeenRec;
};

class Consumer : public ASTConsumer
{
public:
  explicit Consumer(std::string In) : InFile(std::move(In)) {}
  void HandleTranslationUnit(ASTContext &Ctx) override
  {
    if (Ctx.getDiagnostics().hasErrorOccurred())
    {
      llvm::errs() << "fcppt-facts: errors in " << InFile << "\n";
      // still write what we have? No: an unparsable unit is analysis-broken.
      return;
    }
    std::error_code EC;
    llvm::raw_fd_ostream OS(OutFile, EC);
    if (EC)
    {
      llvm::errs() << "cannot open " << OutFile << "\n";
      return;
    }
    llvm::json::OStream J(OS);
    Dumper D(Ctx, J);
    Visitor V(D);
    V.TraverseDecl(Ctx.getTranslationUnitDecl());
    // implicit instantiations of function templates are only reachable via the template's
    // specialisation list; RAV visits them when shouldVisitTemplateInstantiations() is true.
    J.object([&] {
      J.attribute("unit", InFile);
      J.attributeArray("functions", [&] {
        for (const FunctionDecl *FD : V.Fns)
          D.functionRecord(FD, false);
      });
      J.attributeArray("records", [&] {
        for (const CXXRecordDecl *RD : V.Recs)
          D.record(RD);
      });
      J.attributeArray("enums", [&] {
        for (const EnumDecl *ED : V.Enums)
        {
          J.object([&] {
            J.attribute("qn", ED->getQualifiedNameAsString());
            J.attribute("underlying", D.typeIdx(ED->getIntegerType()));
            J.attributeArray("enumerators", [&] {
              for (const EnumConstantDecl *EC : ED->enumerators())
                J.object([&] {
                  J.attribute("name", EC->getNameAsString());
                  llvm::SmallString<32> S;
                  EC->getInitVal().toString(S, 10);
                  J.attribute("value", S.str());
                });
            });
          });
        }
      });
      J.attributeArray("patterns", [&] {
        std::set<std::string> Done;
        for (const FunctionDecl *FD : V.Patterns)
        {
          std::string L = D.locStr(FD->getLocation());
          if (!Done.insert(L).second)
            continue;
          J.object([&] {
            J.attribute("qn", FD->getQualifiedNameAsString());
            J.attribute("loc", L);
          });
        }
      });
      J.attributeArray("decls", [&] {
        for (size_t I = 0; I < D.CalleeDecls.size(); ++I)
          D.calleeDecl(D.CalleeDecls[I]);
      });
      J.attributeArray("files", [&] {
        for (auto const &F : D.FileList)
          J.value(F);
      });
      J.attributeArray("types", [&] {
        for (auto const &T : D.TypeList)
          J.value(T);
      });
      J.attributeObject("stats", [&] {
        J.attribute("functions", D.NFunctions);
        J.attribute("lambdas", D.NLambdas);
        J.attribute("records", D.NRecords);
      });
    });
    OS << "\n";
    Written = true;
  }
  std::string InFile;
  static bool Written;
};
bool Consumer::Written = false;

class Action : public ASTFrontendAction
{
public:
  std::unique_ptr<ASTConsumer> CreateASTConsumer(CompilerInstance &, llvm::StringRef In) override
  {
    return std::make_unique<Consumer>(In.str());
  }
};
}

int main(int argc, const char **argv)
{
  auto Opts = tooling::CommonOptionsParser::create(argc, argv, Cat);
  if (!Opts)
  {
    llvm::errs() << llvm::toString(Opts.takeError()) << "\n";
    return 2;
  }
  tooling::ClangTool Tool(Opts->getCompilations(), Opts->getSourcePathList());
  int R = Tool.run(tooling::newFrontendActionFactory<Action>().get());
  if (R != 0 || !Consumer::Written)
    return 2;
  return 0;
}
