#include <fcppt/enum/from_int.hpp>
#include <fcppt/optional/object.hpp>
#include <cstdint>
#include <iostream>
enum class small : std::uint8_t { a, b, c, fcppt_maximum = c };
enum class plain { a, b, c, fcppt_maximum = c };
int main()
{
  auto const r1{fcppt::enum_::from_int<small>(std::uint32_t{257})};      // 257 is not below 3
  auto const r2{fcppt::enum_::from_int<plain>(std::uint64_t{4294967297ULL})}; // 2^32+1 is not below 3
  std::cout << "from_int<small: uint8_t>(257u): " << (r1.has_value() ? "enumerator " + std::to_string(static_cast<int>(r1.get_unsafe())) : std::string("nothing"))
            << "   from_int<plain>(2^32+1): " << (r2.has_value() ? "enumerator " + std::to_string(static_cast<int>(r2.get_unsafe())) : std::string("nothing")) << " (expected nothing, nothing)\n";
  return (r1.has_value() || r2.has_value()) ? 1 : 0;
}
