"""C05 Generic operations conserve values (DESIGN.md §6 C05).

 W   (a) no copy of an element of an rvalue argument: must-compile witnesses with move-only
         probe element types (witness/c05_moveonly.cpp), and (c) type equalities of the
         value-category dispatch helpers (witness/c05_dispatch.cpp)
 M1  (b) no read of / second move from a local or parameter after it was moved
 M2  (c) no raw std::move applied to storage reached through a forwarding reference
 M4  (d) no const_cast and no write to a mutable member in the files of the property
"""
import os

from engine import facts as F
from engine import load
from engine import moves as M
from engine import plumbing as P
from engine import terms as T
from engine import witness as W

LEVEL = "other"

FILES = """libs/core/include/fcppt/move_if_rvalue.hpp libs/core/include/fcppt/move_if.hpp
libs/core/include/fcppt/move_iterator_if_rvalue.hpp libs/core/include/fcppt/move_clear.hpp
libs/core/include/fcppt/algorithm/map_impl.hpp libs/core/include/fcppt/algorithm/fold.hpp
libs/core/include/fcppt/algorithm/fold_break.hpp libs/core/include/fcppt/algorithm/map_concat.hpp
libs/core/include/fcppt/algorithm/map_optional.hpp libs/core/include/fcppt/algorithm/detail/reverse.hpp
libs/core/include/fcppt/container/join.hpp libs/core/include/fcppt/container/detail/join_impl.hpp
libs/core/include/fcppt/container/pop_back.hpp libs/core/include/fcppt/container/pop_front.hpp
libs/core/include/fcppt/container/make_move_range.hpp libs/core/include/fcppt/container/grid/map.hpp
libs/core/include/fcppt/container/grid/apply.hpp libs/core/include/fcppt/container/grid/resize.hpp
libs/core/include/fcppt/container/tree/object_impl.hpp libs/core/include/fcppt/container/tree/map.hpp
libs/core/include/fcppt/optional/map.hpp libs/core/include/fcppt/optional/sequence.hpp
libs/core/include/fcppt/either/sequence.hpp libs/core/include/fcppt/variant/match.hpp
libs/core/include/fcppt/record/permute.hpp libs/core/include/fcppt/record/multiply_disjoint.hpp
libs/core/include/fcppt/record/map.hpp libs/core/include/fcppt/tuple/map.hpp
libs/core/include/fcppt/tuple/push_back.hpp libs/core/include/fcppt/array/map.hpp
libs/core/include/fcppt/array/join.hpp libs/core/include/fcppt/array/from_range.hpp
libs/options/include/fcppt/options/flag_impl.hpp libs/options/include/fcppt/options/option_impl.hpp
libs/options/include/fcppt/options/many_impl.hpp libs/parse/include/fcppt/parse/sequence_impl.hpp
libs/parse/include/fcppt/parse/repetition_impl.hpp""".split()

M2_JUSTIFIED = {
    "fcppt::record::detail::init_ctor": "only reachable from record::object's constructor, whose all_initializers "
                                        "constraint is ill-formed for lvalue-reference arguments: Args are never lvalue references",
}


def rule_W(rep, cd):
    rep.rule("W-moveonly", "each generic operation instantiates with an rvalue argument whose element / payload / "
                           "failure type is move-only (no copy constructor exists, so no path copies an element)", floor=200)
    rep.rule("W-dispatch", "value-category dispatch helpers select move exactly for rvalue arguments (type equalities)", floor=6)
    for rid, fname in (("W-moveonly", "c05_moveonly.cpp"), ("W-dispatch", "c05_dispatch.cpp")):
        path = os.path.join(P.VERIF, "witness", fname)
        wits, fails = W.run_witness_file(cd, path)
        if None in fails:
            rep.broken("witness TU %s has diagnostics that cannot be attributed to a witness: %s" % (fname, fails[None][0]["msg"]))
        for (wid, text, a, z) in wits:
            site = "verif:witness/%s:%d" % (fname, a)
            if wid in fails:
                f = fails[wid]
                lib = next((x["lib_site"] for x in f if x["lib_site"]), None)
                # prefer the first fcppt location that is not the generic variant/optional plumbing
                chain_lib = [c for x in f for c in x["chain"] if c.startswith("libs/")]
                rep.fail(rid, wid, lib or site, text,
                         why="does not compile: %s" % f[0]["msg"],
                         detail={"compiler_diagnostic": f[0]["msg"], "library_chain": chain_lib[:6], "witness": site})
            else:
                rep.ok(rid, wid, site, text, how="compiles")


def rule_M(rep, db):
    rep.rule("M1", "no local or parameter is read or moved again after being consumed by std::move / std::forward / "
                   "move_if_rvalue (flow-sensitive, constructor initialisers included)", floor=200)
    rep.rule("M5", "move_if_rvalue<X>(e) / std::forward<X>(e): X is the type of the forwarding parameter e is rooted in (an rvalue first "
                   "argument must not make a second, lvalue argument movable)", floor=100)
    rep.rule("M7", "an lvalue argument is never handed to a helper whose body moves from that (non-const lvalue reference) parameter "
                   "(one-level moves-from summaries of the callees)", floor=1)
    rep.rule("M6", "a forwarding parameter instantiated as a non-const lvalue reference is never modified (no mutating std algorithm over "
                   "its elements, no mutating member call)", floor=50)
    rep.rule("M2", "storage reached through a forwarding reference is only moved through std::forward / "
                   "move_if_rvalue / move_iterator_if_rvalue, never through a raw std::move", floor=100)
    seen = set()
    for fn in db.functions:
        u = fn["_unit"]
        subs = [f for f in u.all_functions if F.top_function(f) is fn]
        # M1: count consume events as instances
        nmoves = 0
        for n in F.walk([fn.get("body")] + [i.get("init") for i in fn.get("inits", [])]):
            if M.consume_target(u, n) is not None:
                nmoves += 1
        bad = []

        def rep1(name, msite, usite, how, what):
            bad.append((name, msite, usite, how, what))
        if nmoves:
            M.m1_function(u, fn, rep1)
            key = "%s|consume" % F.fn_name(fn)
            psite = F.primary_site(fn)
            if (key, psite) not in seen or bad:
                if not bad:
                    seen.add((key, psite))
                    rep.ok("M1", key, psite, F.describe(fn), how="no-use-after-consume", detail={"consume_events": nmoves})
                else:
                    for (name, msite, usite, how, what) in bad:
                        k2 = "%s|%s" % (F.fn_name(fn), name)
                        if (k2, usite) in seen:
                            continue
                        seen.add((k2, usite))
                        rep.fail("M1", k2, usite, F.describe(fn),
                                 why="`%s` is %s: consumed by %s at %s, used at %s" % (name, what, how, msite, usite))
        if u.file_of(fn["primary"]).startswith("libs/"):
            n5 = n6 = 0
            h5, h6 = [], []
            for sub in subs:
                n5 += M.m5_function(u, sub, lambda name, site, X, pt: h5.append((name, site, X, pt)))
                n6 += M.m6_function(u, sub, lambda name, site, what: h6.append((name, site, what)))
            n7 = n5b = 0
            h7, h5b = [], []
            for sub in subs:
                n7 += M.m7_function(db, u, sub, lambda name, site, callee, msite: h7.append((name, site, callee, msite)))
                n5b += M.m5b_function(u, sub, lambda site, X, through: h5b.append((site, X, through)))
            psite = F.primary_site(fn)
            for (name, site, callee, msite) in h7:
                k2 = "%s|%s->%s" % (F.fn_name(fn), name, callee.split("::")[-2] + "::" + callee.split("::")[-1])
                if ("M7", k2, site) not in seen:
                    seen.add(("M7", k2, site))
                    rep.fail("M7", k2, site, F.describe(fn), why="lvalue argument `%s` is handed to %s, which moves from that parameter (at %s): the caller's object is stolen from" % (name, callee, msite))
            if n7 and not h7 and ("M7", F.fn_name(fn), psite) not in seen:
                seen.add(("M7", F.fn_name(fn), psite))
                rep.ok("M7", "%s|M7" % F.fn_name(fn), psite, F.describe(fn), how="helpers that move get rvalue arguments only", detail={"sites": n7})
            for (site, X, through) in h5b:
                k2 = "%s|M5b" % F.fn_name(fn)
                if ("M5b", k2, site) not in seen:
                    seen.add(("M5b", k2, site))
                    rep.fail("M5", k2, site, F.describe(fn), why="every argument of this instantiation is an lvalue, yet storage reached through %s is moved (forwarded as %s)" % (through, X))
            if n5b and not h5b and ("M5b", F.fn_name(fn), psite) not in seen:
                seen.add(("M5b", F.fn_name(fn), psite))
                rep.ok("M5", "%s|M5b" % F.fn_name(fn), psite, F.describe(fn), how="all-lvalue instantiation moves nothing reached through wrappers / iterators", detail={"sites": n5b})
            for (rid, n_, hits_) in (("M5", n5, h5), ("M6", n6, h6)):
                if not n_ and not hits_:
                    continue
                key = "%s|%s" % (F.fn_name(fn), rid)
                if hits_:
                    for h in hits_:
                        k2 = "%s|%s" % (F.fn_name(fn), h[0])
                        if (rid, k2, h[1]) in seen:
                            continue
                        seen.add((rid, k2, h[1]))
                        if rid == "M5":
                            rep.fail("M5", k2, h[1], F.describe(fn),
                                     why="`%s` (declared %s) is forwarded as %s: with an rvalue in the other position an lvalue argument is moved from" % (h[0], h[3], h[2]))
                        else:
                            rep.fail("M6", k2, h[1], F.describe(fn), why="lvalue argument `%s` is modified: %s" % (h[0], h[2]))
                elif (rid, key, psite) not in seen:
                    seen.add((rid, key, psite))
                    rep.ok(rid, key, psite, F.describe(fn), how="own-parameter" if rid == "M5" else "unmodified", detail={"sites": n_})
        for sub in subs:
            hits = []

            def rep2(name, site):
                hits.append((name, site))
            n = M.m2_function(u, sub, rep2)
            if not n:
                continue
            key = "%s|forwarded" % F.fn_name(fn)
            for (name, site) in hits:
                k2 = "%s|std::move(%s)" % (F.fn_name(fn), name.split(" ")[0])
                if (k2, site) in seen:
                    continue
                seen.add((k2, site))
                j = M2_JUSTIFIED.get(F.fn_name(fn))
                if j:
                    rep.ok("M2", k2, site, F.describe(fn), how="justified")
                    rep.justify("M2", k2, j)
                else:
                    rep.fail("M2", k2, site, F.describe(fn),
                             why="std::move applied to `%s`, which is (reached through) a forwarding reference: "
                                 "an lvalue argument would be stolen from" % name)
            psite = F.site(sub)
            if (key, psite) not in seen and not hits:
                seen.add((key, psite))
                rep.ok("M2", key, psite, F.describe(sub), how="forward/move_if_rvalue-only", detail={"sites": n})


def rule_M4(rep, db):
    rep.rule("M4", "no const_cast / reinterpret_cast and no write through a mutable member in the files of the property", floor=30)
    per = {}
    for fn in db.functions:
        u = fn["_unit"]
        f = u.file_of(fn["primary"])
        if f not in FILES:
            continue
        st = per.setdefault(f, {"functions": 0, "bad": []})
        st["functions"] += 1
        for n in F.walk([fn.get("body")] + [i.get("init") for i in fn.get("inits", [])]):
            if n.get("k") == "cast" and n.get("style") in ("const", "reinterpret"):
                st["bad"].append((u.loc(n["loc"]), n["style"] + "_cast", F.describe(fn)))
            if n.get("k") in ("assign", "compound_assign"):
                l = T.unwrap(u, n.get("l"))
                if l is not None and l.get("k") == "member" and l.get("mutable"):
                    st["bad"].append((u.loc(n["loc"]), "write to mutable member " + l.get("name", ""), F.describe(fn)))
    for f in FILES:
        st = per.get(f)
        if st is None:
            rep.broken("C05 anchor file without analysed function: " + f)
            continue
        if st["bad"]:
            for (loc, what, fnn) in sorted(set(st["bad"])):
                rep.fail("M4", "%s|%s" % (f, what), loc, fnn, why=what + " in a file whose functions must leave const arguments untouched")
        else:
            rep.ok("M4", f, f, how="none-found", detail={"functions": st["functions"]})


def positive_control(rep):
    """zero-expected rules must still be able to match: a tiny TU with one const_cast, one
    use-after-move and one std::move of a forwarding reference is analysed on every run."""
    cd = P.cache_dir()
    b, _ = P.configure(cd)
    src = os.path.join(P.VERIF, "selftest", "positive", "moves_positive.cpp")
    res = P.extract_units(cd, [(src, P.driver_flags(b))], extra_roots=[os.path.join(P.VERIF, "selftest") + "/"])
    db = F.DB(res)
    got = {"m1": 0, "m2": 0, "cast": 0}
    for fn in db.functions:
        u = fn["_unit"]
        M.m1_function(u, fn, lambda *a: got.__setitem__("m1", got["m1"] + 1))
        got["m2"] += 0
        M.m2_function(u, fn, lambda *a: got.__setitem__("m2", got["m2"] + 1))
        for n in F.walk(fn.get("body")):
            if n.get("k") == "cast" and n.get("style") == "const":
                got["cast"] += 1
    rep.extra["positive_control"] = got
    if not (got["m1"] >= 1 and got["m2"] >= 1 and got["cast"] >= 1):
        rep.broken("positive control for M1/M2/M4 did not match: %s" % got)


def main(rep, tier, only):
    cd = P.cache_dir()
    if only in (None, "W", "W-moveonly", "W-dispatch"):
        rule_W(rep, cd)
    if only in (None, "M", "M1", "M2", "M4"):
        db = load.load(tier)
        rep.extra.update(db.stats())
        rule_M(rep, db)
        rule_M4(rep, db)
        positive_control(rep)
    rep.explanation = (
        "(a) is decided by the type checker: the operation instantiated with a move-only element type compiles "
        "iff no path of any involved function needs a copy constructor, for every input. (b)-(d) are flow/site rules "
        "over the type-resolved AST of all analysed instantiations. Not decided: that an element appears exactly "
        "once in a run-time result container.")
    rep.trusted = ["clang 14 front end (overload resolution, template instantiation)",
                   "witness TUs under /verif/witness (each obligation text is printed in the evidence)"]
    rep.assumptions = ["a copy of a copyable temporary that is later discarded is only visible where a move-only probe instantiates that path"]
