// Instantiation driver: integer helpers, casts, enums, string/stream conversion, binary io,
// endianness, one-dimensional math io, array::from_range.
//
// Notes
//  * fcppt/insert_to_string.hpp does not exist in this checkout; its successor
//    fcppt/output_to_string.hpp (+ output_to_std_string / output_to_std_wstring) is used instead.
//  * math::mod accepts only unsigned and floating point types (detail::mod is SFINAE'd).
//  * math::ceil_div / log2 / next_power_of_2 / is_power_of_2 / power_of_2(exponent) are unsigned only,
//    math::ceil_div_signed / cast::to_unsigned are signed only, cast::to_signed is unsigned only.
#include "drv.hpp"

#include <fcppt/extract_from_string.hpp>
#include <fcppt/extract_from_string_locale.hpp>
#include <fcppt/output_to_std_string.hpp>
#include <fcppt/output_to_std_string_locale.hpp>
#include <fcppt/output_to_std_wstring.hpp>
#include <fcppt/output_to_std_wstring_locale.hpp>
#include <fcppt/output_to_string.hpp>
#include <fcppt/output_to_string_locale.hpp>
#include <fcppt/runtime_index.hpp>
#include <fcppt/array/from_range.hpp>
#include <fcppt/array/object_impl.hpp>
#include <fcppt/assert/unreachable.hpp>
#include <fcppt/bit/mask.hpp>
#include <fcppt/bit/mask_c.hpp>
#include <fcppt/bit/shifted_mask.hpp>
#include <fcppt/bit/shifted_mask_c.hpp>
#include <fcppt/bit/test.hpp>
#include <fcppt/cast/dynamic.hpp>
#include <fcppt/cast/enum_to_int.hpp>
#include <fcppt/cast/int_to_enum.hpp>
#include <fcppt/cast/size.hpp>
#include <fcppt/cast/to_signed.hpp>
#include <fcppt/cast/to_unsigned.hpp>
#include <fcppt/cast/truncation_check.hpp>
#include <fcppt/endianness/convert.hpp>
#include <fcppt/endianness/swap.hpp>
#include <fcppt/enum/from_int.hpp>
#include <fcppt/enum/from_string.hpp>
#include <fcppt/enum/input.hpp>
#include <fcppt/enum/max_value.hpp>
#include <fcppt/enum/names.hpp>
#include <fcppt/enum/output.hpp>
#include <fcppt/enum/size.hpp>
#include <fcppt/enum/to_string.hpp>
#include <fcppt/enum/to_string_case.hpp>
#include <fcppt/enum/to_string_impl_fwd.hpp>
#include <fcppt/io/read.hpp>
#include <fcppt/io/stream_to_string.hpp>
#include <fcppt/io/write.hpp>
#include <fcppt/math/ceil_div.hpp>
#include <fcppt/math/ceil_div_signed.hpp>
#include <fcppt/math/clamp.hpp>
#include <fcppt/math/diff.hpp>
#include <fcppt/math/div.hpp>
#include <fcppt/math/interval_distance.hpp>
#include <fcppt/math/is_power_of_2.hpp>
#include <fcppt/math/is_zero.hpp>
#include <fcppt/math/log2.hpp>
#include <fcppt/math/mod.hpp>
#include <fcppt/math/next_power_of_2.hpp>
#include <fcppt/math/power_of_2.hpp>
#include <fcppt/math/dim/input.hpp>
#include <fcppt/math/dim/output.hpp>
#include <fcppt/math/dim/static.hpp>
#include <fcppt/math/vector/input.hpp>
#include <fcppt/math/vector/output.hpp>
#include <fcppt/math/vector/static.hpp>
#include <fcppt/optional/object_impl.hpp>
#include <fcppt/tuple/object_impl.hpp>

#include <bit>
#include <cstddef>
#include <deque>
#include <istream>
#include <locale>
#include <ostream>
#include <string>
#include <string_view>
#include <type_traits>
#include <vector>

// ---------------------------------------------------------------------------------------------
// enums
// ---------------------------------------------------------------------------------------------
namespace drv_int
{
enum class e1
{
  a,
  fcppt_maximum = a
};

enum class e3
{
  a,
  b,
  c,
  fcppt_maximum = c
};

#define DRV_E10(p) p##0, p##1, p##2, p##3, p##4, p##5, p##6, p##7, p##8, p##9,
#define DRV_E100(p) \
  DRV_E10(p##0) DRV_E10(p##1) DRV_E10(p##2) DRV_E10(p##3) DRV_E10(p##4) DRV_E10(p##5) DRV_E10(p##6) \
      DRV_E10(p##7) DRV_E10(p##8) DRV_E10(p##9)

enum class e200u8 : std::uint8_t
{
  DRV_E100(v0) DRV_E100(v1) fcppt_maximum = v199
};

#undef DRV_E100
#undef DRV_E10

static_assert(fcppt::enum_::size<e1>::value == 1U);
static_assert(fcppt::enum_::size<e3>::value == 3U);
static_assert(fcppt::enum_::size<e200u8>::value == 200U);

// polymorphic hierarchy for cast::dynamic
struct base
{
  virtual ~base();
};
struct derived1 : base
{
  ~derived1() override;
};
struct derived2 : base
{
  ~derived2() override;
};
struct derived11 : derived1
{
  ~derived11() override;
};

// generic declared-only functors for runtime_index
struct index_function
{
  template <typename Constant>
  int operator()(Constant) const;
};
}

namespace fcppt::enum_
{
template <>
struct to_string_impl<drv_int::e3>
{
  static std::string_view get(drv_int::e3 const _val)
  {
#define NAME_CASE(val) FCPPT_ENUM_TO_STRING_CASE(drv_int::e3, val)
    switch (_val)
    {
      NAME_CASE(a);
      NAME_CASE(b);
      NAME_CASE(c);
    }
    FCPPT_ASSERT_UNREACHABLE;
#undef NAME_CASE
  }
};

template <>
struct to_string_impl<drv_int::e1>
{
  static std::string_view get(drv_int::e1 const _val)
  {
    switch (_val)
    {
      FCPPT_ENUM_TO_STRING_CASE(drv_int::e1, a);
    }
    FCPPT_ASSERT_UNREACHABLE;
  }
};

// opaque: declared only
template <>
struct to_string_impl<drv_int::e200u8>
{
  static std::string_view get(drv_int::e200u8);
};
}

using drv_int::e1;
using drv_int::e200u8;
using drv_int::e3;

// ---------------------------------------------------------------------------------------------
// math
// ---------------------------------------------------------------------------------------------
#define M(T) (void)fcppt::math::log2(drv::make<T>());
DRV(drv_math_log2) { DRV_FOR_UNSIGNED(M) }
#undef M

#define M(T) (void)fcppt::math::next_power_of_2(drv::make<T>());
DRV(drv_math_next_power_of_2) { DRV_FOR_UNSIGNED(M) }
#undef M

// ceil_div<std::uint8_t> / <std::uint16_t> do not compile (ceil_div.hpp:38: the lambda returns the
// promoted type int, optional<int> does not convert to optional<T>); consequently
// ceil_div_signed<std::int8_t> / <std::int16_t> do not compile either (ceil_div_signed.hpp:45).
#define M(T) (void)fcppt::math::ceil_div(drv::clv<T>(), drv::clv<T>());
DRV(drv_math_ceil_div) { M(std::uint32_t) M(std::uint64_t) }
#undef M

#define M(T) (void)fcppt::math::ceil_div_signed(drv::clv<T>(), drv::clv<T>());
DRV(drv_math_ceil_div_signed) { M(std::int32_t) M(std::int64_t) }
#undef M

#define M(T) (void)fcppt::math::div(drv::clv<T>(), drv::clv<T>());
DRV(drv_math_div) { DRV_FOR_INTEGERS(M) }
#undef M

DRV(drv_math_div_mixed)
{
  (void)fcppt::math::div(drv::clv<std::int32_t>(), drv::clv<std::int64_t>());
  (void)fcppt::math::div(drv::clv<std::uint64_t>(), drv::clv<std::uint8_t>());
  (void)fcppt::math::div(drv::clv<std::int32_t>(), drv::clv<std::uint32_t>());
}

#define M(T) (void)fcppt::math::mod(drv::clv<T>(), drv::clv<T>());
DRV(drv_math_mod) { DRV_FOR_UNSIGNED(M) }
#undef M

#define M(T) (void)fcppt::math::clamp(drv::clv<T>(), drv::clv<T>(), drv::clv<T>());
DRV(drv_math_clamp) { DRV_FOR_INTEGERS(M) }
#undef M

#define M(T) (void)fcppt::math::diff(drv::clv<T>(), drv::clv<T>());
DRV(drv_math_diff) { DRV_FOR_INTEGERS(M) }
#undef M

#define M(T) (void)fcppt::math::is_power_of_2(drv::make<T>());
DRV(drv_math_is_power_of_2) { DRV_FOR_UNSIGNED(M) }
#undef M

// Result over all integer types, Exponent over all unsigned types
#define M2(R, E) (void)fcppt::math::power_of_2<R>(drv::make<E>());
#define M(R) \
  M2(R, std::uint8_t) M2(R, std::uint16_t) M2(R, std::uint32_t) M2(R, std::uint64_t)
DRV(drv_math_power_of_2) { DRV_FOR_INTEGERS(M) }
#undef M
#undef M2

#define M(T) \
  (void)fcppt::math::interval_distance( \
      drv::make<fcppt::tuple::object<T, T>>(), drv::make<fcppt::tuple::object<T, T>>());
DRV(drv_math_interval_distance) { DRV_FOR_INTEGERS(M) }
#undef M

#define M(T) (void)fcppt::math::is_zero(drv::clv<T>());
DRV(drv_math_is_zero) { DRV_FOR_INTEGERS(M) }
#undef M

// ---------------------------------------------------------------------------------------------
// bit
// ---------------------------------------------------------------------------------------------
#define M(T) \
  { \
    fcppt::bit::mask<T> const mask{drv::make<T>()}; \
    (void)mask.get(); \
  }
DRV(drv_bit_mask) { DRV_FOR_INTEGERS(M) }
#undef M

#define M(T) (void)fcppt::bit::mask_c<T, T{1}>();
DRV(drv_bit_mask_c) { DRV_FOR_INTEGERS(M) }
#undef M

#define M(T) (void)fcppt::bit::shifted_mask<T>(drv::make<fcppt::bit::shift_count>());
DRV(drv_bit_shifted_mask) { DRV_FOR_INTEGERS(M) }
#undef M

#define M(T) (void)fcppt::bit::shifted_mask_c<T, 3U>();
DRV(drv_bit_shifted_mask_c) { DRV_FOR_INTEGERS(M) }
#undef M

#define M(T) (void)fcppt::bit::test(drv::make<T>(), drv::make<fcppt::bit::mask<T>>());
DRV(drv_bit_test) { DRV_FOR_INTEGERS(M) }
#undef M

// ---------------------------------------------------------------------------------------------
// cast
// ---------------------------------------------------------------------------------------------
#define DRV_PAIRS_WITH_SOURCE(M2, D) \
  M2(D, std::uint8_t) M2(D, std::uint16_t) M2(D, std::uint32_t) M2(D, std::uint64_t) \
      M2(D, std::int8_t) M2(D, std::int16_t) M2(D, std::int32_t) M2(D, std::int64_t)

#define M2(D, S) (void)fcppt::cast::truncation_check<D>(drv::make<S>());
#define M(D) DRV_PAIRS_WITH_SOURCE(M2, D)
DRV(drv_cast_truncation_check_unsigned_dest) { DRV_FOR_UNSIGNED(M) }
DRV(drv_cast_truncation_check_signed_dest) { DRV_FOR_SIGNED(M) }
#undef M
#undef M2

// cast::size: same signedness, all 16 + 16 ordered pairs
#define M2(D, S) (void)fcppt::cast::size<D>(drv::make<S>());
#define M(D) M2(D, std::uint8_t) M2(D, std::uint16_t) M2(D, std::uint32_t) M2(D, std::uint64_t)
DRV(drv_cast_size_unsigned) { DRV_FOR_UNSIGNED(M) }
#undef M
#define M(D) M2(D, std::int8_t) M2(D, std::int16_t) M2(D, std::int32_t) M2(D, std::int64_t)
DRV(drv_cast_size_signed) { DRV_FOR_SIGNED(M) }
#undef M
#undef M2
DRV(drv_cast_size_float)
{
  (void)fcppt::cast::size<float>(drv::make<double>());
  (void)fcppt::cast::size<double>(drv::make<float>());
}

#define M(T) (void)fcppt::cast::to_signed(drv::make<T>());
DRV(drv_cast_to_signed) { DRV_FOR_UNSIGNED(M) }
#undef M

#define M(T) (void)fcppt::cast::to_unsigned(drv::make<T>());
DRV(drv_cast_to_unsigned) { DRV_FOR_SIGNED(M) }
#undef M

#define M(T) \
  (void)fcppt::cast::int_to_enum<e1>(drv::make<T>()); \
  (void)fcppt::cast::int_to_enum<e3>(drv::make<T>()); \
  (void)fcppt::cast::int_to_enum<e200u8>(drv::make<T>());
DRV(drv_cast_int_to_enum) { DRV_FOR_INTEGERS(M) }
#undef M

#define M(T) \
  (void)fcppt::cast::enum_to_int<T>(drv::make<e1>()); \
  (void)fcppt::cast::enum_to_int<T>(drv::make<e3>()); \
  (void)fcppt::cast::enum_to_int<T>(drv::make<e200u8>());
DRV(drv_cast_enum_to_int) { DRV_FOR_INTEGERS(M) }
#undef M

DRV(drv_cast_dynamic)
{
  (void)fcppt::cast::dynamic<drv_int::derived1>(drv::lv<drv_int::base>());
  (void)fcppt::cast::dynamic<drv_int::derived2>(drv::lv<drv_int::base>());
  (void)fcppt::cast::dynamic<drv_int::derived11>(drv::lv<drv_int::base>());
  (void)fcppt::cast::dynamic<drv_int::derived11>(drv::lv<drv_int::derived1>());
  (void)fcppt::cast::dynamic<drv_int::derived1 const>(drv::clv<drv_int::base>());
  (void)fcppt::cast::dynamic<drv_int::derived11 const>(drv::clv<drv_int::derived1>());
}

// ---------------------------------------------------------------------------------------------
// enum
// ---------------------------------------------------------------------------------------------
#define M(T) \
  (void)fcppt::enum_::from_int<e1>(drv::clv<T>()); \
  (void)fcppt::enum_::from_int<e3>(drv::clv<T>()); \
  (void)fcppt::enum_::from_int<e200u8>(drv::clv<T>());
DRV(drv_enum_from_int) { DRV_FOR_UNSIGNED(M) }
#undef M

DRV(drv_enum_size)
{
  (void)fcppt::enum_::size<e1>::value;
  (void)fcppt::enum_::size<e3>::value;
  (void)fcppt::enum_::size<e200u8>::value;
  (void)fcppt::enum_::max_value<e1>::value;
  (void)fcppt::enum_::max_value<e3>::value;
  (void)fcppt::enum_::max_value<e200u8>::value;
}

DRV(drv_enum_to_string)
{
  (void)fcppt::enum_::to_string(drv::make<e1>());
  (void)fcppt::enum_::to_string(drv::make<e3>());
  (void)fcppt::enum_::to_string(drv::make<e200u8>());
}

DRV(drv_enum_from_string)
{
  (void)fcppt::enum_::from_string<e1>(drv::clv<std::string_view>());
  (void)fcppt::enum_::from_string<e3>(drv::clv<std::string_view>());
  (void)fcppt::enum_::from_string<e200u8>(drv::clv<std::string_view>());
}

DRV(drv_enum_names)
{
  (void)fcppt::enum_::names<e1>();
  (void)fcppt::enum_::names<e3>();
  (void)fcppt::enum_::names<e200u8>();
}

DRV(drv_enum_input)
{
  (void)fcppt::enum_::input(drv::lv<std::istream>(), drv::lv<e1>());
  (void)fcppt::enum_::input(drv::lv<std::istream>(), drv::lv<e3>());
  (void)fcppt::enum_::input(drv::lv<std::wistream>(), drv::lv<e3>());
}

DRV(drv_enum_output)
{
  (void)fcppt::enum_::output(drv::lv<std::ostream>(), drv::make<e1>());
  (void)fcppt::enum_::output(drv::lv<std::ostream>(), drv::make<e3>());
  (void)fcppt::enum_::output(drv::lv<std::wostream>(), drv::make<e3>());
  (void)fcppt::enum_::output(drv::lv<std::ostream>(), drv::make<e200u8>());
}

// ---------------------------------------------------------------------------------------------
// runtime_index
// ---------------------------------------------------------------------------------------------
#define M(T) \
  (void)fcppt::runtime_index<std::integral_constant<T, 0>>( \
      drv::make<T>(), drv::clv<drv_int::index_function>(), drv::clv<drv::fn<int()>>()); \
  (void)fcppt::runtime_index<std::integral_constant<T, 1>>( \
      drv::make<T>(), drv::clv<drv_int::index_function>(), drv::clv<drv::fn<int()>>()); \
  (void)fcppt::runtime_index<std::integral_constant<T, 5>>( \
      drv::make<T>(), drv::clv<drv_int::index_function>(), drv::clv<drv::fn<int()>>());
DRV(drv_runtime_index) { DRV_FOR_UNSIGNED(M) }
#undef M

// ---------------------------------------------------------------------------------------------
// strings
// ---------------------------------------------------------------------------------------------
#define DRV_FOR_STRING_TARGETS(M, S) M(int, S) M(unsigned, S) M(long, S)

#define M(D, S) \
  (void)fcppt::extract_from_string_locale<D>(drv::clv<S>(), drv::clv<std::locale>()); \
  (void)fcppt::extract_from_string<D>(drv::clv<S>());
DRV(drv_extract_from_string)
{
  DRV_FOR_STRING_TARGETS(M, std::string)
  DRV_FOR_STRING_TARGETS(M, std::wstring)
  M(std::string, std::string)
  M(std::wstring, std::wstring)
}
#undef M

// Dest = string type, Source = value
#define M(V, S) \
  (void)fcppt::output_to_string_locale<S>(drv::clv<V>(), drv::clv<std::locale>()); \
  (void)fcppt::output_to_string<S>(drv::clv<V>());
DRV(drv_output_to_string)
{
  DRV_FOR_STRING_TARGETS(M, std::string)
  DRV_FOR_STRING_TARGETS(M, std::wstring)
  M(std::string, std::string)
  M(std::wstring, std::wstring)
}
#undef M

#define M(V) \
  (void)fcppt::output_to_std_string(drv::clv<V>()); \
  (void)fcppt::output_to_std_string_locale(drv::clv<V>(), drv::clv<std::locale>()); \
  (void)fcppt::output_to_std_wstring(drv::clv<V>()); \
  (void)fcppt::output_to_std_wstring_locale(drv::clv<V>(), drv::clv<std::locale>());
DRV(drv_output_to_std_string) { M(int) M(unsigned) M(long) }
#undef M

#undef DRV_FOR_STRING_TARGETS

// ---------------------------------------------------------------------------------------------
// io, endianness
// ---------------------------------------------------------------------------------------------
DRV(drv_io_stream_to_string)
{
  (void)fcppt::io::stream_to_string(drv::lv<std::istream>());
  (void)fcppt::io::stream_to_string(drv::lv<std::wistream>());
}

#define DRV_FOR_ARITHMETIC(M) DRV_FOR_INTEGERS(M) M(float) M(double)

#define M(T) (void)fcppt::io::read<T>(drv::lv<std::istream>(), drv::make<std::endian>());
DRV(drv_io_read) { DRV_FOR_ARITHMETIC(M) }
#undef M

#define M(T) fcppt::io::write(drv::lv<std::ostream>(), drv::clv<T>(), drv::make<std::endian>());
DRV(drv_io_write) { DRV_FOR_ARITHMETIC(M) }
#undef M

#define M(T) (void)fcppt::endianness::convert(drv::clv<T>(), drv::make<std::endian>());
DRV(drv_endianness_convert) { DRV_FOR_ARITHMETIC(M) }
#undef M

#define M(T) (void)fcppt::endianness::swap(drv::make<T>());
DRV(drv_endianness_swap) { DRV_FOR_ARITHMETIC(M) }
#undef M

#undef DRV_FOR_ARITHMETIC

// ---------------------------------------------------------------------------------------------
// math one dimensional io
// ---------------------------------------------------------------------------------------------
namespace drv_int
{
using vector_i3 = fcppt::math::vector::static_<int, 3>;
using dim_u2 = fcppt::math::dim::static_<unsigned, 2>;
}

DRV(drv_math_vector_output)
{
  (void)(drv::lv<std::ostream>() << drv::clv<drv_int::vector_i3>());
  (void)(drv::lv<std::wostream>() << drv::clv<drv_int::vector_i3>());
}

DRV(drv_math_vector_input)
{
  (void)(drv::lv<std::istream>() >> drv::lv<drv_int::vector_i3>());
  (void)(drv::lv<std::wistream>() >> drv::lv<drv_int::vector_i3>());
}

DRV(drv_math_dim_output)
{
  (void)(drv::lv<std::ostream>() << drv::clv<drv_int::dim_u2>());
  (void)(drv::lv<std::wostream>() << drv::clv<drv_int::dim_u2>());
}

DRV(drv_math_dim_input)
{
  (void)(drv::lv<std::istream>() >> drv::lv<drv_int::dim_u2>());
  (void)(drv::lv<std::wistream>() >> drv::lv<drv_int::dim_u2>());
}

// ---------------------------------------------------------------------------------------------
// array::from_range
// ---------------------------------------------------------------------------------------------
DRV(drv_array_from_range)
{
  (void)fcppt::array::from_range<0>(drv::lv<std::vector<int>>());
  (void)fcppt::array::from_range<1>(drv::clv<std::vector<int>>());
  (void)fcppt::array::from_range<2>(drv::make<std::vector<int>>());
  (void)fcppt::array::from_range<3>(drv::lv<std::vector<std::string>>());
  (void)fcppt::array::from_range<3>(drv::make<std::vector<std::string>>());
  (void)fcppt::array::from_range<4>(drv::clv<std::deque<int>>());
  (void)fcppt::array::from_range<2>(drv::clv<std::string>());
}
