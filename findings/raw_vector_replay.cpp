#include <fcppt/container/raw_vector/object.hpp>
#include <iostream>
#include <vector>
int main()
{
  int bad = 0;
  { // erase(range) must return the position following the removed range (== first)
    fcppt::container::raw_vector::object<int> w{0, 1, 2, 3, 4};
    std::vector<int> v{0, 1, 2, 3, 4};
    auto const rw = w.erase(w.begin() + 1, w.begin() + 3);
    auto const rv = v.erase(v.begin() + 1, v.begin() + 3);
    std::cout << "erase(range): returned offset " << (rw - w.begin()) << ", std::vector " << (rv - v.begin()) << "\n";
    bad += (rw - w.begin()) != (rv - v.begin());
  }
  { // insert of a value that aliases an element, without reallocation
    fcppt::container::raw_vector::object<int> w{1, 2, 3};
    std::vector<int> v{1, 2, 3};
    w.reserve(16); v.reserve(16);
    w.insert(w.begin(), w[1]);
    v.insert(v.begin(), v[1]);
    std::cout << "insert(begin, self[1]): first element " << w[0] << ", std::vector " << v[0] << "\n";
    bad += w[0] != v[0];
  }
  { // insert of n copies of an aliasing value, without reallocation
    fcppt::container::raw_vector::object<int> w{1, 2, 3};
    std::vector<int> v{1, 2, 3};
    w.reserve(16); v.reserve(16);
    w.insert(w.begin(), 2U, w[2]);
    v.insert(v.begin(), 2U, v[2]);
    std::cout << "insert(begin, 2, self[2]): first element " << w[0] << ", std::vector " << v[0] << "\n";
    bad += w[0] != v[0];
  }
  return bad;
}
