"""C20 Random wrappers are transparent and stay within the requested bounds (DESIGN.md §6 C20).

 W     every member of distribution::basic, variate, generator::basic_pseudo, wrapper::uniform_container and the
       factories instantiates for int/long/short/unsigned/enum/strong-typedef results and both provided engines
       (a member that is ill-formed can never be called), with the documented return types (400 witnesses)
 DEL   same-name delegation: every member invokes the wrapped object's corresponding member exactly once with the
       caller's generator / parameters and returns its result only re-wrapped through decorated_value
 PARAM parameter translation agreement: (min, max) -> wrapped_param_type(base(min), base(max)) and back
       (a(), b()) -> (min, max) in the same positions; likewise uniform_real (a,b) and normal (mean, stddev)
 FACT  make_uniform_indices_advanced: nothing for an empty container, [0, size-1] otherwise;
       make_uniform_enum_advanced = [enumerator 0, max_value]; make_uniform_container_advanced maps over the
       indices optional; uniform_container::operator() indexes the container with one draw of its distribution
Bounds and "same sequence" then follow from the wrapped std distribution for every seed (trusted).
"""
import os
import re

from engine import facts as F
from engine import load
from engine import lrules as L
from engine import plumbing as P
from engine import sx
from engine import terms as T
from engine import witness as W

LEVEL = "other"
R = "fcppt::random::"


def ret_term(u, fn):
    rets = [r for r in F.walk(fn.get("body"), into_lambdas=False) if r.get("k") == "return"]
    if len(rets) == 1 and rets[0].get("e") is not None:
        return re.sub(r"this\.", "", T.show(T.snorm(u, fn, rets[0]["e"])))
    stm = [x for x in (fn.get("body") or {}).get("ch", []) if x.get("k") not in ("decl", "null")]
    if len(stm) == 1 and stm[0].get("k") != "return":
        return re.sub(r"this\.", "", T.show(T.snorm(u, fn, stm[0])))
    return None


VCFG = None


def sx_single(db, fn):
    """(value, events) of a branch-free member / function with helper lambdas applied and copies transparent: the same value
    whether or not sub-expressions were given names or wrapped in small lambdas"""
    global VCFG
    if VCFG is None:
        # base_value / decorated_value are one-line forwarders to type_iso::undecorate / decorate: followed, so that a call of the
        # forwarder and a direct call of type_iso denote the same value
        VCFG = sx.Config(inline_prefixes=("fcppt::optional::", "fcppt::cond", "fcppt::random::distribution::base_value", "fcppt::random::distribution::decorated_value"),
                         pure_prefixes=("fcppt::type_iso::undecorate", "fcppt::type_iso::decorate", "fcppt::cast::",
                                        "fcppt::random::distribution::parameters::make_uniform_indices_advanced"))
    ps = sx.Interp(db, VCFG).paths(fn, this=("sym", "this"), limit=8)
    return ps


def dedupe(fns):
    out = {}
    for fn in fns:
        out.setdefault((F.primary_site(fn)), fn)
    return list(out.values())


def main(rep, tier, only):
    rep.rule("W", "every member of the wrappers and factories instantiates, with the documented result types", floor=350)
    rep.rule("DEL", "same-name delegation to the wrapped object, exactly once, result re-wrapped by decorated_value only", floor=10)
    rep.rule("PARAM", "parameter translation to and from the wrapped distribution keeps positions", floor=6)
    rep.rule("FACT", "factories: empty container => nothing, else [0,size-1]; enum => [0, max_value]; container draw uses the distribution's index", floor=4)
    if only in (None, "W"):
        cd = P.cache_dir()
        path = os.path.join(P.VERIF, "witness", "c20_random.cpp")
        wits, fails = W.run_witness_file(cd, path)
        if None in fails:
            rep.broken("witness TU c20_random.cpp has unattributed diagnostics: " + fails[None][0]["msg"])
        for (wid, text, a, z) in wits:
            site = "verif:witness/c20_random.cpp:%d" % a
            if wid in fails:
                f = fails[wid]
                lib = next((x["lib_site"] for x in f if x["lib_site"]), None)
                rep.fail("W", wid, lib or site, text, why="does not compile: " + f[0]["msg"], detail={"chain": f[0]["chain"][:5]})
            else:
                rep.ok("W", wid, site, text, how="compiles")
    try:
        db = load.load(tier, lib=False, drivers=["drv_random"], tests=False)
    except P.AnalysisBroken as e:
        if rep.viol:
            # the instantiation driver does not parse because wrapper members are ill-formed: that is exactly what
            # the failing witnesses above report; the structural rules cannot run on this tree
            rep.note("structural rules skipped: %s" % e)
            for r in ("DEL", "PARAM", "FACT"):
                rep.rules[r]["floor"] = 0
            return
        raise
    rep.extra.update(db.stats())
    # ---- DEL: distribution::basic
    B = R + "distribution::basic"
    want = {
        "reset": r"^distribution_\.reset\(\)$",
        "min": r"^decorated_value\(distribution_\.min\(\)\)$",
        "max": r"^decorated_value\(distribution_\.max\(\)\)$",
        "distribution": r"^distribution_$",
        "make_result": r"^decorated_value\(r_a0\)$",
    }
    seen = set()
    for fn in L.method_fns(db, B):
        u = fn["_unit"]
        short = F.fn_name(fn).split("::")[-1]
        np_ = len(fn.get("params", []))
        t = ret_term(u, fn)
        key = "basic::%s/%d" % (short, np_)
        if key in seen or fn.get("kind") == "ctor":
            continue
        pat = None
        if short in want:
            pat = want[short]
        elif short == "operator()" and np_ == 1:
            pat = r"^decorated_value\(distribution_\.operator\(\)\(r_a0\)\)$"
        elif short == "operator()" and np_ == 2:
            pat = r"^decorated_value\(distribution_\.operator\(\)\(r_a0, r_a1\.convert_from\(\)\)\)$"
        elif short == "param" and np_ == 0:
            pat = r"^convert_to\(distribution_\)$"
        elif short == "param" and np_ == 1:
            pat = r"^distribution_\.param\(r_a0\.convert_from\(\)\)$"
        if pat is None:
            continue
        seen.add(key)
        if t is not None and short != "make_result":
            # the private forwarder make_result(x) is decorated_value<result_type>(x) (its own obligation `basic::make_result/1`
            # decides that): both spellings are one term
            t = re.sub(r"\bmake_result\(", "decorated_value(", t)
        ok = t is not None and re.match(pat, t)
        (rep.ok if ok else rep.fail)("DEL", key, F.primary_site(fn), F.describe(fn)[:160],
                                     **({"how": t} if ok else {"why": "body is `%s`, expected the wrapped distribution's same-named member once, re-wrapped: /%s/" % (t, pat)}))
    for fn in dedupe(db.fns(R + "variate::operator()")):
        u = fn["_unit"]
        t = ret_term(u, fn)
        ok = t == "distribution_.operator()(generator_)" or t == "distribution_.operator()(generator_.get())"
        (rep.ok if ok else rep.fail)("DEL", "variate::operator()", F.primary_site(fn), F.describe(fn)[:160], **({"how": t} if ok else {"why": "body is `%s`, expected distribution_(generator_.get())" % t}))
    # constructors of variate store the caller's generator and distribution (state included) / build the distribution from the parameters
    seenc = set()
    for fn in L.method_fns(db, R + "variate"):
        if fn.get("kind") != "ctor" or len(fn.get("params", [])) != 2 or fn.get("ctor_kind") in ("copy", "move"):
            continue
        u = fn["_unit"]
        p1 = (u.ty(fn["params"][1]["t"]) or "")
        kind = "param_type" if "param" in p1.lower() or "parameters::" in p1 else "distribution"
        key = "variate::variate(generator, %s)" % kind
        if key in seenc:
            continue
        seenc.add(key)
        inits = {i["field"]: T.show(T.norm(u, i["init"])) for i in fn.get("inits", []) if i.get("field")}
        g, d = fn["params"][0]["name"], fn["params"][1]["name"]
        ok = g in inits.get("generator_", "") and d in inits.get("distribution_", "") and "param()" not in inits.get("distribution_", "")
        (rep.ok if ok else rep.fail)("DEL", key, F.primary_site(fn), F.describe(fn)[:160],
                                     **({"how": "generator_(generator), distribution_(%s)" % kind} if ok else
                                        {"why": "the constructor initialises %s; expected generator_ from the generator and distribution_ from the given %s itself (a distribution passed in keeps its state)" % (inits or "by delegation", kind)}))
    for nm, pat in (("operator()", r"^wrapped_\.operator\(\)\(\)$"), ("min", r"^min\(\)$"), ("max", r"^max\(\)$")):
        for fn in dedupe(db.fns(R + "generator::basic_pseudo::" + nm)):
            u = fn["_unit"]
            t = ret_term(u, fn)
            ok = t is not None and re.match(pat, t)
            why = "body is `%s`" % t
            if ok and nm in ("min", "max"):
                # the static member must be the WRAPPED ENGINE's (the class template argument), not e.g. numeric_limits'
                gen = F.strip_targs((fn.get("rec_targs") or ["?"])[0])
                recs = [F.strip_targs(d.get("record") or "") for (_, d, q) in L.calls_in(u, fn.get("body")) if d is not None and q.endswith("::" + nm)]
                ok = bool(recs) and all(r == gen for r in recs)
                if not ok:
                    why = "%s() is taken from %s, not from the wrapped engine %s: the distributions scale the engine's output with a wrong range" % (nm, recs, gen)
            (rep.ok if ok else rep.fail)("DEL", "basic_pseudo::" + nm + "<" + (fn.get("rec_targs") or ["?"])[0].split("<")[0] + ">", F.primary_site(fn), F.describe(fn)[:160], **({"how": t} if ok else {"why": why}))
    # constructors of basic_pseudo hand the caller's seed / seed sequence to the wrapped engine unchanged (the sequence produced
    # must be the wrapped engine's for the same seed, for EVERY seed)
    seenp = set()
    for fn in L.method_fns(db, R + "generator::basic_pseudo"):
        if fn.get("kind") != "ctor" or len(fn.get("params", [])) != 1 or fn.get("ctor_kind") in ("copy", "move"):
            continue
        u = fn["_unit"]
        pty = u.ty(fn["params"][0]["t"]) or ""
        kind = "seed" if "seed" in pty.lower() and "seq" not in pty.lower() else "seed_seq"
        key = "basic_pseudo::basic_pseudo(%s)<%s>" % (kind, (fn.get("rec_targs") or ["?"])[0].split("<")[0])
        if key in seenp:
            continue
        seenp.add(key)
        inits = {i["field"]: T.show(T.norm(u, i["init"])) for i in fn.get("inits", []) if i.get("field")}
        wi = re.sub(r"\s", "", inits.get("wrapped_", ""))
        p0 = fn["params"][0]["name"]
        ok = bool(re.match(r"^[\w:<>, ]*[({]%s(\.get\(\))?[)}]$" % re.escape(p0), wi)) or wi in (p0, p0 + ".get()")
        (rep.ok if ok else rep.fail)("DEL", key, F.primary_site(fn), F.describe(fn)[:160],
                                     **({"how": "wrapped_(%s)" % kind} if ok else
                                        {"why": "the wrapped engine is initialised with `%s`; expected the caller's %s itself, unchanged: every seed must give the wrapped engine's sequence for that seed" % (inits.get("wrapped_", "?"), kind)}))
    # ---- PARAM
    specs = {
        "uniform_int": (("min_", "max_"), ("a", "b")),
        "uniform_real": (("min_", "sup_"), ("a", "b")),
        "normal": (("mean_", "stddev_"), ("mean", "stddev")),
    }
    for cls, (fields, getters) in specs.items():
        C = R + "distribution::parameters::" + cls
        for fn in dedupe(db.fns(C + "::convert_from")):
            u = fn["_unit"]
            t = ""
            ok = False
            try:
                ps = sx_single(db, fn)
                if len(ps) == 1 and ps[0].outcome[0] == "return":
                    v = ps[0].outcome[1]
                    t = sx.show(v)
                    args = list(v[3]) if isinstance(v, tuple) and v and v[0] == "new" else []

                    def src(a):
                        """the member behind base_value(x): this.<field> directly or through .get()"""
                        if not (isinstance(a, tuple) and a and a[0] == "app" and a[1].split("<")[0].endswith("type_iso::undecorate") and len(a[2]) == 1):
                            return None
                        x = a[2][0]
                        if isinstance(x, tuple) and x and x[0] == "ev":
                            e = ps[0].events[x[1] - 1]
                            x = e[1][0] if e[0].split("<")[0].endswith("::get") and len(e[1]) == 1 else None
                        return sx.show(x).replace("this.", "") if x is not None else None
                    ok = [src(a) for a in args] == list(fields)
            except sx.Unsupported as e:
                rep.broken("C20 PARAM %s::convert_from: %s" % (cls, e))
                continue
            (rep.ok if ok else rep.fail)("PARAM", cls + "::convert_from", F.primary_site(fn), F.describe(fn)[:160],
                                         **({"how": t[-90:]} if ok else {"why": "convert_from is `%s`, expected wrapped_param_type(base_value(%s), base_value(%s))" % (t, fields[0], fields[1])}))
        for fn in dedupe(db.fns(C + "::convert_to")):
            u = fn["_unit"]
            t = ""
            ok = False
            try:
                ps = sx_single(db, fn)
                if len(ps) == 1 and ps[0].outcome[0] == "return":
                    v = ps[0].outcome[1]
                    t = sx.show(v)
                    args = list(v[3]) if isinstance(v, tuple) and v and v[0] == "new" else []

                    def getter(a):
                        while isinstance(a, tuple) and a and a[0] == "new" and len(a[3]) == 1:
                            a = a[3][0]
                        if not (isinstance(a, tuple) and a and a[0] == "app" and a[1].split("<")[0].endswith("type_iso::decorate") and len(a[2]) == 1):
                            return None
                        x = a[2][0]
                        if isinstance(x, tuple) and x and x[0] == "ev":
                            e = ps[0].events[x[1] - 1]
                            if len(e[1]) == 1 and sx.show(e[1][0]) == fn["params"][0]["name"]:
                                return e[0].split("<")[0].split("::")[-1]
                        return None
                    ok = [getter(a) for a in args] == list(getters)
            except sx.Unsupported as e:
                rep.broken("C20 PARAM %s::convert_to: %s" % (cls, e))
                continue
            (rep.ok if ok else rep.fail)("PARAM", cls + "::convert_to", F.primary_site(fn), F.describe(fn)[:160],
                                         **({"how": "(%s(), %s()) in order, decorated" % getters} if ok else {"why": "convert_to is `%s`" % t}))
    # ---- FACT
    cfg = sx.Config(inline_prefixes=("fcppt::optional::", "fcppt::cond"))
    for fn in dedupe(db.fns(R + "distribution::parameters::make_uniform_indices_advanced")):
        try:
            ps = sx.Interp(db, cfg).paths(fn)
        except sx.Unsupported as e:
            rep.broken("C20: make_uniform_indices_advanced outside fragment: %s" % e)
            continue
        why = None
        t = f_ = False
        for p in ps:
            emp = [b for a, b in p.decisions]
            if not emp or "empty" not in sx.show(p.decisions[0][0]):
                # the decision is on the event result of _container.empty()
                ev = [e for e in p.events if e[0].endswith("::empty")]
                if not ev:
                    why = "emptiness of the container is not examined"
                    break
            v = sx.show(p.outcome[1])
            if emp[0]:
                t = True
                if "none" not in v:
                    why = "an empty container yields %s" % v
            else:
                f_ = True
                sz = [sx.show_event(e) for e in p.events if e[0].endswith("::size")]
                if ":some" not in v or not sz or " - 1" not in v.replace("1U", "1") or "{0}" not in v.replace("0U", "0"):
                    why = "a non-empty container does not yield [0, size() - 1]: %s" % v
        if not why and not (t and f_):
            why = "the result does not depend on emptiness"
        (rep.fail if why else rep.ok)("FACT", "make_uniform_indices_advanced", F.primary_site(fn), F.describe(fn)[:160], **({"why": why} if why else {"how": "empty=>nothing;[0,size-1]"}))
        break
    for fn in dedupe(db.fns(R + "distribution::parameters::make_uniform_enum_advanced")):
        u = fn["_unit"]
        t = ret_term(u, fn) or ""
        try:
            ps_ = sx_single(db, fn)
            if len(ps_) == 1 and ps_[0].outcome[0] == "return":
                t = sx.show(ps_[0].outcome[1])      # copies and named intermediates are transparent in this view
                ens = [str(x) for x in (fn.get("targs") or [])]
                for uu in db.units:
                    for e_ in uu.enums:
                        if e_["qn"] in ens:
                            mx = {x["name"]: x["value"] for x in e_["enumerators"]}.get("fcppt_maximum")
                            if mx is not None:
                                t = re.sub(r"fcppt::strong_typedef\{%s\}\}$" % re.escape(str(mx)), "fcppt::strong_typedef{max_value}}", t)
        except sx.Unsupported:
            pass
        ok = False
        m = re.search(r"int_to_enum\(0\)\}, fcppt::strong_typedef\{(.*)\}\}$", t)
        if m:
            second = m.group(1)
            if "max_value" in second:
                ok = True
            else:
                # max_value<Enum> folds to integral_constant<Enum, Enum::X>::value: X must be the enum's fcppt_maximum
                mm = re.search(r"integral_constant<([\w:]+), ([\w:]+)>::value", second)
                if mm:
                    for uu in db.units:
                        for e in uu.enums:
                            if e["qn"] == mm.group(1):
                                vals = {x["name"]: x["value"] for x in e["enumerators"]}
                                ok = vals.get(mm.group(2).split("::")[-1]) == vals.get("fcppt_maximum")
        (rep.ok if ok else rep.fail)("FACT", "make_uniform_enum_advanced", F.primary_site(fn), F.describe(fn)[:160], **({"how": "[enum 0, max_value]"} if ok else {"why": "parameters are `%s`" % t}))
        break
    for fn in dedupe(db.fns(R + "wrapper::uniform_container::operator()")):
        u = fn["_unit"]
        t = ret_term(u, fn) or ""
        ok = re.sub(r"\s", "", t) in ("(container_[]distribution_.operator()(r_a0))", "(container_.get()[]distribution_.operator()(r_a0))",
                                     "container_.operator[](distribution_.operator()(r_a0))", "container_.get().operator[](distribution_.operator()(r_a0))")
        (rep.ok if ok else rep.fail)("FACT", "uniform_container::operator()", F.primary_site(fn), F.describe(fn)[:160], **({"how": t} if ok else {"why": "body is `%s`, expected container[distribution_(generator)]" % t}))
        break
    for fn in dedupe(db.fns(R + "wrapper::make_uniform_container_advanced")):
        u = fn["_unit"]
        calls = [q for (_, _, q) in L.calls_in(u, fn.get("body"))]
        ok = False
        why = "does not map over make_uniform_indices_advanced: %s" % calls
        try:
            ps_ = sx_single(db, fn)
            c0 = fn["params"][0]["name"]
            idx = "make_uniform_indices_advanced(%s)" % c0
            rows = {}
            for p in ps_:
                dec = [(sx.show(a), b) for a, b in p.decisions]
                if p.outcome[0] != "return" or len(dec) != 1 or dec[0][0] not in ("has_value(%s)" % idx, "has_value(%s.get())" % idx) or p.events:
                    rows = None
                    break
                rows[dec[0][1]] = sx.show(p.outcome[1]).replace(" ", "")
            if rows and set(rows) == {True, False}:
                ok = rows[False].endswith(":none") and rows[True] == ("optional::object{wrapper::uniform_container{%s,some_payload(%s)}}:some" % (c0, idx)).replace(" ", "")
                why = "the table is %s; expected nothing for an empty container and uniform_container(container, indices) otherwise" % rows
        except sx.Unsupported as e:
            rep.broken("C20 FACT make_uniform_container_advanced: %s" % e)
            continue
        (rep.ok if ok else rep.fail)("FACT", "make_uniform_container_advanced", F.primary_site(fn), F.describe(fn)[:160], **({"how": "nothing for an empty container, else uniform_container(container, indices)"} if ok else {"why": why}))
        break
    rep.explanation = ("Transparency is structural: each wrapper member is a single delegation to the wrapped std object, parameter "
                       "translation keeps positions, factories guard emptiness; plus 400 must-compile witnesses. Properties of the std "
                       "distributions and engines themselves are trusted.")
    rep.trusted = ["std::uniform_int_distribution / uniform_real_distribution / normal_distribution and the std engines", "clang 14 front end"]
