"""Engine W: type-level witnesses (DESIGN.md §4.5).

A witness TU is compiled with `clang++ -fsyntax-only -ferror-limit=0` against /repo's current
headers. Every diagnostic group (error + its notes) is attributed to the witness whose source
lines occur in the group's locations and to the first location under /repo/libs.
"""
import os
import re

from . import plumbing as P

_WIT = re.compile(r'^\s*WITNESS\(\s*([A-Za-z0-9_]+)\s*,\s*"((?:[^"\\]|\\.)*)"')
_DIAG = re.compile(r"^(.*?):(\d+):(\d+): (error|fatal error|warning|note): (.*)$")


def parse_witnesses(path):
    """[(id, text, first_line, last_line)] in file order"""
    out = []
    with open(path) as f:
        lines = f.read().split("\n")
    cur = None
    for i, l in enumerate(lines, 1):
        m = _WIT.match(l)
        if m:
            if cur:
                out.append((cur[0], cur[1], cur[2], i - 1))
            cur = (m.group(1), m.group(2), i)
    if cur:
        out.append((cur[0], cur[1], cur[2], len(lines)))
    return out


def run_witness_file(cdir, path, extra_flags=()):
    """Returns (witnesses, failures) where failures: {witness id: [ {msg, lib_site, chain} ]}.
    Errors that cannot be attributed to a witness are returned under id None."""
    b, _ = P.configure(cdir)
    flags = P.driver_flags(b) + ["-I" + os.path.join(P.VERIF, "witness")]
    cmd = ["clang++", "-fsyntax-only", "-std=c++20", "-ferror-limit=0", "-ftemplate-backtrace-limit=0",
           "-fno-caret-diagnostics", "-fno-color-diagnostics", "-w", "-Wno-undefined-internal", "-Wno-undefined-internal-type", "-UNDEBUG"] + flags + list(extra_flags) + [path]
    r = P.sh(cmd)
    wits = parse_witnesses(path)
    groups = []
    cur = None
    for line in r.stderr.split("\n"):
        m = _DIAG.match(line)
        if not m:
            continue
        f, ln, col, kind, msg = m.group(1), int(m.group(2)), int(m.group(3)), m.group(4), m.group(5)
        if kind in ("error", "fatal error"):
            cur = {"msg": msg, "locs": [(f, ln, col)], "notes": []}
            groups.append(cur)
        elif kind == "note" and cur is not None:
            cur["locs"].append((f, ln, col))
            cur["notes"].append("%s:%d:%d: %s" % (P.rel(f), ln, col, msg))
    fails = {}
    real = os.path.realpath(path)
    last_wid = None
    for g in groups:
        wid = None
        for (f, ln, col) in g["locs"]:
            if os.path.realpath(f) == real:
                for (i, t, a, z) in wits:
                    if a <= ln <= z:
                        wid = i
                        break
                if wid:
                    break
        if wid is None and last_wid is not None and not any("in instantiation of" in x for x in g["notes"]):
            # clang omits the instantiation notes for follow-up errors inside the same
            # instantiation: attribute a chain-less error to the preceding error's witness
            wid = last_wid
        last_wid = wid
        lib = None
        for (f, ln, col) in g["locs"]:
            rf = P.rel(f)
            if rf.startswith("libs/"):
                lib = "%s:%d:%d" % (rf, ln, col)
                break
        fails.setdefault(wid, []).append({"msg": g["msg"], "lib_site": lib, "chain": g["notes"][:8]})
    if r.returncode != 0 and not groups:
        fails.setdefault(None, []).append({"msg": "compiler failed without parsable diagnostics: " + r.stderr[-500:],
                                           "lib_site": None, "chain": []})
    return wits, fails
