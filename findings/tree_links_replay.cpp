#include <fcppt/container/tree/object.hpp>
#include <iostream>
using tree = fcppt::container::tree::object<int>;
static bool consistent(tree const &n)
{
  for (tree const &c : n)
  {
    if (!c.parent().has_value() || &c.parent().get_unsafe().get() != &n) return false;
    if (!consistent(c)) return false;
  }
  return true;
}
int main()
{
  int bad = 0;
  { // swap of two roots that have children
    tree a(1); a.push_back(10); tree b(2); b.push_back(20);
    a.swap(b);
    bool ok = consistent(a) && consistent(b);
    std::cout << "swap: links consistent = " << ok << "\n"; bad += !ok;
  }
  { // copy assignment to a node that is a child
    tree root(0); root.push_back(1); tree other(7); other.push_back(70);
    tree &child = root.front().get_unsafe().get();
    child = other;
    bool ok = consistent(root) && !root.parent().has_value();
    std::cout << "copy-assign to a child: links consistent = " << ok << "\n"; bad += !ok;
  }
  { // move assignment to a node that is a child, from a root
    tree root(0); root.push_back(1); tree other(7); other.push_back(70);
    tree &child = root.front().get_unsafe().get();
    child = std::move(other);
    bool ok = consistent(root) && !other.parent().has_value();
    std::cout << "move-assign to a child: links consistent = " << ok << " (moved-from root now claims a parent: " << other.parent().has_value() << ")\n"; bad += !ok;
  }
  return bad;
}
