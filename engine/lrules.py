"""Engine L helpers: field writes, receivers, simple structural queries (DESIGN.md §4.8)."""
from . import facts as F
from . import guards as G
from . import terms as T


def bodies(fn):
    return [fn.get("body")] + [i.get("init") for i in fn.get("inits", [])]


def field_of(unit, n):
    """(base term, field name) if n denotes a data member access, else None"""
    n = T.unwrap(unit, n)
    if n is not None and n.get("k") == "member" and n.get("field"):
        return (T.norm(unit, n.get("base")), n.get("name"), n)
    return None


def field_writes(unit, fn, field, into_lambdas=True):
    """All writes to a data member named `field` in fn (assignment, compound assignment, ++/--,
    passing by non-const reference / rvalue reference to any call incl. std::swap, non-const
    member call on it). Yields dicts {node, how, base (term), value (node or None), callee}."""
    out = []
    for n in F.walk(bodies(fn), into_lambdas=into_lambdas):
        k = n.get("k")
        if k in ("assign", "compound_assign"):
            f = field_of(unit, n.get("l"))
            if f and f[1] == field:
                out.append({"node": n, "how": "assign", "base": f[0], "value": n.get("r"), "callee": None})
        elif k == "unop" and n.get("op") in ("++", "--"):
            f = field_of(unit, n.get("e"))
            if f and f[1] == field:
                out.append({"node": n, "how": n["op"], "base": f[0], "value": None, "callee": None})
        elif k in ("call", "construct"):
            d = T.callee_decl(unit, n)
            if d is None:
                continue
            qn = F.strip_targs(d["qn"])
            if qn in T.TRANSPARENT_CALLS:
                continue
            if k == "call" and n.get("recv") is not None:
                f = field_of(unit, n["recv"])
                if f and f[1] == field and not d.get("const", True) and not d.get("static"):
                    short = qn.split("::")[-1]
                    if n.get("opcall") == "=":
                        out.append({"node": n, "how": "assign", "base": f[0], "value": (n.get("args") or [None])[0], "callee": qn})
                    elif short not in G.NONMUTATING:
                        out.append({"node": n, "how": "call:" + short, "base": f[0], "value": None, "callee": qn, "args": n.get("args", [])})
            prefs = d.get("prefs", [])
            for i, a in enumerate(n.get("args", [])):
                pr = prefs[i] if i < len(prefs) else "val"
                if pr in ("lref", "rref"):
                    f = field_of(unit, a)
                    if f and f[1] == field:
                        out.append({"node": n, "how": "passed-by-%s-to:%s" % (pr, qn), "base": f[0], "value": None, "callee": qn})
    return out


def is_nullptr(unit, n):
    n = T.unwrap(unit, n)
    return n is not None and n.get("k") == "lit" and n.get("nullptr")


def is_this(unit, n):
    n = T.unwrap(unit, n)
    return n is not None and n.get("k") == "this"


def is_addr_of(unit, n, term):
    n = T.unwrap(unit, n)
    return n is not None and n.get("k") == "unop" and n.get("op") == "&" and T.norm(unit, n.get("e")) == term


def calls_in(unit, node, into_lambdas=True):
    for n in F.walk(node, into_lambdas=into_lambdas):
        if n.get("k") == "call":
            d = T.callee_decl(unit, n)
            if d is not None:
                yield n, d, F.strip_targs(d["qn"])


def method_fns(db, record, name=None):
    """deduplicated (by primary site) member functions of a class template / class"""
    out = {}
    for fn in db.functions:
        if F.strip_targs(fn.get("record") or "") != record:
            continue
        short = F.fn_name(fn).split("::")[-1]
        if name is not None and short != name:
            continue
        out.setdefault(F.primary_site(fn), fn)
    return list(out.values())


def reparent_loops(unit, stmts, field, list_term_pred):
    """range-for loops `for (auto &c : L) c.<field> = V;` among stmts: returns [(L term, V node)]"""
    out = []
    for s in stmts:
        if s is None or s.get("k") != "range_for" or s.get("var") is None:
            continue
        L = T.norm(unit, s.get("range"))
        body = s.get("body")
        items = body.get("ch", []) if body is not None and body.get("k") == "compound" else [body]
        for it in items:
            it = T.unwrap(unit, it) if it is not None else None
            if it is not None and it.get("k") == "assign":
                f = field_of(unit, it.get("l"))
                if f and f[1] == field and f[0] == ("v", s["var"]["id"], s["var"].get("name")):
                    out.append((L, it.get("r")))
    return out


def flatten_paths(stmts):
    """paths through structured statements: list of lists of (stmt, conds) with if-splitting"""
    paths = [([], [])]
    for s in stmts:
        if s is None:
            continue
        if s.get("k") == "if":
            thn = s.get("then")
            els = s.get("else")
            t_items = thn.get("ch", []) if thn is not None and thn.get("k") == "compound" else ([thn] if thn else [])
            e_items = els.get("ch", []) if els is not None and els.get("k") == "compound" else ([els] if els else [])
            new = []
            for (items, conds) in paths:
                for (sub_items, sub_conds) in flatten_paths(t_items):
                    new.append((items + sub_items, conds + [(s.get("cond"), True)] + sub_conds))
                for (sub_items, sub_conds) in flatten_paths(e_items):
                    new.append((items + sub_items, conds + [(s.get("cond"), False)] + sub_conds))
            paths = new
        elif s.get("k") == "compound":
            new = []
            for (items, conds) in paths:
                for (sub_items, sub_conds) in flatten_paths(s.get("ch", [])):
                    new.append((items + sub_items, conds + sub_conds))
            paths = new
        else:
            paths = [(items + [s], conds) for (items, conds) in paths]
    # cut each path at its first return
    out = []
    for (items, conds) in paths:
        cut = []
        for it in items:
            cut.append(it)
            if it.get("k") == "return":
                break
        out.append((cut, conds))
    return out


