// C10: storage geometry of bitfield as TYPES (no value of the library is computed at run time): the array
// behind a bitfield over N enumerators with B-bit words has exactly ceil(N / B) words ("as many InternalType
// values as are necessary to hold NumElements bits", array_fwd.hpp) -- a spare word would be complemented by
// operator~ without being masked and break ==, hash and is_subset_eq. The expected word count is computed here,
// independently of the library's ceil_div_static.
#include "probe.hpp"
#include <fcppt/array/object_impl.hpp>
#include <fcppt/container/bitfield/array_fwd.hpp>
#include <fcppt/container/bitfield/object_decl.hpp>
#include <fcppt/container/bitfield/object_impl.hpp>
#include <cstddef>
#include <cstdint>
#include <limits>
#include <type_traits>

namespace c10w
{
template <std::size_t N, typename W>
inline constexpr std::size_t words = (N + static_cast<std::size_t>(std::numeric_limits<W>::digits) - 1U) /
                                     static_cast<std::size_t>(std::numeric_limits<W>::digits);
template <std::size_t N, typename W>
inline constexpr bool array_ok = std::is_same_v<
    fcppt::container::bitfield::array<std::integral_constant<std::size_t, N>, W>,
    fcppt::array::object<W, words<N, W>>>;
}

WITNESS(c10_array_1_u8, "bitfield::array<1, std::uint8_t> is array::object<std::uint8_t, ceil(1 / bits)>")
{
  static_assert(c10w::array_ok<1U, std::uint8_t>);
}

WITNESS(c10_array_1_u16, "bitfield::array<1, std::uint16_t> is array::object<std::uint16_t, ceil(1 / bits)>")
{
  static_assert(c10w::array_ok<1U, std::uint16_t>);
}

WITNESS(c10_array_1_u32, "bitfield::array<1, std::uint32_t> is array::object<std::uint32_t, ceil(1 / bits)>")
{
  static_assert(c10w::array_ok<1U, std::uint32_t>);
}

WITNESS(c10_array_1_u64, "bitfield::array<1, std::uint64_t> is array::object<std::uint64_t, ceil(1 / bits)>")
{
  static_assert(c10w::array_ok<1U, std::uint64_t>);
}

WITNESS(c10_array_3_u8, "bitfield::array<3, std::uint8_t> is array::object<std::uint8_t, ceil(3 / bits)>")
{
  static_assert(c10w::array_ok<3U, std::uint8_t>);
}

WITNESS(c10_array_3_u16, "bitfield::array<3, std::uint16_t> is array::object<std::uint16_t, ceil(3 / bits)>")
{
  static_assert(c10w::array_ok<3U, std::uint16_t>);
}

WITNESS(c10_array_3_u32, "bitfield::array<3, std::uint32_t> is array::object<std::uint32_t, ceil(3 / bits)>")
{
  static_assert(c10w::array_ok<3U, std::uint32_t>);
}

WITNESS(c10_array_3_u64, "bitfield::array<3, std::uint64_t> is array::object<std::uint64_t, ceil(3 / bits)>")
{
  static_assert(c10w::array_ok<3U, std::uint64_t>);
}

WITNESS(c10_array_7_u8, "bitfield::array<7, std::uint8_t> is array::object<std::uint8_t, ceil(7 / bits)>")
{
  static_assert(c10w::array_ok<7U, std::uint8_t>);
}

WITNESS(c10_array_7_u16, "bitfield::array<7, std::uint16_t> is array::object<std::uint16_t, ceil(7 / bits)>")
{
  static_assert(c10w::array_ok<7U, std::uint16_t>);
}

WITNESS(c10_array_7_u32, "bitfield::array<7, std::uint32_t> is array::object<std::uint32_t, ceil(7 / bits)>")
{
  static_assert(c10w::array_ok<7U, std::uint32_t>);
}

WITNESS(c10_array_7_u64, "bitfield::array<7, std::uint64_t> is array::object<std::uint64_t, ceil(7 / bits)>")
{
  static_assert(c10w::array_ok<7U, std::uint64_t>);
}

WITNESS(c10_array_8_u8, "bitfield::array<8, std::uint8_t> is array::object<std::uint8_t, ceil(8 / bits)>")
{
  static_assert(c10w::array_ok<8U, std::uint8_t>);
}

WITNESS(c10_array_8_u16, "bitfield::array<8, std::uint16_t> is array::object<std::uint16_t, ceil(8 / bits)>")
{
  static_assert(c10w::array_ok<8U, std::uint16_t>);
}

WITNESS(c10_array_8_u32, "bitfield::array<8, std::uint32_t> is array::object<std::uint32_t, ceil(8 / bits)>")
{
  static_assert(c10w::array_ok<8U, std::uint32_t>);
}

WITNESS(c10_array_8_u64, "bitfield::array<8, std::uint64_t> is array::object<std::uint64_t, ceil(8 / bits)>")
{
  static_assert(c10w::array_ok<8U, std::uint64_t>);
}

WITNESS(c10_array_9_u8, "bitfield::array<9, std::uint8_t> is array::object<std::uint8_t, ceil(9 / bits)>")
{
  static_assert(c10w::array_ok<9U, std::uint8_t>);
}

WITNESS(c10_array_9_u16, "bitfield::array<9, std::uint16_t> is array::object<std::uint16_t, ceil(9 / bits)>")
{
  static_assert(c10w::array_ok<9U, std::uint16_t>);
}

WITNESS(c10_array_9_u32, "bitfield::array<9, std::uint32_t> is array::object<std::uint32_t, ceil(9 / bits)>")
{
  static_assert(c10w::array_ok<9U, std::uint32_t>);
}

WITNESS(c10_array_9_u64, "bitfield::array<9, std::uint64_t> is array::object<std::uint64_t, ceil(9 / bits)>")
{
  static_assert(c10w::array_ok<9U, std::uint64_t>);
}

WITNESS(c10_array_15_u8, "bitfield::array<15, std::uint8_t> is array::object<std::uint8_t, ceil(15 / bits)>")
{
  static_assert(c10w::array_ok<15U, std::uint8_t>);
}

WITNESS(c10_array_15_u16, "bitfield::array<15, std::uint16_t> is array::object<std::uint16_t, ceil(15 / bits)>")
{
  static_assert(c10w::array_ok<15U, std::uint16_t>);
}

WITNESS(c10_array_15_u32, "bitfield::array<15, std::uint32_t> is array::object<std::uint32_t, ceil(15 / bits)>")
{
  static_assert(c10w::array_ok<15U, std::uint32_t>);
}

WITNESS(c10_array_15_u64, "bitfield::array<15, std::uint64_t> is array::object<std::uint64_t, ceil(15 / bits)>")
{
  static_assert(c10w::array_ok<15U, std::uint64_t>);
}

WITNESS(c10_array_16_u8, "bitfield::array<16, std::uint8_t> is array::object<std::uint8_t, ceil(16 / bits)>")
{
  static_assert(c10w::array_ok<16U, std::uint8_t>);
}

WITNESS(c10_array_16_u16, "bitfield::array<16, std::uint16_t> is array::object<std::uint16_t, ceil(16 / bits)>")
{
  static_assert(c10w::array_ok<16U, std::uint16_t>);
}

WITNESS(c10_array_16_u32, "bitfield::array<16, std::uint32_t> is array::object<std::uint32_t, ceil(16 / bits)>")
{
  static_assert(c10w::array_ok<16U, std::uint32_t>);
}

WITNESS(c10_array_16_u64, "bitfield::array<16, std::uint64_t> is array::object<std::uint64_t, ceil(16 / bits)>")
{
  static_assert(c10w::array_ok<16U, std::uint64_t>);
}

WITNESS(c10_array_17_u8, "bitfield::array<17, std::uint8_t> is array::object<std::uint8_t, ceil(17 / bits)>")
{
  static_assert(c10w::array_ok<17U, std::uint8_t>);
}

WITNESS(c10_array_17_u16, "bitfield::array<17, std::uint16_t> is array::object<std::uint16_t, ceil(17 / bits)>")
{
  static_assert(c10w::array_ok<17U, std::uint16_t>);
}

WITNESS(c10_array_17_u32, "bitfield::array<17, std::uint32_t> is array::object<std::uint32_t, ceil(17 / bits)>")
{
  static_assert(c10w::array_ok<17U, std::uint32_t>);
}

WITNESS(c10_array_17_u64, "bitfield::array<17, std::uint64_t> is array::object<std::uint64_t, ceil(17 / bits)>")
{
  static_assert(c10w::array_ok<17U, std::uint64_t>);
}

WITNESS(c10_array_31_u8, "bitfield::array<31, std::uint8_t> is array::object<std::uint8_t, ceil(31 / bits)>")
{
  static_assert(c10w::array_ok<31U, std::uint8_t>);
}

WITNESS(c10_array_31_u16, "bitfield::array<31, std::uint16_t> is array::object<std::uint16_t, ceil(31 / bits)>")
{
  static_assert(c10w::array_ok<31U, std::uint16_t>);
}

WITNESS(c10_array_31_u32, "bitfield::array<31, std::uint32_t> is array::object<std::uint32_t, ceil(31 / bits)>")
{
  static_assert(c10w::array_ok<31U, std::uint32_t>);
}

WITNESS(c10_array_31_u64, "bitfield::array<31, std::uint64_t> is array::object<std::uint64_t, ceil(31 / bits)>")
{
  static_assert(c10w::array_ok<31U, std::uint64_t>);
}

WITNESS(c10_array_32_u8, "bitfield::array<32, std::uint8_t> is array::object<std::uint8_t, ceil(32 / bits)>")
{
  static_assert(c10w::array_ok<32U, std::uint8_t>);
}

WITNESS(c10_array_32_u16, "bitfield::array<32, std::uint16_t> is array::object<std::uint16_t, ceil(32 / bits)>")
{
  static_assert(c10w::array_ok<32U, std::uint16_t>);
}

WITNESS(c10_array_32_u32, "bitfield::array<32, std::uint32_t> is array::object<std::uint32_t, ceil(32 / bits)>")
{
  static_assert(c10w::array_ok<32U, std::uint32_t>);
}

WITNESS(c10_array_32_u64, "bitfield::array<32, std::uint64_t> is array::object<std::uint64_t, ceil(32 / bits)>")
{
  static_assert(c10w::array_ok<32U, std::uint64_t>);
}

WITNESS(c10_array_33_u8, "bitfield::array<33, std::uint8_t> is array::object<std::uint8_t, ceil(33 / bits)>")
{
  static_assert(c10w::array_ok<33U, std::uint8_t>);
}

WITNESS(c10_array_33_u16, "bitfield::array<33, std::uint16_t> is array::object<std::uint16_t, ceil(33 / bits)>")
{
  static_assert(c10w::array_ok<33U, std::uint16_t>);
}

WITNESS(c10_array_33_u32, "bitfield::array<33, std::uint32_t> is array::object<std::uint32_t, ceil(33 / bits)>")
{
  static_assert(c10w::array_ok<33U, std::uint32_t>);
}

WITNESS(c10_array_33_u64, "bitfield::array<33, std::uint64_t> is array::object<std::uint64_t, ceil(33 / bits)>")
{
  static_assert(c10w::array_ok<33U, std::uint64_t>);
}

WITNESS(c10_array_63_u8, "bitfield::array<63, std::uint8_t> is array::object<std::uint8_t, ceil(63 / bits)>")
{
  static_assert(c10w::array_ok<63U, std::uint8_t>);
}

WITNESS(c10_array_63_u16, "bitfield::array<63, std::uint16_t> is array::object<std::uint16_t, ceil(63 / bits)>")
{
  static_assert(c10w::array_ok<63U, std::uint16_t>);
}

WITNESS(c10_array_63_u32, "bitfield::array<63, std::uint32_t> is array::object<std::uint32_t, ceil(63 / bits)>")
{
  static_assert(c10w::array_ok<63U, std::uint32_t>);
}

WITNESS(c10_array_63_u64, "bitfield::array<63, std::uint64_t> is array::object<std::uint64_t, ceil(63 / bits)>")
{
  static_assert(c10w::array_ok<63U, std::uint64_t>);
}

WITNESS(c10_array_64_u8, "bitfield::array<64, std::uint8_t> is array::object<std::uint8_t, ceil(64 / bits)>")
{
  static_assert(c10w::array_ok<64U, std::uint8_t>);
}

WITNESS(c10_array_64_u16, "bitfield::array<64, std::uint16_t> is array::object<std::uint16_t, ceil(64 / bits)>")
{
  static_assert(c10w::array_ok<64U, std::uint16_t>);
}

WITNESS(c10_array_64_u32, "bitfield::array<64, std::uint32_t> is array::object<std::uint32_t, ceil(64 / bits)>")
{
  static_assert(c10w::array_ok<64U, std::uint32_t>);
}

WITNESS(c10_array_64_u64, "bitfield::array<64, std::uint64_t> is array::object<std::uint64_t, ceil(64 / bits)>")
{
  static_assert(c10w::array_ok<64U, std::uint64_t>);
}

WITNESS(c10_array_65_u8, "bitfield::array<65, std::uint8_t> is array::object<std::uint8_t, ceil(65 / bits)>")
{
  static_assert(c10w::array_ok<65U, std::uint8_t>);
}

WITNESS(c10_array_65_u16, "bitfield::array<65, std::uint16_t> is array::object<std::uint16_t, ceil(65 / bits)>")
{
  static_assert(c10w::array_ok<65U, std::uint16_t>);
}

WITNESS(c10_array_65_u32, "bitfield::array<65, std::uint32_t> is array::object<std::uint32_t, ceil(65 / bits)>")
{
  static_assert(c10w::array_ok<65U, std::uint32_t>);
}

WITNESS(c10_array_65_u64, "bitfield::array<65, std::uint64_t> is array::object<std::uint64_t, ceil(65 / bits)>")
{
  static_assert(c10w::array_ok<65U, std::uint64_t>);
}

WITNESS(c10_array_128_u8, "bitfield::array<128, std::uint8_t> is array::object<std::uint8_t, ceil(128 / bits)>")
{
  static_assert(c10w::array_ok<128U, std::uint8_t>);
}

WITNESS(c10_array_128_u16, "bitfield::array<128, std::uint16_t> is array::object<std::uint16_t, ceil(128 / bits)>")
{
  static_assert(c10w::array_ok<128U, std::uint16_t>);
}

WITNESS(c10_array_128_u32, "bitfield::array<128, std::uint32_t> is array::object<std::uint32_t, ceil(128 / bits)>")
{
  static_assert(c10w::array_ok<128U, std::uint32_t>);
}

WITNESS(c10_array_128_u64, "bitfield::array<128, std::uint64_t> is array::object<std::uint64_t, ceil(128 / bits)>")
{
  static_assert(c10w::array_ok<128U, std::uint64_t>);
}
