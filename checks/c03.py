"""C03 Command-line parsing accounts for every argument (DESIGN.md §6 C03; rule ids from
specs/C03-threading.json).

Decided structurally, with OPAQUE stub sub-parsers (declared-only parse/flag_names/option_names/usage):
 PROD-1/2  product: IN -> left -> right -> OUT; failures propagate unchanged
 SUM-1/2   sum: the single back-tracking copy goes to the FIRST alternative, the original to the second,
           which is tried only after the first failed
 OPTN-1/2  optional: recovers from missing_error only, continuing from the state inside that error
 MANY-1/2  many: every iteration is fed the state the previous one returned; ends only by a failure;
           missing => success with the collected values and the error's state; other => failure
 TOP-1/2   parse_to_empty: every success passes detail::leftover_error on the final state; both error
           classes become options::error
 TOP-3     options::parse starts from the given argument vector and the parser's own option names
 ST-G1     linearity: options::state is copy-constructed only at the two back-tracking points
 CTOR-V    constructors validate their definitions (name clashes, disjoint labels, duplicate sub-commands)
Declined: token-level equality with a reference semantics over all argument vectors (the token scanners
next_arg / is_flag / use_flag / use_option are imperative iterator code covered by C01's G and LOOP rules).
"""
import re

from engine import facts as F
from engine import load
from engine import lrules as L
from engine import sx
from engine import terms as T

LEVEL = "other"
INLINE = ("fcppt::optional::", "fcppt::either::", "fcppt::variant::", "fcppt::cond", "fcppt::const_", "fcppt::detail::const_",
          "fcppt::options::detail::parse_to_empty", "fcppt::options::make_success", "fcppt::options::parse")
PURE = ("fcppt::options::state_with_value::state", "fcppt::options::state_with_value::value", "fcppt::options::missing_error::state",
        "fcppt::options::missing_error::error", "fcppt::strong_typedef::get")
STATE = "fcppt::options::state"


def hook_construct(it, cls, kind, args, d, unit, n):
    if cls == STATE and kind == "copy":
        return ("copy", args[0])
    return None


class PV:
    def __init__(self, p):
        self.p = p
        self.subs = []   # (event index, member, state term text)
        for i, e in enumerate(p.events, 1):
            if "stub_parser" in e[0] and e[0].split("<")[0].endswith("::parse"):
                self.subs.append((i, sx.show(e[1][0]).replace("this.", ""), sx.show(e[1][1]), sx.show(e[1][2]) if len(e[1]) > 2 else ""))
        self.dec = {sx.show(a): b for a, b in p.decisions}

    def ok(self, i):
        for k, v in self.dec.items():
            if k.startswith("has_success(#%d:" % i):
                return v
        return None

    def missing(self, i):
        for k, v in self.dec.items():
            if "missing_error" in k and "failure_payload(#%d:" % i in k:
                return v
        return None

    def outcome(self):
        o = self.p.outcome
        if o[0] != "return":
            return (o[0], None)
        v = o[1]
        if isinstance(v, tuple) and v and v[0] == "new" and v[1] == sx.EITH:
            return (v[2], v[3][0])
        return ("other", v)

    def out_state(self):
        k, v = self.outcome()
        if k == "success" and isinstance(v, tuple) and v[0] == "new" and "state_with_value" in v[1] and v[3]:
            return sx.show(v[3][0])
        return None


def roots(db, qn):
    out = {}
    for fn in db.fns(qn):
        rt = fn.get("rec_targs") or []
        ta = fn.get("targs") or []
        allt = " ".join(list(rt) + list(ta))
        if "stub_parser" not in allt or "fcppt::options::" in allt.replace("fcppt::options::detail", ""):
            continue
        out.setdefault((F.primary_site(fn), tuple(rt), tuple(ta)), fn)
    return list(out.values())


def run(rep, db, cfg, fn):
    try:
        return [PV(p) for p in sx.Interp(db, cfg).paths(fn, this=("sym", "this"), limit=400)]
    except sx.Unsupported as e:
        rep.broken("C03: %s is outside the interpreted fragment: %s" % (F.describe(fn)[:160], e))
        return None


def check(rep, rid, fn, pvs, pred):
    bad = None
    for pv in pvs:
        try:
            r = pred(pv)
        except (IndexError, KeyError, TypeError, ValueError):
            r = "the path does not have the expected event structure: %s" % [s[1:3] for s in pv.subs]
        if r:
            bad = (r, pv)
            break
    key = "%s|%s" % (rid, F.fn_name(fn).replace("fcppt::options::", ""))
    if bad:
        rep.fail(rid, key, F.primary_site(fn), F.describe(fn)[:200], why=bad[0], detail={"path": bad[1].p.show()})
    else:
        rep.ok(rid, key, F.primary_site(fn), F.describe(fn)[:200], how="all-paths", detail={"paths": len(pvs)})


def main(rep, tier, only):
    db = load.load(tier, lib=True, drivers=["drv_options"], lib_filter=lambda f: f.startswith("libs/options/"))
    rep.extra.update(db.stats())
    cfg = sx.Config(inline_prefixes=INLINE, pure=PURE, hooks={"construct": hook_construct}, loop_bound=2)
    for rid, text, floor in [
        ("PROD-1", "product: right receives exactly the state left returned; success carries right's state", 1),
        ("PROD-2", "product: failure of either side propagates unchanged; right only after left succeeded", 1),
        ("SUM-1", "sum: one back-tracking copy, given to the first alternative; the original is moved into the second", 1),
        ("SUM-2", "sum: right tried only after left failed; success carries the successful alternative's state", 1),
        ("OPTN-1", "optional: recovers from missing_error only", 1),
        ("OPTN-2", "optional: on recovery the state continues from the state inside the missing error; sub-parser gets a copy of IN", 1),
        ("MANY-1", "many: each iteration is fed the state returned by the previous one", 1),
        ("MANY-2", "many: ends only by a failure; missing => success with the error's state; other => failure", 1),
        ("TOP-1", "parse_to_empty: every success passes leftover_error on the final state", 1),
        ("TOP-2", "parse_to_empty: both error classes become options::error; leftover error => failure", 1),
        ("TOP-3", "options::parse: state from the given arguments, context from the parser's option names, through parse_to_empty", 1),
        ("ST-G1", "options::state is copy-constructed only at the back-tracking points of sum and optional", 2),
        ("SUM-3", "combine_errors_impl: missing+missing => missing carrying the SECOND error's state; every other pair => other_error", 4),
        ("CTX-OWN", "every parse_context handed to a parser is built from THAT parser's own option_names()", 3),
        ("FLAG-TOK", "is_flag classifies a token by its first two characters: empty, no leading dash and a lone `-` are ordinary arguments; `--name` is the long flag `name`; `-name` the short flag `name`; no character is read past the end", 1),
        ("ARGS-MUT", "the argument vector is only mutated by erasing exactly the matched token(s): use_flag one element found by std::find, use_option name+value, pop_arg the positional", 3),
        ("CTOR-V", "parser constructors call their definition validators on the stored members", 3)]:
        rep.rule(rid, text, floor=floor)
    # ---- product
    for fn in roots(db, "fcppt::options::product::parse"):
        pvs = run(rep, db, cfg, fn)
        if pvs is None:
            continue

        def prod1(pv):
            s = pv.subs
            if not s or s[0][1] != "left_" or s[0][2] != "r_a0":
                return "left is not called first with the incoming state"
            if len(s) > 1:
                if s[1][1] != "right_" or s[1][2] != "state(success_payload(#%d:parse))" % s[0][0]:
                    return "right receives %s instead of the state left returned" % s[1][2]
                if pv.ok(s[1][0]) and pv.out_state() != "state(success_payload(#%d:parse))" % s[1][0]:
                    return "success carries %s instead of the state right returned" % pv.out_state()
            if len(s) > 2:
                return "more than two sub-parses"
        check(rep, "PROD-1", fn, pvs, prod1)

        def prod2(pv):
            s = pv.subs
            if len(s) == 2 and pv.ok(s[0][0]) is not True:
                return "right is tried although left did not succeed"
            if pv.ok(s[0][0]) is True and len(s) != 2:
                return "right is not tried after left succeeded"
            for x in s:
                if pv.ok(x[0]) is False:
                    k, v = pv.outcome()
                    if k != "failure" or sx.show(v) != "failure_payload(#%d:parse)" % x[0]:
                        return "the failure of %s is not propagated unchanged (%s)" % (x[1], sx.show(v))
        check(rep, "PROD-2", fn, pvs, prod2)
    # ---- sum
    for fn in roots(db, "fcppt::options::sum::parse"):
        pvs = run(rep, db, cfg, fn)
        if pvs is None:
            continue

        def sum1(pv):
            s = pv.subs
            if s[0][1] != "left_" or s[0][2] != "copy(r_a0)":
                return "the first alternative receives %s, not a copy of the incoming state" % s[0][2]
            if len(s) > 1 and (s[1][1] != "right_" or s[1][2] != "r_a0"):
                return "the second alternative receives %s, not the original state" % s[1][2]
            if len([x for x in s if "copy" in x[2]]) != 1:
                return "not exactly one back-tracking copy"
        check(rep, "SUM-1", fn, pvs, sum1)

        def sum2(pv):
            s = pv.subs
            if len(s) > 1 and pv.ok(s[0][0]) is not False:
                return "right tried although left did not fail"
            if pv.ok(s[0][0]) is False and len(s) != 2:
                return "right not tried after left failed"
            okk = [x for x in s if pv.ok(x[0]) is True]
            if okk:
                if pv.out_state() != "state(success_payload(#%d:parse))" % okk[0][0]:
                    return "success carries %s instead of the successful alternative's state" % pv.out_state()
            elif pv.outcome()[0] != "failure":
                return "both alternatives fail but the sum does not"
        check(rep, "SUM-2", fn, pvs, sum2)
    # ---- optional
    for fn in roots(db, "fcppt::options::optional::parse"):
        pvs = run(rep, db, cfg, fn)
        if pvs is None:
            continue

        def optn1(pv):
            s = pv.subs
            if len(s) != 1:
                return "not exactly one sub-parse"
            if pv.ok(s[0][0]) is False:
                m = pv.missing(s[0][0])
                if m is None:
                    return "the error class is not examined"
                k, v = pv.outcome()
                if m and k != "success":
                    return "a missing error is not recovered"
                if not m and k != "failure":
                    return "an error other than 'missing' is recovered from (arguments would be silently dropped)"
                if not m and "failure_payload(#%d:parse)" % s[0][0] not in sx.show(v):
                    return "the other_error is not passed on"
        check(rep, "OPTN-1", fn, pvs, optn1)

        def optn2(pv):
            s = pv.subs
            if s[0][2] != "copy(r_a0)":
                return "the sub-parser receives %s instead of a back-tracking copy" % s[0][2]
            if pv.ok(s[0][0]) is True and pv.out_state() != "state(success_payload(#%d:parse))" % s[0][0]:
                return "success carries %s" % pv.out_state()
            if pv.ok(s[0][0]) is False and pv.missing(s[0][0]):
                st = pv.out_state() or ""
                if "missing_error" not in st or "failure_payload(#%d:parse)" % s[0][0] not in st:
                    return "recovery continues from %s, not from the state inside the missing error" % st
        check(rep, "OPTN-2", fn, pvs, optn2)
    # ---- many
    for fn in roots(db, "fcppt::options::many::parse"):
        pvs = run(rep, db, cfg, fn)
        if pvs is None:
            continue

        def many1(pv):
            s = pv.subs
            if not s or s[0][2] != "r_a0":
                return "first iteration does not get the incoming state"
            for a, b in zip(s, s[1:]):
                if b[2] != "state(success_payload(#%d:parse))" % a[0]:
                    return "iteration is fed %s, not the state the previous iteration returned" % b[2]
                if pv.ok(a[0]) is not True:
                    return "iteration after a failure"
        check(rep, "MANY-1", fn, pvs, many1)

        def many2(pv):
            if pv.p.outcome[0] == "truncated":
                return None
            s = pv.subs
            last = s[-1]
            if pv.ok(last[0]) is not False:
                return "loop ends without a failure of the sub-parser"
            m = pv.missing(last[0])
            k, v = pv.outcome()
            if m is None:
                return "error class not examined"
            if m:
                st = pv.out_state() or ""
                if k != "success" or "missing_error" not in st or "failure_payload(#%d:parse)" % last[0] not in st:
                    return "missing does not end the repetition successfully with the error's state (%s, %s)" % (k, st)
            elif k != "failure":
                return "an error other than 'missing' is swallowed"
        check(rep, "MANY-2", fn, pvs, many2)
    # ---- parse_to_empty
    for fn in roots(db, "fcppt::options::detail::parse_to_empty"):
        pvs = run(rep, db, cfg, fn)
        if pvs is None:
            continue

        def top1(pv):
            s = pv.subs
            if len(s) != 1 or s[0][2] != "r_a1":   # parse_to_empty(parser, state, context)
                return "the parser is not run exactly once on the given state"
            lo = [(i, e) for i, e in enumerate(pv.p.events, 1) if e[0].startswith("fcppt::options::detail::leftover_error")]
            k, v = pv.outcome()
            if pv.ok(s[0][0]) is True:
                if len(lo) != 1 or sx.show(lo[0][1][1][0]) != "state(success_payload(#%d:parse))" % s[0][0]:
                    return "a successful parse is not followed by leftover_error on its final state"
                hv = [b for a, b in pv.dec.items() if a.startswith("has_value(#%d:" % lo[0][0])]
                if not hv:
                    return "the leftover check's result is ignored"
                if hv[0] and k != "failure":
                    return "left-over arguments do not make the parse fail"
                if not hv[0] and (k != "success" or "value(success_payload(#%d:parse))" % s[0][0] not in sx.show(v)):
                    return "an empty remainder does not yield the parser's value"
        check(rep, "TOP-1", fn, pvs, top1)

        def top2(pv):
            s = pv.subs
            if pv.ok(s[0][0]) is False:
                k, v = pv.outcome()
                if k != "failure":
                    return "a parse error is turned into a success"
                if pv.missing(s[0][0]) is None:
                    return "error class not examined"
        check(rep, "TOP-2", fn, pvs, top2)
    # ---- options::parse
    done = False
    for fn in roots(db, "fcppt::options::parse"):
        u = fn["_unit"]
        calls = [(n, d, q) for (n, d, q) in L.calls_in(u, fn.get("body"))]
        pte = [n for (n, d, q) in calls if q == "fcppt::options::detail::parse_to_empty"]
        key = "TOP-3|options::parse"
        why = None
        if len(pte) != 1:
            why = "does not go through parse_to_empty exactly once"
        else:
            a = pte[0].get("args", [])
            t0 = T.show(T.norm(u, a[0]))
            t1 = T.show(T.norm(u, a[1]))
            t2 = T.show(T.norm(u, a[2]))
            if t0 != "r_a0":   # options::parse(parser, args)
                why = "parse_to_empty is not given the caller's parser"
            elif "r_a1" not in t1:
                why = "the state is not built from the given argument vector (%s)" % t1
            elif "option_names" not in t2 or "r_a0" not in t2:
                why = "the context is not built from the parser's own option names (%s)" % t2
        done = True
        (rep.fail if why else rep.ok)("TOP-3", key, F.primary_site(fn), F.describe(fn)[:160], **({"why": why} if why else {"how": "state{args};context{option_names}"}))
        break
    if not done:
        rep.broken("C03: options::parse with a stub parser not instantiated")
    # ---- ST-G1: copy census of options::state
    allowed = {"fcppt::options::sum::parse", "fcppt::options::optional::parse"}
    per = {}
    for fn in db.functions:
        u = fn["_unit"]
        f = u.file_of(fn["primary"])
        if not f.startswith("libs/options/"):
            continue
        for sub in [x for x in u.all_functions if F.top_function(x) is fn]:
            for n in F.walk(L.bodies(sub), into_lambdas=False):
                if n.get("k") == "construct" and n.get("cls") == STATE and n.get("ctor") == "copy":
                    per.setdefault(F.fn_name(fn), []).append(u.loc(n["loc"]))
    for name, locs in sorted(per.items()):
        key = "ST-G1|" + name
        if name in allowed and len(set(locs)) == 1:
            rep.ok("ST-G1", key, locs[0], name, how="back-tracking-copy")
        elif name in allowed:
            rep.fail("ST-G1", key, locs[0], name, why="%d copies of the argument state where exactly one back-tracking copy is expected" % len(set(locs)))
        else:
            rep.fail("ST-G1", key, locs[0], name, why="copies the argument state: both copies can be consumed, so an argument can be used twice")
    for name in allowed:
        if name not in per:
            rep.fail("ST-G1", "ST-G1|" + name, name, name, why="the back-tracking copy vanished: the alternative consumes the original state")
    # ---- SUM-3: overload table of combine_errors_impl
    seen = set()
    for fn in db.fns("fcppt::options::detail::combine_errors_impl"):
        u = fn["_unit"]
        pts = [(u.ty(p["t"]) or "").replace("fcppt::options::", "").replace(" &&", "") for p in fn.get("params", [])[:2]]
        pts = ["other_error" if "other_error" in t or "strong_typedef" in t else ("missing_error" if "missing_error" in t else t) for t in pts]
        k = tuple(pts)
        if k in seen:
            continue
        seen.add(k)
        ret = u.ty(fn.get("ret")) or ""
        retk = "missing_error" if "missing_error" in ret else "other_error"
        want = "missing_error" if k == ("missing_error", "missing_error") else "other_error"
        why = None
        if retk != want:
            why = "combine(%s, %s) yields %s, specification %s: a hard error would become recoverable by optional / many" % (k[0], k[1], retk, want)
        elif want == "missing_error":
            rets = [T.show(T.snorm(u, fn, r["e"])) for r in F.walk(fn.get("body"), into_lambdas=False) if r.get("k") == "return"]
            if not rets or "r_a1.state()" not in rets[0]:
                why = "missing+missing does not carry the second error's state: %s" % rets
        key = "SUM-3|combine(%s,%s)" % k
        (rep.fail if why else rep.ok)("SUM-3", key, F.primary_site(fn), F.describe(fn)[:160], **({"why": why} if why else {"how": want}))
    # ---- CTX-OWN
    def strip_deref(t):
        while isinstance(t, tuple) and t[0] == "c" and str(t[1]).split("::")[-1] in ("deref", "parser") and (t[2] is not None or t[3]):
            t = t[2] if t[2] is not None else t[3][0]
        return t
    seen = set()
    for fn in db.functions:
        u = fn["_unit"]
        if not u.file_of(fn["primary"]).startswith("libs/options/"):
            continue
        for sub in [x for x in u.all_functions if F.top_function(x) is fn]:
            defs = {}
            for v in F.walk(sub.get("body"), into_lambdas=False):
                if v.get("k") == "var" and v.get("init") is not None:
                    defs[v["id"]] = v["init"]
            # also locals of the enclosing function captured by the lambda
            for v in F.walk(fn.get("body")):
                if v.get("k") == "var" and v.get("init") is not None:
                    defs.setdefault(v["id"], v["init"])
            for n in F.walk(sub.get("body"), into_lambdas=False):
                if n.get("k") != "call":
                    continue
                q = T.callee_qn(u, n) or ""
                if not (q.endswith("::parse") or q == "fcppt::options::detail::parse_to_empty"):
                    continue
                args = n.get("args", [])
                ctx = None
                for a in args:
                    if "parse_context" in (u.ty(T.unwrap(u, a).get("t")) or "") if T.unwrap(u, a) is not None else False:
                        ctx = a
                if ctx is None:
                    continue
                cn = T.unwrap(u, ctx)
                if cn is not None and cn.get("k") == "ref" and cn["id"] in defs:
                    cn = T.unwrap(u, defs[cn["id"]])
                if cn is None or cn.get("k") != "construct":
                    continue   # a context parameter passed through unchanged
                src = None
                for m in F.walk(cn):
                    if m.get("k") == "call" and (T.callee_qn(u, m) or "").endswith("::option_names") and m.get("recv") is not None:
                        src = strip_deref(T.norm(u, m["recv"]))
                target = n.get("recv") if q.endswith("::parse") else (args[0] if args else None)
                tgt = strip_deref(T.norm(u, target)) if target is not None else None
                loc = u.loc(n["loc"])
                key = "CTX-OWN|%s|%s" % (F.fn_name(fn).replace("fcppt::options::", ""), T.show(tgt))
                if (key, loc) in seen:
                    continue
                seen.add((key, loc))
                if src is not None and src == tgt:
                    rep.ok("CTX-OWN", key, loc, F.describe(fn)[:140], how="own option_names()")
                else:
                    rep.fail("CTX-OWN", key, loc, F.describe(fn)[:140],
                             why="parser `%s` is run with a context built from `%s`.option_names(): its own option values are not known, "
                                 "so an option's value can be taken as a positional argument" % (T.show(tgt), T.show(src) if src else "?"))
    # ---- ARGS-MUT
    ALLOWED = {
        "fcppt::options::detail::use_flag": ("erase1", "one element found by std::find"),
        "fcppt::options::detail::use_option": ("erase2", "the option name and its value: erase(pos, std::next(pos, 2))"),
        "fcppt::options::detail::pop_arg": ("erase1", "the positional found by next_arg"),
    }
    for fn in db.functions:
        u = fn["_unit"]
        name = F.fn_name(fn)
        if not u.file_of(fn["primary"]).startswith("libs/options/"):
            continue
        muts = []
        argvars = set()
        for v in F.walk(L.bodies(fn)):
            if v.get("k") == "var" and v.get("init") is not None and "state::args" in str(T.norm(u, v["init"])):
                argvars.add(v["id"])

        def from_state_args(x):
            t = T.norm(u, x)
            return "fcppt::options::state::args" in str(t) or bool(T.roots(t) & argvars)
        for n in F.walk(L.bodies(fn)):
            if n.get("k") != "call":
                continue
            q = T.callee_qn(u, n) or ""
            short = q.split("::")[-1]
            is_args = n.get("recv") is not None and q.startswith("std::vector") and from_state_args(n["recv"])
            if is_args and short in ("erase", "clear", "pop_back", "resize", "assign", "insert", "push_back", "emplace_back", "swap", "operator="):
                muts.append((short, n))
            if q in ("std::remove", "std::remove_if", "std::unique", "std::rotate", "std::sort", "std::partition", "std::stable_partition"):
                if n.get("args") and from_state_args(n["args"][0]):
                    muts.append((q, n))
            elif n.get("recv") is None and not q.startswith("fcppt::"):
                # any other function that receives the argument vector by non-const reference (std::erase, std::erase_if, ...)
                d = T.callee_decl(u, n)
                prefs = (d or {}).get("prefs", [])
                for i, a in enumerate(n.get("args", [])):
                    ax = T.unwrap(u, a)
                    if i < len(prefs) and prefs[i] == "lref" and ax is not None and ax.get("k") in ("ref", "call", "member") and from_state_args(a):
                        muts.append((q, n))
                        break
        if not muts:
            continue
        key = "ARGS-MUT|" + name.replace("fcppt::options::", "")
        if name not in ALLOWED:
            if name in ("fcppt::options::state::state",):
                continue
            rep.fail("ARGS-MUT", key, u.loc(muts[0][1]["loc"]), name, why="mutates the argument vector (%s) outside the token consumers" % muts[0][0])
            continue
        kind, text = ALLOWED[name]
        why = None
        if len(muts) != 1 or muts[0][0] != "erase":
            why = "mutations %s; allowed: exactly one erase of %s" % ([m[0] for m in muts], text)
        else:
            a = muts[0][1].get("args", [])
            if kind == "erase1" and len(a) != 1:
                why = "erases a range; allowed: exactly %s (every other occurrence must stay for the leftover check)" % text
            if kind == "erase2":
                ts = [T.show(T.snorm(u, fn, x)) for x in a]

                def offset(t):
                    """(base, k): the iterator term is base advanced by k (std::next / std::prev / + / -, named intermediates substituted)"""
                    k = 0
                    while isinstance(t, tuple) and t:
                        if t[0] == "new" and len(t[2]) == 1:
                            t = t[2][0]        # iterator conversion
                        elif t[0] == "c" and str(t[1]) in ("std::next", "std::prev") and len(t[3]) in (1, 2):
                            step = 1
                            if len(t[3]) == 2:
                                if not (t[3][1][0] == "k" and str(t[3][1][1]).rstrip("LlUu").lstrip("-").isdigit()):
                                    return None
                                step = int(str(t[3][1][1]).rstrip("LlUu"))
                            k += step if str(t[1]) == "std::next" else -step
                            t = t[3][0]
                        elif t[0] == "b" and t[1] in ("+", "-") and t[3][0] == "k" and str(t[3][1]).rstrip("LlUu").isdigit():
                            k += int(str(t[3][1]).rstrip("LlUu")) * (1 if t[1] == "+" else -1)
                            t = t[2]
                        else:
                            break
                    return (T.show(t), k)
                o = [offset(T.snorm(u, fn, x)) for x in a]
                if len(a) != 2 or None in o or o[0][1] != 0 or o[1] != (o[0][0], 2):
                    why = "erases %s; allowed: %s" % (ts, text)
        (rep.fail if why else rep.ok)("ARGS-MUT", key, u.loc(muts[0][1]["loc"]), name, **({"why": why} if why else {"how": text}))
    # ---- FLAG-TOK: token classification of is_flag (decision table over the shape of the token)
    fcfg = sx.Config(inline_prefixes=("fcppt::not_", "fcppt::optional::"), loop_bound=2)
    for fn in db.fns("fcppt::options::impl::is_flag")[:1]:
        why = None
        rows = {}
        try:
            ps = sx.Interp(db, fcfg).paths(fn)
        except sx.Unsupported as e:
            rep.broken("C03 FLAG-TOK: is_flag outside the interpreted fragment: %s" % e)
            ps = []
        for p_ in ps:
            begins = [i for i, e in enumerate(p_.events, 1) if e[0].split("<")[0].endswith("::begin")]
            ends = set("#%d:end" % i for i, e in enumerate(p_.events, 1) if e[0].split("<")[0].endswith("::end"))
            if len(begins) != 1:
                why = "the token is not scanned from begin() exactly once"
                break
            b = "#%d:begin" % begins[0]
            at_end, dash = {}, {}
            for a, v in p_.decisions:
                t = sx.show(a)
                m = re.match(r"^\((.*) == (#\d+:end)\)$", t)
                if m and m.group(2) in ends:
                    k = 0 if m.group(1) == b else (int(re.match(r"^\(%s \+ (\d+)\)$" % re.escape(b), m.group(1)).group(1)) if re.match(r"^\(%s \+ (\d+)\)$" % re.escape(b), m.group(1)) else None)
                    if k is not None:
                        at_end[k] = v
                        continue
                m = re.match(r"^\(deref\((.*)\) == 45\)$", t)
                if m:
                    inner = m.group(1)
                    k = 0 if inner == b else (int(re.match(r"^\(%s \+ (\d+)\)$" % re.escape(b), inner).group(1)) if re.match(r"^\(%s \+ (\d+)\)$" % re.escape(b), inner) else None)
                    if k is not None:
                        dash[k] = v
                        continue
                why = "unexpected decision %s" % t
            if why:
                break
            out = sx.show(p_.outcome[1])
            # shape of the token as far as the path looked at it
            if at_end.get(0) is True:
                shape = "empty"
            elif dash.get(0) is False:
                shape = "no leading dash"
            elif dash.get(0) is True and at_end.get(1) is True:
                shape = "-"
            elif dash.get(0) is True and dash.get(1) is True:
                shape = "--name"
            elif dash.get(0) is True and dash.get(1) is False:
                shape = "-name"
            else:
                why = "a path classifies the token without looking at its first two characters in order (decisions %s)" % [sx.show(a) for a, v in p_.decisions]
                break
            if shape in ("--name", "-name") and at_end.get(1) is not False:
                why = "the second character is read without checking that the token has one"
                break
            rows[shape] = out
        if not why:
            want = {"empty": "none", "no leading dash": "none", "-": "none", "--name": "long", "-name": "short"}
            if set(rows) != set(want):
                why = "token shapes distinguished: %s, expected %s" % (sorted(rows), sorted(want))
            else:
                for sh, o in rows.items():
                    if want[sh] == "none" and not o.endswith(":none"):
                        why = "a token of shape `%s` is classified as a flag (%s); it is an ordinary argument" % (sh, o)
                    elif want[sh] == "long" and not (o.endswith(":some") and "strong_typedef{0}" in o and ("next" in o or "+ 2)" in o)):
                        why = "`--name` is not a long flag whose name starts after the two dashes: %s" % o
                    elif want[sh] == "short" and not (o.endswith(":some") and "strong_typedef{1}" in o and "+ 1)" in o):
                        why = "`-name` is not a short flag whose name starts after the dash: %s" % o
        (rep.fail if why else rep.ok)("FLAG-TOK", "impl::is_flag", F.primary_site(fn), F.fn_name(fn), **({"why": why} if why else {"how": "5-row token table"}))
    # ---- CTOR-V
    want = {"fcppt::options::flag::flag": "fcppt::options::detail::check_short_long_names",
            "fcppt::options::option::option": "fcppt::options::detail::check_short_long_names",
            "fcppt::options::product::product": "fcppt::options::product::check_disjoint",
            "fcppt::options::commands::commands": "fcppt::options::detail::check_sub_command_names"}
    seen = set()
    for fn in db.functions:
        nm = F.fn_name(fn)
        if nm not in want or fn.get("kind") != "ctor" or fn.get("ctor_kind") in ("copy", "move") or nm in seen:
            continue
        u = fn["_unit"]
        calls = [(n, q) for (n, d, q) in L.calls_in(u, fn.get("body"), into_lambdas=False)]
        hit = [n for (n, q) in calls if q == want[nm]]
        key = "CTOR-V|" + nm
        if not hit:
            rep.fail("CTOR-V", key, F.primary_site(fn), F.describe(fn)[:160], why="constructor does not call %s" % want[nm])
            seen.add(nm)
            continue
        # arguments must be members (this->x_), not moved-from parameters
        bad = None
        for a in hit[0].get("args", []):
            t = T.norm(u, a)
            if T.roots(t) and -1 not in T.roots(t):
                bad = "validator is called with the constructor parameter %s, which was moved into the member" % T.show(t)
        seen.add(nm)
        (rep.fail if bad else rep.ok)("CTOR-V", key, F.primary_site(fn), F.describe(fn)[:160], **({"why": bad} if bad else {"how": "validates-members"}))
    rep.explanation = ("State-threading rules over the control skeleton of every options combinator instantiated with opaque stub "
                       "parsers (abstract interpretation, free Boolean atoms for success / error class), the leftover check as a "
                       "must-pass-through rule, a copy census of options::state, and constructor validation calls. Structural "
                       "content of 'every argument is consumed by exactly one sub-parser, nothing dropped'.")
    rep.trusted = ["clang 14 front end", "tagged-union model of either/variant (C04)", "C01's G/LOOP rules for the token scanners"]
    rep.assumptions = ["name matching inside use_flag / use_option and the next_arg scanner are not compared with a token-level reference semantics"]
