"""C10 bitfield is observationally a set of enumerators (DESIGN.md §6 C10): canonicity and mirroring.

 PAD     representation canonicity (padding lattice {Z, U}): ==, hash and is_subset_eq read whole storage
         words, so every function that builds or mutates a bitfield must leave the bits of the last word
         that belong to no enumerator zero. Word-wise |, &, ^ preserve Z; a word-wise ~ yields U and must be
         followed by masking the last word with exactly 2^(N mod B) - 1 (N enumerators, B bits per word;
         N and B are taken from the enum declaration and the word type, not from the code under test);
         null_array is all-zero; construction goes through null + set
 MIRROR  |=, &=, ^= apply the operator in their name word-wise to both arrays over the full range; the
         value forms delegate to the assigning forms; operator&(field, e) is get; is_subset_eq(l,r) is
         (l & r) == l; == compares the arrays; != is !(==); hash hashes the array == compares
 ADDR    proxy read and write derive (word, mask) from the position by the same functions, array_offset
         is / and bit_offset is % by the same element_bits; set uses |= mask, clear uses &= ~mask
Declined: numeric correctness of the masks beyond shift range (C01/C06 G).
"""
import os
import re

from engine import facts as F
from engine import load
from engine import plumbing as P
from engine import witness as W
from engine import lrules as L
from engine import regions as RG
from engine import sx
from engine import terms as T

LEVEL = "other"
BF = "fcppt::container::bitfield::"


def word_lambda_op(u, lam):
    """opcode applied by a word-wise lambda: ('bin', op) | ('un', op) | None"""
    ops = lam.get("ops", [])
    if len(ops) != 1:
        return None
    body = ops[0].get("body")
    rets = [n for n in F.walk(body) if n.get("k") == "return"]
    if len(rets) != 1:
        return None
    e = rets[0].get("e")
    while e is not None and e.get("k") in ("cast", "icast"):
        e = e.get("e")
    e = T.unwrap(u, e) if e is not None else None
    while e is not None and e.get("k") in ("cast", "icast"):
        e = T.unwrap(u, e.get("e"))
    if e is None:
        return None
    params = [p["id"] for p in ops[0].get("params", [])]

    def is_param(x, i):
        x = T.unwrap(u, x)
        while x is not None and x.get("k") in ("cast", "icast"):
            x = T.unwrap(u, x.get("e"))
        return x is not None and x.get("k") == "ref" and i < len(params) and x["id"] == params[i]
    if e.get("k") == "binop" and len(params) == 2 and is_param(e["l"], 0) and is_param(e["r"], 1):
        return ("bin", e["op"])
    if e.get("k") == "binop" and len(params) == 2 and e["op"] in ("|", "&", "^") and is_param(e["l"], 1) and is_param(e["r"], 0):
        return ("bin", e["op"])     # the bitwise word operators are commutative
    if e.get("k") == "unop" and len(params) == 1 and is_param(e["e"], 0):
        return ("un", e["op"])
    return None


def bit_accesses(u, fn):
    """the single-bit accesses a function body makes, whatever the spelling: X.set(I, V) and X[I] = V are ("set", X, I, V);
    X.get(I) and X[I] read as a value are ("get", X, I). Terms are shown strings."""
    out = []
    consumed = set()
    for n in F.walk(fn.get("body"), into_lambdas=False):
        if n.get("k") != "call":
            continue
        q = T.callee_qn(u, n) or ""
        if q.endswith("bitfield::object::set") and len(n.get("args", [])) == 2:
            out.append(("set", T.show(T.norm(u, n["recv"])), T.show(T.norm(u, n["args"][0])), T.show(T.norm(u, n["args"][1]))))
        elif q.endswith("bitfield::object::get") and len(n.get("args", [])) == 1:
            out.append(("get", T.show(T.norm(u, n["recv"])), T.show(T.norm(u, n["args"][0]))))
        elif q.endswith("bitfield::proxy::operator=") and n.get("recv") is not None and len(n.get("args", [])) == 1:
            r = T.unwrap(u, n["recv"])
            if r is not None and r.get("k") == "call" and (T.callee_qn(u, r) or "").endswith("bitfield::object::operator[]") and len(r.get("args", [])) == 1:
                consumed.add(id(r))
                out.append(("set", T.show(T.norm(u, r["recv"])), T.show(T.norm(u, r["args"][0])), T.show(T.norm(u, n["args"][0]))))
    for n in F.walk(fn.get("body"), into_lambdas=False):
        if n.get("k") == "call" and id(n) not in consumed and (T.callee_qn(u, n) or "").endswith("bitfield::object::operator[]") and len(n.get("args", [])) == 1:
            out.append(("get", T.show(T.norm(u, n["recv"])), T.show(T.norm(u, n["args"][0]))))
    return out


def transforms(u, fn):
    """std::transform calls over bitfield arrays: [(call node, lambda op, arg terms)]"""
    out = []
    for (n, d, qn) in L.calls_in(u, fn.get("body"), into_lambdas=False):
        if qn == "std::transform":
            args = n.get("args", [])
            lam = T.unwrap(u, args[-1]) if args else None
            if lam is not None and lam.get("k") == "construct" and lam.get("ctor") in ("copy", "move") and len(lam.get("args", [])) == 1:
                lam = T.unwrap(u, lam["args"][0])     # the function object is passed by value
            if lam is not None and lam.get("k") == "ref" and lam.get("dk") == "local":
                # a named word lambda (`auto const xor_words{[](..){..}}; transform(..., xor_words)`) stands for its initialiser
                inits = [v for v in F.walk(fn.get("body"), into_lambdas=False) if v.get("k") == "var" and v.get("id") == lam.get("id") and v.get("init") is not None]
                if len(inits) == 1 and lam.get("id") in T.const_local_defs(u, fn):
                    lam = T.unwrap(u, inits[0]["init"])
                    if lam is not None and lam.get("k") == "construct" and len(lam.get("args", [])) == 1:
                        lam = T.unwrap(u, lam["args"][0])
            op = word_lambda_op(u, lam) if lam is not None and lam.get("k") == "lambda" else None
            out.append((n, op, [T.show(T.snorm(u, fn, a)) for a in args[:-1]]))
    return out


def enum_size(db, enum_qn):
    for u in db.units:
        for e in u.enums:
            if e["qn"] == enum_qn:
                for x in e["enumerators"]:
                    if x["name"] == "fcppt_maximum":
                        return int(x["value"]) + 1
    return None


def main(rep, tier, only):
    rep.rule("W-words", "the storage array of a bitfield over N enumerators with B-bit words has exactly ceil(N / B) words "
                        "(type equality; a spare word would be complemented by operator~ without being masked)", floor=60)
    if only in (None, "W-words"):
        path = os.path.join(P.VERIF, "witness", "c10_bitfield.cpp")
        wits, fails = W.run_witness_file(P.cache_dir(), path)
        if None in fails:
            rep.broken("witness TU c10_bitfield.cpp has unattributed diagnostics: " + fails[None][0]["msg"])
        for (wid, text, a, z) in wits:
            site = "verif:witness/c10_bitfield.cpp:%d" % a
            if wid in fails:
                f = fails[wid]
                lib = next((x["lib_site"] for x in f if x["lib_site"]), None)
                rep.fail("W-words", wid, lib or "libs/core/include/fcppt/container/bitfield/array_fwd.hpp:1:1", text,
                         why="type equality does not hold: " + f[0]["msg"])
            else:
                rep.ok("W-words", wid, site, text, how="compiles")
    try:
        db = load.load(tier, lib=False, drivers=["drv_containers"], tests=False)
    except P.AnalysisBroken as e:
        if rep.viol:
            # the driver instantiates members (underlying_value of a one-word field) that become ill-formed when the
            # storage geometry is wrong: exactly what the failing witnesses above report
            rep.note("structural rules skipped: %s" % e)
            for r in ("PAD", "MIRROR", "ADDR"):
                if r in rep.rules:
                    rep.rules[r]["floor"] = 0
            return
        raise
    rep.extra.update(db.stats())
    rep.rule("PAD", "every operation that builds or mutates a bitfield leaves the unused bits of the last word zero "
                    "(word-wise |,&,^ preserve it; ~ must be followed by the exact last-word mask)", floor=20)
    rep.rule("MIRROR", "assigning operators apply the operator in their name word-wise to both arrays over the full range; "
                       "value forms delegate; is_subset_eq, ==, !=, hash read the whole array", floor=10)
    rep.rule("ADDR", "proxy read and write address the same (word, mask) for a position; / and % by the same element_bits", floor=4)
    # ---------------- assigning operators & complement
    byop = {"operator|=": "|", "operator&=": "&", "operator^=": "^"}
    seen = set()
    for fn in db.functions:
        u = fn["_unit"]
        name = F.fn_name(fn)
        if not name.startswith(BF + "operator"):
            continue
        short = name.split("::")[-1]
        params = fn.get("params", [])
        pt = [u.ty(p["t"]) or "" for p in params]
        ta = fn.get("targs") or []
        inst = ",".join(x.split("::")[-1] for x in ta)
        if short in byop and len(params) == 2 and "bitfield::object" in pt[1]:
            key = "%s(field,field)<%s>" % (short, inst)
            if key in seen:
                continue
            seen.add(key)
            tr = transforms(u, fn)
            why = None
            if len(tr) == 0:
                rep.broken("C10 MIRROR %s at %s: the operator is not written as a word-wise std::transform; this form is not followed" % (key, F.primary_site(fn)))
                continue
            if len(tr) != 1:
                why = "not exactly one word-wise std::transform"
            else:
                n, op, args = tr[0]
                if op != ("bin", byop[short]):
                    why = "the word-wise lambda applies %s, the operator's name says %s" % (op, byop[short])
                elif args != ["r_a0.array().begin()", "r_a0.array().end()", "r_a1.array().begin()", "r_a0.array().begin()"]:
                    why = "the transform does not range over [left.begin, left.end) x right.begin -> left.begin: %s" % args
            rets = [r for r in F.walk(fn.get("body"), into_lambdas=False) if r.get("k") == "return"]
            if not why and (len(rets) != 1 or T.show(T.norm(u, rets[0]["e"])) != "r_a0"):
                why = "does not return the left operand"
            (rep.fail if why else rep.ok)("MIRROR", key, F.primary_site(fn), F.describe(fn)[:160], **({"why": why} if why else {"how": "word-wise " + byop[short]}))
            (rep.ok)("PAD", key, F.primary_site(fn), F.describe(fn)[:160], how="Z-preserving word operator") if not why else None
        if short == "operator~":
            key = "operator~<%s>" % inst
            if key in seen:
                continue
            seen.add(key)
            tr = transforms(u, fn)
            N = enum_size(db, ta[0]) if ta else None
            r = RG.type_range(ta[1]) if len(ta) > 1 else None
            why = None
            if N is None or r is None:
                rep.broken("C10: cannot determine enumerator count / word width for %s" % key)
                continue
            B = r[2]
            used = N % B
            if len(tr) != 1 or tr[0][1] != ("un", "~"):
                why = "complement is not a word-wise ~ over the array"
            elif tr[0][2] != ["r_a0.array().begin()", "r_a0.array().end()", "r_a0.array().begin()"]:
                why = "the transform does not range over the whole array in place"
            if not why and used != 0:
                # a following write to the LAST word with value (last & mask), mask == 2^used - 1
                ok = False
                seen_mask = None
                for n in F.walk(fn.get("body")):
                    if n.get("k") in ("assign", "compound_assign"):
                        rhs = n.get("r")
                        for m in F.walk(rhs):
                            if m.get("k") == "binop" and m.get("op") == "&" or (n.get("k") == "compound_assign" and n.get("op") == "&="):
                                # the constant value of a whole operand of the & (not of literals inside it: for one used bit the
                                # literal 1 of `1 << used` would pass for the mask)
                                def top_const(x):
                                    while x is not None and x.get("c") is None and x.get("k") in ("cast", "icast", "paren") and x.get("e") is not None:
                                        x = x["e"]
                                    return x.get("c") if x is not None else None
                                if m.get("k") == "binop" and m.get("op") == "&":
                                    consts = [c for c in (top_const(m.get("l")), top_const(m.get("r"))) if c is not None]
                                else:
                                    consts = [c for c in (top_const(rhs),) if c is not None]
                                for c in consts:
                                    try:
                                        if int(c) == (1 << used) - 1:
                                            seen_mask = int(c)
                                    except ValueError:
                                        pass
                        tgt = T.show(T.norm(u, n.get("l")))
                        if seen_mask is not None:
                            # the target must be the last element of r_a0.array()
                            defs = {}
                            for v in F.walk(fn.get("body")):
                                if v.get("k") == "var" and v.get("init") is not None:
                                    defs[v.get("name")] = v["init"]
                            init = defs.get(tgt)
                            t2 = T.show(T.norm(u, init)) if init is not None else tgt
                            idxc = [x.get("c") for x in F.walk(init if init is not None else n.get("l")) if x.get("c") is not None]
                            words = (N + B - 1) // B
                            if "r_a0.array()" in t2 and str(words - 1) in idxc:
                                ok = True
                if not ok:
                    why = ("~ turns the %d unused bits of the last word on and they are not masked off with %d afterwards: "
                           "~null() != {all enumerators}, and hash / is_subset_eq disagree with the set" % (B - used, (1 << used) - 1))
            (rep.fail if why else rep.ok)("PAD", key, F.primary_site(fn), F.describe(fn)[:160],
                                          **({"why": why} if why else {"how": "masked" if used else "no-padding(N%%B==0)", "detail": {"N": N, "B": B}}))
        if short in ("operator|", "operator&", "operator^") and len(params) == 2:
            key = "%s(%s)<%s>" % (short, "field" if "bitfield::object" in pt[1] else "enumerator", inst)
            if key in seen:
                continue
            seen.add(key)
            calls = [q.split("::")[-1] for (_, _, q) in L.calls_in(u, fn.get("body"))]
            acc = bit_accesses(u, fn)
            rets_ = [T.show(T.snorm(u, fn, r["e"])) for r in F.walk(fn.get("body"), into_lambdas=False) if r.get("k") == "return" and r.get("e") is not None]
            if "bitfield::object" in pt[1] or short == "operator|":
                ok = (short + "=") in calls
                why = None if ok else "the value form does not delegate to %s=" % short
                if not ok and short == "operator|" and "bitfield::object" not in pt[1]:
                    # operator|=(field, enumerator) written out on the by-value copy: set bit `enumerator` of it, return it
                    ok = [a for a in acc if a[0] == "set"] == [("set", "r_a0", "r_a1", "1")] and len(rets_) == 1 and re.sub(r"^fcppt::container::bitfield::object\{(.*)\}$", r"\1", rets_[0]) == "r_a0"
                    why = None if ok else "field | enumerator neither delegates to |= nor sets exactly that bit of its copy and returns it (%s; returns %s)" % (acc, rets_)
            else:
                ok = [a for a in acc if a[0] == "get"] == [("get", "r_a0", "r_a1")] and not [a for a in acc if a[0] == "set"]
                why = None if ok else "operator&(field, enumerator) is not the value of bit `enumerator` of the field (%s)" % (acc,)
            (rep.fail if why else rep.ok)("MIRROR", key, F.primary_site(fn), F.describe(fn)[:160], **({"why": why} if why else {"how": "delegates"}))
        if short in ("operator|=",) and len(params) == 2 and "bitfield::object" not in pt[1]:
            key = "operator|=(enumerator)<%s>" % inst
            if key in seen:
                continue
            seen.add(key)
            st = [a for a in bit_accesses(u, fn) if a[0] == "set"]
            ok = st == [("set", "r_a0", "r_a1", "1")]
            (rep.ok if ok else rep.fail)("MIRROR", key, F.primary_site(fn), F.describe(fn)[:160], **({"how": "set(index,true)"} if ok else {"why": "field |= enumerator is %s" % st}))
        if short in ("operator==", "operator!="):
            key = "%s<%s>" % (short, inst)
            if key in seen:
                continue
            seen.add(key)
            rets = [r for r in F.walk(fn.get("body"), into_lambdas=False) if r.get("k") == "return"]
            t = T.show(T.snorm(u, fn, rets[0]["e"])) if rets else ""
            if short == "operator==":
                t2 = re.sub(r"\s", "", t)
                ok = t2 in ("operator==(r_a0.array(),r_a1.array())", "(r_a0.array()==r_a1.array())",
                            "operator==(r_a1.array(),r_a0.array())", "(r_a1.array()==r_a0.array())")
                if not ok:
                    # the arrays have one static size: std::equal over [begin, end) of one and begin (or [begin, end)) of the other
                    m_ = re.match(r"^(?:std::)?equal\((r_a[01])\.array\(\)\.c?begin\(\),\1\.array\(\)\.c?end\(\),(r_a[01])\.array\(\)\.c?begin\(\)(?:,\2\.array\(\)\.c?end\(\))?\)$", t2)
                    ok = bool(m_) and m_.group(1) != m_.group(2)
                why = "== is not the comparison of the two whole storage arrays (%s): the representation is canonical (PAD), so == compares it as it is" % t
            else:
                ok = t.startswith("!") and "==" in t
                why = "!= is not the negation of == (%s)" % t
            (rep.ok if ok else rep.fail)("MIRROR", key, F.primary_site(fn), F.describe(fn)[:160], **({"how": t} if ok else {"why": why}))
    for fn in db.fns(BF + "is_subset_eq"):
        u = fn["_unit"]
        key = "is_subset_eq<%s>" % ",".join(x.split("::")[-1] for x in (fn.get("targs") or []))
        if key in seen:
            continue
        seen.add(key)
        rets = [r for r in F.walk(fn.get("body"), into_lambdas=False) if r.get("k") == "return"]
        t = T.show(T.snorm(u, fn, rets[0]["e"])) if rets else ""
        t = re.sub(r"fcppt::container::bitfield::object\{([^}]*)\}", r"\1", t)   # by-value copy of an operand
        tn = re.sub(r"\s", "", t)
        ok = tn in ("operator==(operator&(r_a0,r_a1),r_a0)", "(operator&(r_a0,r_a1)==r_a0)", "operator==(r_a0,operator&(r_a0,r_a1))", "(r_a0==operator&(r_a0,r_a1))") \
            or ("operator&(r_a0, r_a1)" in t and t.endswith("r_a0)") and "==" in t)      # == is symmetric: either operand order
        (rep.ok if ok else rep.fail)("MIRROR", key, F.primary_site(fn), F.describe(fn)[:160], **({"how": "(l & r) == l"} if ok else {"why": "is_subset_eq is %s, specification (l & r) == l" % t}))
    for fn in db.functions:
        if F.fn_name(fn) == BF + "hash::operator()":
            u = fn["_unit"]
            key = "hash<%s>" % ",".join((fn.get("rec_targs") or ["?"]))[:80]
            if key in seen:
                continue
            seen.add(key)
            rets = [r for r in F.walk(fn.get("body"), into_lambdas=False) if r.get("k") == "return"]
            t = T.show(T.snorm(u, fn, rets[0]["e"])) if rets else ""
            ok = "r_a0.array()" in t
            how = "hashes array()"
            if not ok and len(rets) == 1:
                # the fold written out: `for (e : field.array()) acc = f(acc, g(e)); return acc;`
                r0 = T.unwrap(u, rets[0]["e"])
                while r0 is not None and r0.get("k") in ("cast", "icast", "construct") and (r0.get("e") is not None or len(r0.get("args", [])) == 1):
                    r0 = T.unwrap(u, r0.get("e") if r0.get("e") is not None else r0["args"][0])
                acc = r0.get("id") if r0 is not None and r0.get("k") == "ref" and r0.get("dk") == "local" else None
                loops = [x for x in F.walk(fn.get("body"), into_lambdas=False) if x.get("k") in ("range_for", "for", "while", "do")]
                if acc is not None and len(loops) == 1 and loops[0]["k"] == "range_for" and loops[0].get("var") is not None \
                        and re.sub(r"\s", "", T.show(T.snorm(u, fn, loops[0].get("range")))) == "r_a0.array()":
                    ev = loops[0]["var"]["id"]
                    ups = [x for x in F.walk(loops[0].get("body"), into_lambdas=False) if x.get("k") in ("assign", "compound_assign") or (x.get("k") == "call" and x.get("opcall") in ("=", "+=", "^=", "|="))]
                    def refs(n):
                        return {m.get("id") for m in F.walk(n) if m.get("k") == "ref"}
                    good = [x for x in ups if (T.unwrap(u, x.get("l") if x.get("l") is not None else x.get("recv")) or {}).get("id") == acc
                            and ev in refs(x.get("r") if x.get("r") is not None else x.get("args"))
                            and (x.get("k") == "compound_assign" or x.get("opcall") in ("+=", "^=", "|=") or acc in refs(x.get("r") if x.get("r") is not None else x.get("args")))]
                    jumps = [x for x in F.walk(loops[0].get("body"), into_lambdas=False) if x.get("k") in ("break", "return", "continue", "goto", "if", "switch")]
                    if good and len(good) == len(ups) and not jumps:
                        ok, how = True, "loop over array() folding every word into the result"
                if not ok and any("r_a0.array()" in T.show(T.norm(u, x)) for x in F.walk(fn.get("body")) if x.get("k") == "call"):
                    rep.broken("C10 MIRROR %s at %s: hash reads array() in a form this rule does not follow (neither range::hash(array()) nor a plain fold loop)" % (key, F.primary_site(fn)))
                    continue
            (rep.ok if ok else rep.fail)("MIRROR", key, F.primary_site(fn), F.describe(fn)[:160], **({"how": how} if ok else {"why": "hash does not fold the array that == compares (%s)" % t}))
    # ---------------- null_array / construction
    for fn in db.fns(BF + "detail::null_array"):
        u = fn["_unit"]
        key = "null_array<%s>" % ",".join(fn.get("targs") or [])[:60]
        if key in seen:
            continue
        seen.add(key)
        consts = [n.get("c") for n in F.walk(fn.get("body")) if n.get("k") == "lit" and "c" in n]
        ok = consts and all(c == "0" for c in consts)
        (rep.ok if ok else rep.fail)("PAD", key, F.primary_site(fn), F.describe(fn)[:160], **({"how": "all-zero"} if ok else {"why": "null_array is not all-zero: %s" % consts}))
    # init: built from the all-zero object by set() only (an uninitialised start leaves the padding bits to chance)
    n_init = 0
    for fn in db.fns(BF + "init"):
        u = fn["_unit"]
        key = "init<%s>" % ",".join(str(x) for x in (fn.get("targs") or [])[:1])[:70]
        if key in seen:
            continue
        seen.add(key)
        n_init += 1
        locs = [v for v in F.walk(fn.get("body"), into_lambdas=False) if v.get("k") == "var" and BF + "object" in (u.ty(v.get("t")) or "")]
        rets = [r for r in F.walk(fn.get("body"), into_lambdas=False) if r.get("k") == "return"]
        why = None
        if len(locs) != 1 or len(rets) != 1:
            why = "init is not `result = null(); set(...)...; return result`"
        else:
            calls = [T.callee_qn(u, c) for c in F.walk(locs[0].get("init")) if c.get("k") == "call"]
            cons = [c for c in F.walk(locs[0].get("init")) if c.get("k") == "construct" and any("no_init" in (u.ty(a.get("t")) or "") for a in c.get("args", []))]
            if cons or BF + "object::null" not in calls:
                why = "the result of init does not start from null(): %s" % T.show(T.norm(u, locs[0].get("init")))
            else:
                muts = [T.callee_qn(u, c) for c in F.walk(fn.get("body")) if c.get("k") == "call" and c.get("recv") is not None
                        and T.unwrap(u, c["recv"]) is not None and T.unwrap(u, c["recv"]).get("k") == "ref" and T.unwrap(u, c["recv"]).get("id") == locs[0]["id"]]
                if any(m not in (BF + "object::set",) for m in muts):
                    why = "init modifies its result through %s" % [m for m in muts if m != BF + "object::set"]
        (rep.fail if why else rep.ok)("PAD", key, F.primary_site(fn), F.describe(fn)[:160], **({"why": why} if why else {"how": "null() + set"}))
    if n_init == 0:
        rep.broken("C10: bitfield::init is not instantiated")
    # INIT (under MIRROR): element e is in init<Result>(f) exactly when f(e) converts to true -- decided on the paths of the
    # instantiation whose predicate returns `unsigned` (a result that is only convertible to bool): for every enumerator in order the
    # predicate is called once, and its result itself decides the membership (passed to set, or tested for truth); a comparison
    # of the result with a constant (`f(e) == true`) is a different predicate for such a function
    icfg = sx.Config(inline_prefixes=(), pure=("fcppt::enum_::make_range", BF + "object::null"), loop_bound=2)
    seen_i = set()
    for fn in db.fns(BF + "init"):
        ta = fn.get("targs") or []
        if len(ta) < 2 or "unsigned int" not in ta[1] or ta[0] in seen_i:
            continue
        seen_i.add(ta[0])
        key = "init<%s>(non-bool predicate)" % ta[0].replace(BF, "").replace("drv_c::", "")
        try:
            ps = sx.Interp(db, icfg).paths(fn)
        except sx.Unsupported as e:
            rep.broken("C10 MIRROR %s: outside the interpreted fragment: %s" % (key, e))
            continue
        why = None
        sizes = set()
        for p_ in ps:
            if p_.outcome[0] != "return":
                continue
            n = len([1 for d, v in p_.decisions if isinstance(d, tuple) and d and d[0] == "more" and v])
            sizes.add(n)
            calls = [(i, e) for i, e in enumerate(p_.events, 1) if e[0] == "call"]
            sets = [(i, e) for i, e in enumerate(p_.events, 1) if e[0].split("<")[0] == BF + "object::set"]
            if [sx.show(e[1][1]) for i, e in calls] != ["make_range()[%d]" % k for k in range(n)] or any(sx.show(e[1][0]) != fn["params"][0]["name"] for i, e in calls):
                why = "for %d enumerators the predicate is called on %s, expected once on each enumerator in order" % (n, [sx.show(e[1][1]) for i, e in calls])
                break
            dec = [(d, v) for d, v in p_.decisions if not (isinstance(d, tuple) and d and d[0] == "more")]
            truth = {}
            for d, v in dec:
                if isinstance(d, tuple) and d and d[0] == "ev" and any(i == d[1] for i, e in calls):
                    truth[d[1]] = v
                else:
                    why = "membership is decided by `%s`; expected the predicate's result itself (converted to bool): for a predicate returning a non-bool value the comparison is a different test" % sx.show(d)
                    break
            if why:
                break
            for k, (ci, ce) in enumerate(calls):
                mine = [(i, e) for i, e in sets if sx.show(e[1][1]) == "make_range()[%d]" % k]
                if ci in truth:
                    good = (len(mine) == 1 and sx.show(mine[0][1][1][2]) in ("1", "true")) if truth[ci] else (not mine or (len(mine) == 1 and sx.show(mine[0][1][1][2]) in ("0", "false")))
                else:
                    good = len(mine) == 1 and isinstance(mine[0][1][1][2], tuple) and mine[0][1][1][2][:2] == ("ev", ci)
                if not good:
                    why = "enumerator %d: the bit is set from %s, expected from the predicate's own result for that enumerator" % (k, [sx.show(e[1][2]) for i, e in mine])
                    break
            if why:
                break
        if not why and not ({0, 1, 2} <= sizes):
            why = "not every range length (0, 1, 2 enumerators) has a complete path"
        (rep.fail if why else rep.ok)("MIRROR", key, F.primary_site(fn), F.describe(fn)[:160], **({"why": why} if why else {"how": "bit e := bool(f(e)), every e once, in order"}))
    for fn in L.method_fns(db, BF + "object"):
        u = fn["_unit"]
        if fn.get("kind") == "ctor" and fn.get("ctor_kind") == "other":
            pts = [u.ty(p["t"]) or "" for p in fn.get("params", [])]
            key = "object::object(%s)" % ",".join(x.split("<")[0].split("::")[-1] for x in pts)
            if key in seen:
                continue
            seen.add(key)
            if "initializer_list" in " ".join(pts):
                init = next((i for i in fn.get("inits", []) if i.get("field") == "array_"), None)
                t = T.show(T.norm(u, init["init"])) if init else ""
                sets = [q for (_, _, q) in L.calls_in(u, fn.get("body")) if q.endswith("::set") or q.endswith("bitfield::proxy::operator=")]   # set(e, v) is (*this)[e] = v
                ok = "null_array" in t and sets
                (rep.ok if ok else rep.fail)("PAD", key, F.primary_site(fn), F.describe(fn)[:160], **({"how": "null_array + set"} if ok else {"why": "initializer-list construction is not null_array + set: %s" % t}))
    # ---------------- proxy addressing
    pseen = set()
    for fn in L.method_fns(db, BF + "proxy"):
        u = fn["_unit"]
        nm = F.fn_name(fn).split("::")[-1]
        rets = [r for r in F.walk(fn.get("body"), into_lambdas=False) if r.get("k") == "return"]
        key = "proxy::" + nm
        if key in pseen:
            continue
        if nm in ("array_offset", "bit_offset"):
            pseen.add(key)
            e = T.unwrap(u, rets[0]["e"]) if rets else None
            op = e.get("op") if e is not None and e.get("k") == "binop" else None
            want = "/" if nm == "array_offset" else "%"
            rterm = T.show(T.norm(u, e["r"])) if op else ""
            lterm = T.show(T.norm(u, e["l"])) if op else ""
            ok = op == want and lterm == "r_a0" and "element_bits" in rterm or (op == want and lterm == "r_a0")
            (rep.ok if ok else rep.fail)("ADDR", key, F.primary_site(fn), F.describe(fn)[:160],
                                         **({"how": "pos %s element_bits" % want} if ok else {"why": "%s is `%s %s %s`, specification pos %s element_bits" % (nm, lterm, op, rterm, want)}))
            # same divisor constant in both
            continue
        if nm == "operator=" and fn.get("params") and "bool" in (u.ty(fn["params"][0]["t"]) or ""):
            pseen.add(key)
            body = fn.get("body")
            # locals are substituted by their initialisers: the rule sees the addresses actually used, however they are named or inlined
            defs = {}
            for v in F.walk(body, into_lambdas=False):
                if v.get("k") == "var" and v.get("init") is not None and "id" in v:
                    defs[v["id"]] = T.norm(u, v["init"], defs)

            def shown(x):
                return T.show(T.norm(u, x, defs)).replace("this.", "").replace("this->", "")
            why = None
            # the word stored for _value == true and for _value == false, however the two cases are spelled (if / else over
            # compound assignments, one assignment of a conditional expression, named old word): exactly one store per case,
            # to word[array_offset(pos_)], of `old | mask` resp. `old & ~mask` with mask = bit_mask(bit_offset(pos_))
            vname = fn["params"][0]["name"]

            def strip(t):
                while isinstance(t, tuple) and t and t[0] == "cast":
                    t = t[2]
                if isinstance(t, tuple):
                    return tuple(strip(x) if isinstance(x, tuple) else x for x in t)
                return t

            def stores(st, val):
                """[(target term, value term)] executed by statement st when _value == val; None when the shape is not followed"""
                if st is None:
                    return []
                k_ = st.get("k")
                if k_ == "compound":
                    out = []
                    for c in st.get("ch", []):
                        r_ = stores(c, val)
                        if r_ is None:
                            return None
                        out += r_
                    return out
                if k_ in ("decl", "null"):
                    return []
                if k_ == "return":
                    return []
                if k_ == "if":
                    c_ = T.show(T.norm(u, st["cond"], defs))
                    if c_ == vname:
                        return stores(st.get("then") if val else st.get("else"), val)
                    if c_ == "!" + vname:
                        return stores(st.get("else") if val else st.get("then"), val)
                    return None
                if k_ == "compound_assign" and st.get("op") in ("|=", "&="):
                    tgt = strip(T.norm(u, st["l"], defs))
                    return [(tgt, ("b", st["op"][0], tgt, strip(T.norm(u, st["r"], defs))))]
                if k_ == "assign":
                    tgt = strip(T.norm(u, st["l"], defs))
                    v_ = strip(T.norm(u, st["r"], defs))
                    if isinstance(v_, tuple) and v_ and v_[0] == "cond":
                        c_ = T.show(v_[1])
                        if c_ == vname:
                            v_ = v_[2] if val else v_[3]
                        elif c_ == "!" + vname:
                            v_ = v_[3] if val else v_[2]
                        else:
                            return None
                    return [(tgt, v_)]
                return None
            for val in (True, False):
                sts = stores(body, val)
                if sts is None:
                    rep.broken("C10 ADDR %s(bool) at %s: the assignment is written in a form this rule does not follow" % (key, F.primary_site(fn)))
                    why = "broken"
                    break
                if len(sts) != 1:
                    why = "for _value == %s the proxy stores %d words, expected exactly one" % (str(val).lower(), len(sts))
                    break
                tgt, v_ = sts[0]
                tt_ = T.show(tgt).replace("this.", "").replace("this->", "")
                if "get_unsafe(array_offset(pos_))" not in tt_:
                    why = "the word written is %s, expected word[array_offset(pos_)]" % tt_
                    break

                def is_mask(t):
                    return "bit_mask(bit_offset(pos_))" in T.show(t).replace("this.", "").replace("this->", "") and "~" not in T.show(t)
                okv = False
                if isinstance(v_, tuple) and v_ and v_[0] == "b" and v_[1] == ("|" if val else "&"):
                    for (x, y) in ((v_[2], v_[3]), (v_[3], v_[2])):
                        if x == tgt and (is_mask(y) if val else (isinstance(y, tuple) and y and y[0] == "u" and y[1] == "~" and is_mask(y[2]))):
                            okv = True
                if not okv:
                    why = "%s a bit stores %s, expected `word %s`" % ("setting" if val else "clearing", T.show(v_).replace("this.", ""), "| bit_mask(bit_offset(pos_))" if val else "& ~bit_mask(bit_offset(pos_))")
                    break
            if why == "broken":
                continue
            (rep.fail if why else rep.ok)("ADDR", key + "(bool)", F.primary_site(fn), F.describe(fn)[:160], **({"why": why} if why else {"how": "index/bit/mask from pos_; |= mask / &= ~mask"}))
        if fn.get("kind") == "conversion":
            if "proxy::conversion" in pseen:
                continue
            pseen.add("proxy::conversion")
            t = T.show(T.snorm(u, fn, rets[0]["e"])) if rets else ""
            tt = t.replace("this->", "").replace("this.", "")
            ok = "test(" in tt and "array_offset(pos_)" in tt and "bit_mask(" in tt and "bit_offset(pos_)" in tt
            (rep.ok if ok else rep.fail)("ADDR", "proxy::operator value_type", F.primary_site(fn), F.describe(fn)[:160],
                                         **({"how": "test(word[array_offset(pos_)], bit_mask(bit_offset(pos_)))"} if ok else {"why": "read is %s" % t}))
    rep.explanation = ("Pattern rules over the type-resolved AST of every bitfield operator / proxy member instantiated in drv_containers "
                       "(5 enum sizes x 4 word types). PAD uses N (from the enum declaration) and B (from the word type) to compute the "
                       "required last-word mask independently of the code. Canonical representation is what makes ==, hash and "
                       "is_subset_eq agree with set equality however a value was computed.")
    rep.trusted = ["clang 14 front end and constant folder", "std::transform applies the functor to every element pair of the given range"]
