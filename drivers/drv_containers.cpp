// Instantiation driver: container helpers and containers (raw_vector, buffer, dynamic_array, tree,
// bitfield, index_map, move_range), intrusive list, signals, move_clear.
//
// Notes
//  * Explicit instantiation definitions (`template class X<...>;`) instantiate every non-template
//    member; member templates (iterator constructors, insert(In, In), sort(Predicate)) are
//    instantiated by calls in DRV functions.
//  * fcppt/container/bitfield/comparison.hpp only has operator== and operator!= (no operator<).
//  * There is no fcppt/container/tree/is_root.hpp in this checkout.
//  * Library code that does not compile and is therefore not instantiated:
//      - bitfield::object<E, W>::object(fcppt::no_init const &)
//        (container/bitfield/object_impl.hpp:15), which also prevents `template class`
//        instantiation of bitfield::object
//      - container::find_opt on a non-const std::set (container/find_opt.hpp:35)
#include "drv.hpp"

#include <fcppt/move_clear.hpp>
#include <fcppt/no_init.hpp>
#include <fcppt/container/at_optional.hpp>
#include <fcppt/container/dynamic_array.hpp>
#include <fcppt/container/find_opt.hpp>
#include <fcppt/container/find_opt_iterator.hpp>
#include <fcppt/container/find_opt_mapped.hpp>
#include <fcppt/container/get_or_insert.hpp>
#include <fcppt/container/get_or_insert_result.hpp>
#include <fcppt/container/get_or_insert_with_result.hpp>
#include <fcppt/container/index_map.hpp>
#include <fcppt/container/join.hpp>
#include <fcppt/container/make_move_range.hpp>
#include <fcppt/container/maybe_back.hpp>
#include <fcppt/container/maybe_front.hpp>
#include <fcppt/container/move_range_impl.hpp>
#include <fcppt/container/pop_back.hpp>
#include <fcppt/container/pop_front.hpp>
#include <fcppt/container/bitfield/comparison.hpp>
#include <fcppt/container/bitfield/hash.hpp>
#include <fcppt/container/bitfield/init.hpp>
#include <fcppt/container/bitfield/is_subset_eq.hpp>
#include <fcppt/container/bitfield/object.hpp>
#include <fcppt/container/bitfield/operators.hpp>
#include <fcppt/container/bitfield/output.hpp>
#include <fcppt/container/bitfield/proxy.hpp>
#include <fcppt/container/bitfield/std_hash.hpp>
#include <fcppt/container/bitfield/underlying_value.hpp>
#include <fcppt/container/buffer/append_from.hpp>
#include <fcppt/container/buffer/append_from_opt.hpp>
#include <fcppt/container/buffer/object.hpp>
#include <fcppt/container/buffer/read_from.hpp>
#include <fcppt/container/buffer/read_from_opt.hpp>
#include <fcppt/container/buffer/to_raw_vector.hpp>
#include <fcppt/container/raw_vector/comparison.hpp>
#include <fcppt/container/raw_vector/object.hpp>
#include <fcppt/container/raw_vector/rep_impl.hpp>
#include <fcppt/container/tree/child_position.hpp>
#include <fcppt/container/tree/comparison.hpp>
#include <fcppt/container/tree/depth.hpp>
#include <fcppt/container/tree/level.hpp>
#include <fcppt/container/tree/make_pre_order.hpp>
#include <fcppt/container/tree/make_to_root.hpp>
#include <fcppt/container/tree/map.hpp>
#include <fcppt/container/tree/object.hpp>
#include <fcppt/container/tree/output.hpp>
#include <fcppt/container/tree/pre_order.hpp>
#include <fcppt/container/tree/to_root.hpp>
#include <fcppt/enum/to_string_impl_fwd.hpp>
#include <fcppt/intrusive/base.hpp>
#include <fcppt/intrusive/list.hpp>
#include <fcppt/optional/object_impl.hpp>
#include <fcppt/signal/auto_connection.hpp>
#include <fcppt/signal/base.hpp>
#include <fcppt/signal/connection.hpp>
#include <fcppt/signal/object.hpp>
#include <fcppt/signal/unregister/base.hpp>
#include <fcppt/signal/unregister/function.hpp>

#include <cstddef>
#include <deque>
#include <forward_list>
#include <functional>
#include <initializer_list>
#include <istream>
#include <iterator>
#include <list>
#include <map>
#include <memory>
#include <ostream>
#include <set>
#include <string>
#include <string_view>
#include <unordered_map>
#include <utility>
#include <vector>

namespace drv_c
{
using vec = std::vector<int>;
using deq = std::deque<int>;
using lst = std::list<int>;
using str = std::string;
using map = std::map<int, std::string>;
using set = std::set<int>;
using umap = std::unordered_map<int, std::string>;
}

// ---------------------------------------------------------------------------------------------
// container helpers
// ---------------------------------------------------------------------------------------------
#define M(C) \
  (void)fcppt::container::at_optional(drv::lv<C>(), drv::make<C::size_type>()); \
  (void)fcppt::container::at_optional(drv::clv<C>(), drv::make<C::size_type>());
DRV(drv_container_at_optional) { M(drv_c::vec) M(drv_c::deq) M(drv_c::str) }
#undef M

#define M(C) \
  (void)fcppt::container::maybe_front(drv::lv<C>()); \
  (void)fcppt::container::maybe_front(drv::clv<C>());
DRV(drv_container_maybe_front) { M(drv_c::vec) M(drv_c::deq) M(drv_c::lst) M(drv_c::str) }
#undef M

#define M(C) \
  (void)fcppt::container::maybe_back(drv::lv<C>()); \
  (void)fcppt::container::maybe_back(drv::clv<C>());
DRV(drv_container_maybe_back) { M(drv_c::vec) M(drv_c::deq) M(drv_c::lst) M(drv_c::str) }
#undef M

#define M(C) (void)fcppt::container::pop_back(drv::lv<C>());
DRV(drv_container_pop_back) { M(drv_c::vec) M(drv_c::deq) M(drv_c::lst) M(drv_c::str) }
#undef M

#define M(C) (void)fcppt::container::pop_front(drv::lv<C>());
DRV(drv_container_pop_front) { M(drv_c::deq) M(drv_c::lst) }
#undef M

#define M(C) \
  (void)fcppt::container::find_opt_iterator(drv::lv<C>(), drv::clv<int>()); \
  (void)fcppt::container::find_opt_iterator(drv::clv<C>(), drv::clv<int>());
DRV(drv_container_find_opt_iterator) { M(drv_c::map) M(drv_c::set) M(drv_c::umap) }
#undef M

#define M(C) \
  (void)fcppt::container::find_opt(drv::lv<C>(), drv::clv<int>()); \
  (void)fcppt::container::find_opt(drv::clv<C>(), drv::clv<int>());
DRV(drv_container_find_opt)
{
  M(drv_c::map)
  M(drv_c::umap)
  // find_opt on a non-const std::set does not compile (find_opt.hpp:35: the result type is
  // optional::reference<int> but set iterators dereference to int const)
  (void)fcppt::container::find_opt(drv::clv<drv_c::set>(), drv::clv<int>());
}
#undef M

#define M(C) \
  (void)fcppt::container::find_opt_mapped(drv::lv<C>(), drv::clv<int>()); \
  (void)fcppt::container::find_opt_mapped(drv::clv<C>(), drv::clv<int>());
DRV(drv_container_find_opt_mapped) { M(drv_c::map) M(drv_c::umap) }
#undef M

#define M(C) \
  (void)fcppt::container::get_or_insert( \
      drv::lv<C>(), drv::clv<int>(), drv::clv<drv::fn<std::string(int const &)>>()); \
  (void)fcppt::container::get_or_insert_with_result( \
      drv::lv<C>(), drv::clv<int>(), drv::clv<drv::fn<std::string(int const &)>>()) \
      .inserted(); \
  (void)fcppt::container::get_or_insert_with_result( \
      drv::lv<C>(), drv::clv<int>(), drv::clv<drv::fn<std::string(int const &)>>()) \
      .element();
DRV(drv_container_get_or_insert) { M(drv_c::map) M(drv_c::umap) }
#undef M

#define M(C) \
  (void)fcppt::container::join(drv::clv<C>()); \
  (void)fcppt::container::join(drv::clv<C>(), drv::clv<C>()); \
  (void)fcppt::container::join(drv::lv<C>(), drv::clv<C>(), drv::make<C>()); \
  (void)fcppt::container::join(drv::make<C>(), drv::make<C>()); \
  (void)fcppt::container::join(drv::make<C>(), drv::clv<C>());
DRV(drv_container_join)
{
  M(drv_c::vec)
  M(drv_c::deq)
  M(drv_c::lst)
  M(drv_c::str)
  M(drv_c::map)
  M(drv_c::set)
  M(drv_c::umap)
}
#undef M

#define M(C) \
  { \
    for (auto &&element : fcppt::container::make_move_range(drv::make<C>())) \
    { \
      (void)element; \
    } \
    for (auto const &element : drv::clv<fcppt::container::move_range<C>>()) \
    { \
      (void)element; \
    } \
    fcppt::container::move_range<C> moved{drv::make<fcppt::container::move_range<C>>()}; \
    moved = drv::make<fcppt::container::move_range<C>>(); \
  }
DRV(drv_container_make_move_range) { M(drv_c::vec) M(drv_c::deq) M(drv_c::lst) M(drv_c::str) }
#undef M

template class fcppt::container::index_map<int>;
template class fcppt::container::index_map<std::string>;
template class fcppt::container::index_map<fcppt::optional::object<int>>;

DRV(drv_container_index_map)
{
  using map_type = fcppt::container::index_map<int>;
  map_type fresh{};
  (void)fresh[drv::make<map_type::size_type>()];
  (void)drv::lv<map_type>().get(
      drv::make<map_type::size_type>(), map_type::insert_function{drv::make<drv::fn<int()>>()});
  (void)drv::clv<map_type>().impl();
}

#define M(T) (void)fcppt::move_clear(drv::lv<T>());
DRV(drv_move_clear)
{
  M(drv_c::vec)
  M(drv_c::deq)
  M(drv_c::lst)
  M(drv_c::str)
  M(drv_c::map)
  M(drv_c::set)
  M(drv_c::umap)
  M(std::unique_ptr<int>)
  M(int)
}
#undef M

// ---------------------------------------------------------------------------------------------
// raw_vector
// ---------------------------------------------------------------------------------------------
template class fcppt::container::raw_vector::object<int>;
template class fcppt::container::raw_vector::object<char>;
template class fcppt::container::raw_vector::rep<std::allocator<int>>;
template class fcppt::container::raw_vector::rep<std::allocator<char>>;

#define M(T) \
  { \
    using rv = fcppt::container::raw_vector::object<T>; \
    /* forward iterators */ \
    rv from_ptr(drv::make<T const *>(), drv::make<T const *>()); \
    rv from_ptr_alloc(drv::make<T const *>(), drv::make<T const *>(), drv::clv<rv::allocator_type>()); \
    rv from_list( \
        drv::make<std::list<T>::const_iterator>(), drv::make<std::list<T>::const_iterator>()); \
    /* input iterators */ \
    rv from_stream(drv::make<std::istream_iterator<T>>(), drv::make<std::istream_iterator<T>>()); \
    drv::lv<rv>().insert( \
        drv::make<rv::iterator>(), drv::make<T const *>(), drv::make<T const *>()); \
    drv::lv<rv>().insert( \
        drv::make<rv::iterator>(), \
        drv::make<std::vector<T>::const_iterator>(), \
        drv::make<std::vector<T>::const_iterator>()); \
    drv::lv<rv>().insert( \
        drv::make<rv::iterator>(), \
        drv::make<std::istream_iterator<T>>(), \
        drv::make<std::istream_iterator<T>>()); \
    swap(drv::lv<rv>(), drv::lv<rv>()); \
    (void)(drv::clv<rv>() == drv::clv<rv>()); \
    (void)(drv::clv<rv>() != drv::clv<rv>()); \
    (void)(drv::clv<rv>() < drv::clv<rv>()); \
    (void)(drv::clv<rv>() > drv::clv<rv>()); \
    (void)(drv::clv<rv>() <= drv::clv<rv>()); \
    (void)(drv::clv<rv>() >= drv::clv<rv>()); \
    for (T &element : drv::lv<rv>()) \
    { \
      (void)element; \
    } \
    for (T const &element : drv::clv<rv>()) \
    { \
      (void)element; \
    } \
  }
DRV(drv_container_raw_vector) { M(int) M(char) }
#undef M

// ---------------------------------------------------------------------------------------------
// buffer
// ---------------------------------------------------------------------------------------------
template class fcppt::container::buffer::object<char>;
template class fcppt::container::buffer::object<int>;

#define M(T) \
  { \
    using buf = fcppt::container::buffer::object<T>; \
    using size_type = buf::size_type; \
    using read_fn = drv::fn<size_type(buf::pointer, size_type)>; \
    using read_opt_fn = drv::fn<fcppt::optional::object<size_type>(buf::pointer, size_type)>; \
    (void)fcppt::container::buffer::append_from( \
        drv::make<buf>(), drv::make<size_type>(), drv::clv<read_fn>()); \
    (void)fcppt::container::buffer::append_from_opt( \
        drv::make<buf>(), drv::make<size_type>(), drv::clv<read_opt_fn>()); \
    (void)fcppt::container::buffer::read_from<buf>(drv::make<size_type>(), drv::clv<read_fn>()); \
    (void)fcppt::container::buffer::read_from_opt<buf>( \
        drv::make<size_type>(), drv::clv<read_opt_fn>()); \
    (void)fcppt::container::buffer::to_raw_vector(drv::make<buf>()); \
    swap(drv::lv<buf>(), drv::lv<buf>()); \
    for (T const &element : drv::clv<buf>()) \
    { \
      (void)element; \
    } \
  }
DRV(drv_container_buffer) { M(char) M(int) }
#undef M

// ---------------------------------------------------------------------------------------------
// dynamic_array
// ---------------------------------------------------------------------------------------------
template class fcppt::container::dynamic_array<int>;
template class fcppt::container::dynamic_array<char>;

// ---------------------------------------------------------------------------------------------
// tree
// ---------------------------------------------------------------------------------------------
template class fcppt::container::tree::object<int>;
template class fcppt::container::tree::object<std::string>;
template class fcppt::container::tree::pre_order<fcppt::container::tree::object<int>>;
template class fcppt::container::tree::pre_order<fcppt::container::tree::object<int> const>;
template class fcppt::container::tree::to_root<fcppt::container::tree::object<int>>;
template class fcppt::container::tree::to_root<fcppt::container::tree::object<int> const>;

#define M(T) \
  { \
    using tree = fcppt::container::tree::object<T>; \
    drv::lv<tree>().sort(drv::clv<drv::fn<bool(T const &, T const &)>>()); \
    swap(drv::lv<tree>(), drv::lv<tree>()); \
    (void)fcppt::container::tree::child_position(drv::lv<tree>(), drv::lv<tree>()); \
    (void)fcppt::container::tree::child_position(drv::clv<tree>(), drv::clv<tree>()); \
    (void)fcppt::container::tree::depth(drv::clv<tree>()); \
    (void)fcppt::container::tree::level(drv::clv<tree>()); \
    (void)(drv::clv<tree>() == drv::clv<tree>()); \
    (void)(drv::clv<tree>() != drv::clv<tree>()); \
    (void)(drv::lv<std::ostream>() << drv::clv<tree>()); \
    for (tree & element : fcppt::container::tree::make_pre_order(drv::lv<tree>())) \
    { \
      (void)element; \
    } \
    for (tree const &element : fcppt::container::tree::make_pre_order(drv::clv<tree>())) \
    { \
      (void)element; \
    } \
    for (tree & element : fcppt::container::tree::make_to_root(drv::lv<tree>())) \
    { \
      (void)element; \
    } \
    for (tree const &element : fcppt::container::tree::make_to_root(drv::clv<tree>())) \
    { \
      (void)element; \
    } \
    for (tree & element : fcppt::container::tree::pre_order<tree>{drv::lv<tree>()}) \
    { \
      (void)element; \
    } \
    for (tree const &element : fcppt::container::tree::to_root<tree const>{drv::clv<tree>()}) \
    { \
      (void)element; \
    } \
    for (tree & child : drv::lv<tree>()) \
    { \
      (void)child; \
    } \
    for (tree const &child : drv::clv<tree>()) \
    { \
      (void)child; \
    } \
  }
DRV(drv_container_tree) { M(int) M(std::string) }
#undef M

DRV(drv_container_tree_output_wide)
{
  (void)(drv::lv<std::wostream>() << drv::clv<fcppt::container::tree::object<int>>());
}

DRV(drv_container_tree_map)
{
  using int_tree = fcppt::container::tree::object<int>;
  using string_tree = fcppt::container::tree::object<std::string>;
  (void)fcppt::container::tree::map<string_tree>(
      drv::clv<int_tree>(), drv::clv<drv::fn<std::string(int const &)>>());
  (void)fcppt::container::tree::map<int_tree>(
      drv::clv<string_tree>(), drv::clv<drv::fn<int(std::string const &)>>());
  (void)fcppt::container::tree::map<int_tree>(
      drv::clv<int_tree>(), drv::clv<drv::fn<int(int const &)>>());
}

// ---------------------------------------------------------------------------------------------
// bitfield
// ---------------------------------------------------------------------------------------------
namespace drv_c
{
enum class b1
{
  v0,
  fcppt_maximum = v0
};
enum class b3
{
  v0,
  v1,
  v2,
  fcppt_maximum = v2
};
enum class b8
{
  v0,
  v1,
  v2,
  v3,
  v4,
  v5,
  v6,
  v7,
  fcppt_maximum = v7
};
enum class b9
{
  v0,
  v1,
  v2,
  v3,
  v4,
  v5,
  v6,
  v7,
  v8,
  fcppt_maximum = v8
};
enum class b17
{
  v0,
  v1,
  v2,
  v3,
  v4,
  v5,
  v6,
  v7,
  v8,
  v9,
  v10,
  v11,
  v12,
  v13,
  v14,
  v15,
  v16,
  fcppt_maximum = v16
};
using u8 = std::uint8_t;
using u16 = std::uint16_t;
using u32 = std::uint32_t;
using u64 = std::uint64_t;
}

// opaque names for bitfield output
#define M(E) \
  template <> \
  struct fcppt::enum_::to_string_impl<drv_c::E> \
  { \
    static std::string_view get(drv_c::E); \
  };
M(b1) M(b3) M(b8) M(b9) M(b17)
#undef M

#define DRV_FOR_BITFIELDS(M) \
  M(b1, u8) M(b1, u16) M(b1, u32) M(b1, u64) \
  M(b3, u8) M(b3, u16) M(b3, u32) M(b3, u64) \
  M(b8, u8) M(b8, u16) M(b8, u32) M(b8, u64) \
  M(b9, u8) M(b9, u16) M(b9, u32) M(b9, u64) \
  M(b17, u8) M(b17, u16) M(b17, u32) M(b17, u64)

// exactly one word: enum size <= bits of the word
#define DRV_FOR_SINGLE_WORD_BITFIELDS(M) \
  M(b1, u8) M(b1, u16) M(b1, u32) M(b1, u64) \
  M(b3, u8) M(b3, u16) M(b3, u32) M(b3, u64) \
  M(b8, u8) M(b8, u16) M(b8, u32) M(b8, u64) \
  M(b9, u16) M(b9, u32) M(b9, u64) \
  M(b17, u32) M(b17, u64)

// `template class fcppt::container::bitfield::object<E, W>;` does not compile: the constructor
// object(fcppt::no_init const &) (container/bitfield/object_impl.hpp:15) does not initialize array_,
// but fcppt::array::object has no default constructor. Hence every other member is called
// individually below and the no_init constructor is not instantiated.

#define M(E, W) \
  DRV(drv_container_bitfield_operators_##E##_##W) \
  { \
    using bf = fcppt::container::bitfield::object<drv_c::E, drv_c::W>; \
    using en = drv_c::E; \
    (void)(drv::lv<bf>() |= drv::make<en>()); \
    (void)(drv::lv<bf>() |= drv::clv<bf>()); \
    (void)(drv::lv<bf>() &= drv::clv<bf>()); \
    (void)(drv::lv<bf>() ^= drv::clv<bf>()); \
    (void)~drv::clv<bf>(); \
    (void)(drv::clv<bf>() & drv::make<en>()); \
    (void)(drv::clv<bf>() | drv::make<en>()); \
    (void)(drv::clv<bf>() | drv::clv<bf>()); \
    (void)(drv::clv<bf>() & drv::clv<bf>()); \
    (void)(drv::clv<bf>() ^ drv::clv<bf>()); \
    (void)(drv::clv<bf>() == drv::clv<bf>()); \
    (void)(drv::clv<bf>() != drv::clv<bf>()); \
    (void)fcppt::container::bitfield::is_subset_eq(drv::clv<bf>(), drv::clv<bf>()); \
    (void)fcppt::container::bitfield::init<bf>(drv::clv<drv::fn<bool(en)>>()); \
    (void)fcppt::container::bitfield::init<bf>(drv::clv<drv::fn<unsigned(en)>>()); /* a predicate whose result is only CONVERTIBLE to bool */ \
    (void)std::hash<bf>{}(drv::clv<bf>()); \
    (void)fcppt::container::bitfield::hash<bf>{}(drv::clv<bf>()); \
    (void)(drv::lv<std::ostream>() << drv::clv<bf>()); \
  } \
  DRV(drv_container_bitfield_members_##E##_##W) \
  { \
    using bf = fcppt::container::bitfield::object<drv_c::E, drv_c::W>; \
    using en = drv_c::E; \
    (void)bf{drv::make<en>(), drv::make<en>()}; \
    (void)bf{drv::clv<bf::initializer_list_type>()}; \
    (void)bf{drv::clv<bf::array_type>()}; \
    (void)bf::null(); \
    /* proxies */ \
    (void)static_cast<bool>(drv::clv<bf>()[drv::make<en>()]); \
    (void)static_cast<bool>(drv::lv<bf>()[drv::make<en>()]); \
    drv::lv<bf>()[drv::make<en>()] = drv::make<bool>(); \
    bf::reference proxy_copy{drv::lv<bf::reference>()}; \
    bf::reference proxy_move{drv::make<bf::reference>()}; \
    proxy_copy = drv::clv<bf::reference>(); \
    proxy_move = drv::make<bf::reference>(); \
    bf::const_reference const_proxy_copy{drv::clv<bf::const_reference>()}; \
    (void)const_proxy_copy; \
    drv::lv<bf>().set(drv::make<en>(), drv::make<bool>()); \
    (void)drv::clv<bf>().get(drv::make<en>()); \
    (void)drv::lv<bf>().array(); \
    (void)drv::clv<bf>().array(); \
  }
DRV_FOR_BITFIELDS(M)
#undef M

#define M(E, W) \
  (void)fcppt::container::bitfield::underlying_value( \
      drv::clv<fcppt::container::bitfield::object<drv_c::E, drv_c::W>>());
DRV(drv_container_bitfield_underlying_value) { DRV_FOR_SINGLE_WORD_BITFIELDS(M) }
#undef M

// ---------------------------------------------------------------------------------------------
// intrusive list
// ---------------------------------------------------------------------------------------------
namespace drv_c
{
class element;

using element_list = fcppt::intrusive::list<element>;

class element : public fcppt::intrusive::base<element>
{
public:
  element(element_list &_list, int const _value)
      : fcppt::intrusive::base<element>{_list}, value_{_value}
  {
  }

  element(element const &) = delete;
  element &operator=(element const &) = delete;
  element(element &&) noexcept = default;
  element &operator=(element &&) noexcept = default;
  ~element() = default;

  [[nodiscard]] int value() const { return value_; }

private:
  int value_;
};
}

template class fcppt::intrusive::base<drv_c::element>;
template class fcppt::intrusive::list<drv_c::element>;
template class fcppt::intrusive::iterator<drv_c::element>;
template class fcppt::intrusive::iterator<drv_c::element const>;

DRV(drv_intrusive_list)
{
  drv_c::element_list fresh{};
  drv_c::element linked{drv::lv<drv_c::element_list>(), drv::make<int>()};
  drv_c::element moved{drv::make<drv_c::element>()};
  moved = drv::make<drv_c::element>();
  linked.unlink();
  drv_c::element_list moved_list{drv::make<drv_c::element_list>()};
  moved_list = drv::make<drv_c::element_list>();
  (void)drv::clv<drv_c::element_list>().empty();
  for (drv_c::element &current : drv::lv<drv_c::element_list>())
  {
    (void)current.value();
  }
  for (drv_c::element const &current : drv::clv<drv_c::element_list>())
  {
    (void)current.value();
  }
  (void)--drv::lv<drv_c::element_list::iterator>();
  (void)drv::lv<drv_c::element_list::iterator>()--;
  (void)drv::lv<drv_c::element_list::iterator>()++;
  (void)drv::clv<drv_c::element_list::iterator>()->value();
  (void)--drv::lv<drv_c::element_list::const_iterator>();
  (void)(drv::clv<drv_c::element_list::iterator>() == drv::clv<drv_c::element_list::iterator>());
}

// ---------------------------------------------------------------------------------------------
// signals
// ---------------------------------------------------------------------------------------------
namespace drv_c
{
using signal_void = fcppt::signal::object<void()>;
using signal_int = fcppt::signal::object<int(int)>;
using signal_void_unregister = fcppt::signal::object<void(), fcppt::signal::unregister::base>;
using signal_int_unregister = fcppt::signal::object<int(int), fcppt::signal::unregister::base>;
}

template class fcppt::signal::base<void()>;
template class fcppt::signal::base<int(int)>;
template class fcppt::signal::unregister::base<void()>;
template class fcppt::signal::unregister::base<int(int)>;
template class fcppt::signal::object<void()>;
template class fcppt::signal::object<int(int)>;
template class fcppt::signal::object<void(), fcppt::signal::unregister::base>;
template class fcppt::signal::object<int(int), fcppt::signal::unregister::base>;
template class fcppt::signal::detail::concrete_connection<void()>;
template class fcppt::signal::detail::concrete_connection<int(int)>;
template class fcppt::signal::unregister::detail::concrete_connection<void()>;
template class fcppt::signal::unregister::detail::concrete_connection<int(int)>;

DRV(drv_signal_void)
{
  using sig = drv_c::signal_void;
  sig fresh{};
  {
    fcppt::signal::auto_connection const connection{
        drv::lv<sig>().connect(sig::function{drv::make<drv::fn<void()>>()})};
  }
  drv::lv<sig>()();
  (void)drv::clv<sig>().empty();
  (void)drv::clv<sig>().connections();
  sig moved{drv::make<sig>()};
  moved = drv::make<sig>();
}

DRV(drv_signal_int)
{
  using sig = drv_c::signal_int;
  sig fresh{sig::combiner_function{drv::make<drv::fn<int(int, int)>>()}};
  {
    fcppt::signal::auto_connection const connection{
        drv::lv<sig>().connect(sig::function{drv::make<drv::fn<int(int)>>()})};
  }
  (void)drv::lv<sig>()(sig::initial_value{drv::make<int>()}, drv::make<int>());
  (void)drv::clv<sig>().empty();
  (void)drv::clv<sig>().connections();
  sig moved{drv::make<sig>()};
  moved = drv::make<sig>();
}

DRV(drv_signal_void_unregister)
{
  using sig = drv_c::signal_void_unregister;
  sig fresh{};
  {
    fcppt::signal::auto_connection const connection{drv::lv<sig>().connect(
        sig::function{drv::make<drv::fn<void()>>()},
        fcppt::signal::unregister::function{drv::make<drv::fn<void()>>()})};
  }
  drv::lv<sig>()();
  (void)drv::clv<sig>().empty();
  (void)drv::clv<sig>().connections();
  sig moved{drv::make<sig>()};
  moved = drv::make<sig>();
}

DRV(drv_signal_int_unregister)
{
  using sig = drv_c::signal_int_unregister;
  sig fresh{sig::combiner_function{drv::make<drv::fn<int(int, int)>>()}};
  {
    fcppt::signal::auto_connection const connection{drv::lv<sig>().connect(
        sig::function{drv::make<drv::fn<int(int)>>()},
        fcppt::signal::unregister::function{drv::make<drv::fn<void()>>()})};
  }
  (void)drv::lv<sig>()(sig::initial_value{drv::make<int>()}, drv::make<int>());
  sig moved{drv::make<sig>()};
  moved = drv::make<sig>();
}

DRV(drv_signal_connection_destruction)
{
  // destroys a connection through the abstract base
  fcppt::signal::auto_connection released{drv::make<fcppt::signal::auto_connection>()};
  released = drv::make<fcppt::signal::auto_connection>();
}
