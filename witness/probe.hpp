// Probe types and the WITNESS marker for type-level witnesses (engine W, DESIGN.md §4.5).
// A witness TU is only ever compiled with -fsyntax-only; nothing in it is linked or run.
#ifndef VERIF_WITNESS_PROBE_HPP
#define VERIF_WITNESS_PROBE_HPP

#include <type_traits>
#include <utility>
#include <functional>
#include <cstddef>

// WITNESS(id, "obligation") { body }  -- a never-called function; the checker attributes every
// compiler diagnostic whose instantiation backtrace passes through its lines to this witness.
#define WITNESS(id, text) [[maybe_unused]] static void id()

namespace probe
{
// move-only element: no copy constructor, no copy assignment. Any code path that needs a copy
// of an element does not compile.
struct mo
{
  mo() = delete;
  explicit mo(int) noexcept {}
  mo(mo &&) noexcept = default;
  mo &operator=(mo &&) noexcept = default;
  mo(mo const &) = delete;
  mo &operator=(mo const &) = delete;
  ~mo() = default;
  friend bool operator==(mo const &, mo const &) noexcept { return true; }
  friend bool operator<(mo const &, mo const &) noexcept { return false; }
};
// a second, distinct move-only type (results / failures)
struct mo2
{
  mo2() = delete;
  explicit mo2(int) noexcept {}
  mo2(mo2 &&) noexcept = default;
  mo2 &operator=(mo2 &&) noexcept = default;
  mo2(mo2 const &) = delete;
  mo2 &operator=(mo2 const &) = delete;
  ~mo2() = default;
  friend bool operator==(mo2 const &, mo2 const &) noexcept { return true; }
  friend bool operator<(mo2 const &, mo2 const &) noexcept { return false; }
};
// copyable element
struct cp
{
  explicit cp(int) noexcept {}
  friend bool operator==(cp const &, cp const &) noexcept { return true; }
};
// sources of values with unknown content (declared, never defined)
template <typename T>
T make();            // prvalue
template <typename T>
T &lvalue();         // lvalue
template <typename T>
T const &clvalue();  // const lvalue
}

namespace std
{
template <>
struct hash<probe::mo>
{
  std::size_t operator()(probe::mo const &) const noexcept { return 0U; }
};
}

#endif
