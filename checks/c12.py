"""C12 Parse stream reports true line/column and rewinds exactly (DESIGN.md §6 C12).

Decided structurally, for char and wchar_t:
 LOC-1   decision table of detail::stream::get_char: no character => location untouched;
         '\\n' => ++line and column := 1; any other character => ++column (and nothing else)
 LOC-2   the initial location is (1,1)
 SNAP-1  snapshot completeness: every field get_char writes, and the underlying stream offset, is
         captured by get_position and restored by set_position
 EOF-1   get_position clears eof before tellg, set_position clears before seekg; tellg/seekg/bad()
         failures become detail::exception<Ch>
 ERRLOC  character-level parsers take the position for their error AFTER reading the offending character
 GET-1   io::get: eof after the read => nothing, never a character
Not decided: std::basic_istream tellg/seekg semantics.
"""
from engine import facts as F
from engine import load
from engine import lrules as L
from engine import sx
from engine import terms as T

LEVEL = "other"
STREAM = "fcppt::parse::detail::stream"
INLINE = ("fcppt::optional::", "fcppt::either::", "fcppt::cond", "fcppt::const_", "fcppt::parse::get_char", "fcppt::parse::get_position",
          "fcppt::parse::make_success", "fcppt::parse::detail::expected", "fcppt::parse::get_char_error", "fcppt::parse::basic_char::parse")
PURE = ("fcppt::parse::location::line", "fcppt::parse::location::column", "fcppt::reference::get")


def partial_clear(p):
    """a clear() whose argument is not the default goodbit: some error bits survive it"""
    for e in p.events:
        if e[0].split("<")[0] == "std::basic_ios::clear" and len(e[1]) >= 2:
            a = sx.show(e[1][1])
            if a not in ("0", "std::_S_goodbit", "goodbit", "std::ios_base::goodbit", "_S_goodbit"):
                return a
    return None


def ev_names(p):
    return [e[0].split("<")[0] for e in p.events]


def main(rep, tier, only):
    db = load.load(tier, lib=False, drivers=["drv_parse"])
    rep.extra.update(db.stats())
    cfg = sx.Config(inline_prefixes=INLINE, pure=PURE)
    rep.rule("LOC-1", "get_char decision table: no char => location untouched; newline => ++line, column := 1; other => ++column", floor=6)
    rep.rule("LOC-2", "initial location is line 1, column 1", floor=2)
    rep.rule("SNAP-1", "every field written by get_char (and the stream offset) is captured by get_position and restored by set_position", floor=6)
    rep.rule("EOF-1", "eof cleared before tellg / seekg; tellg, seekg and bad() failures become detail::exception<Ch>", floor=6)
    rep.rule("ERRLOC", "character-level parsers evaluate get_position for their error after the get_char of the offending character", floor=4)
    rep.rule("FWD", "the free functions parse::get_char / get_position / set_position forward unconditionally to the stream's member of the same name", floor=6)
    rep.rule("GET-1", "fcppt::io::get reads once and returns nothing exactly when get() returned Traits::eof() (end of input or failed stream), the read character otherwise", floor=1)
    seen = set()
    for fn in db.fns(STREAM + "::get_char"):
        ch = (fn.get("rec_targs") or ["?"])[0]
        if ch in seen:
            continue
        seen.add(ch)
        u = fn["_unit"]
        # the compared literal is '\n' for every character type
        lits = [n.get("char") for n in F.walk(fn.get("body")) if n.get("k") == "lit" and "char" in n]
        try:
            ps = sx.Interp(db, cfg).paths(fn, this=("sym", "this"))
        except sx.Unsupported as e:
            rep.broken("C12: get_char outside fragment: %s" % e)
            continue
        rows = {"none": None, "newline": None, "other": None}
        for p in ps:
            dec = [(sx.show(a), b) for a, b in p.decisions]
            hv = [b for a, b in dec if a.startswith("has_value(")]
            eq = [b for a, b in dec if "==" in a]
            names = ev_names(p)
            i_get = names.index("fcppt::io::get") if "fcppt::io::get" in names else -1
            i_bad = names.index("fcppt::parse::detail::check_bad") if "fcppt::parse::detail::check_bad" in names else -1
            effects = []
            for e in p.events:
                s = sx.show_event(e)
                if e[0].startswith("fcppt::operator++") or e[0].startswith("fcppt::operator--"):
                    effects.append(("++" if "++" in e[0] else "--", sx.show(e[1][0])))
                elif e[0] == "write":
                    tgt_, val_ = e[1][0], e[1][1]
                    inc = None
                    if isinstance(val_, tuple) and val_ and val_[0] == "ev":
                        e2 = p.events[val_[1] - 1]
                        if e2[0].split("<")[0] in ("fcppt::operator+", "fcppt::operator-") and len(e2[1]) == 2:
                            a_ = [sx.show(x_) for x_ in e2[1]]
                            one = "fcppt::strong_typedef{1}"
                            if a_ == [sx.show(tgt_), one] or (a_ == [one, sx.show(tgt_)] and e2[0].split("<")[0].endswith("+")):
                                inc = "++" if e2[0].split("<")[0].endswith("+") else "--"
                    if inc is not None:
                        effects.append((inc, sx.show(tgt_)))      # x = x + 1 is ++x
                    else:
                        effects.append(("=", sx.show(tgt_), sx.show(val_)))
            row = "none" if hv and hv[0] is False else ("newline" if eq and eq[0] else "other")
            rows[row] = (effects, sx.show(p.outcome[1]) if p.outcome[0] == "return" else p.outcome[0], i_bad, i_get)
        want = {"none": [], "newline": [("++", "line(this.location_)"), ("=", "column(this.location_)", "fcppt::strong_typedef{1}")],
                "other": [("++", "column(this.location_)")]}
        for row, w in want.items():
            key = "get_char<%s>|%s" % (ch, row)
            got = rows.get(row)
            if got is None:
                rep.fail("LOC-1", key, F.primary_site(fn), F.describe(fn), why="no path covers this row", detail={"paths": [p.show() for p in ps]})
                continue
            eff, out, i_bad, i_get = got
            if sorted(eff) != sorted(w):
                rep.fail("LOC-1", key, F.primary_site(fn), F.describe(fn),
                         why="location update differs: implementation %s, specification %s" % (eff, w))
            elif not out.startswith("#") or i_get < 0:
                rep.fail("LOC-1", key, F.primary_site(fn), F.describe(fn), why="the returned value is not the result of io::get")
            elif i_bad < 0 or i_bad > i_get:
                rep.fail("LOC-1", key, F.primary_site(fn), F.describe(fn), why="bad() is not checked before reading")
            elif row != "none" and (not lits or any(c != 10 for c in lits)):
                rep.fail("LOC-1", key, F.primary_site(fn), F.describe(fn), why="the line-break character compared against is %s, not '\\n'" % lits)
            else:
                rep.ok("LOC-1", key, F.primary_site(fn), F.describe(fn), how="row-equal")
    # LOC-2
    seen = set()
    for fn in L.method_fns(db, STREAM):
        pass
    for fn in db.functions:
        if F.fn_name(fn) != STREAM + "::stream" or fn.get("kind") != "ctor":
            continue
        ch = (fn.get("rec_targs") or ["?"])[0]
        if ch in seen:
            continue
        seen.add(ch)
        u = fn["_unit"]
        init = next((i for i in fn.get("inits", []) if i.get("field") == "location_"), None)
        consts = [n.get("c") for n in F.walk(init.get("init"))] if init else []
        consts = [c for c in consts if c is not None]
        if init is not None and consts and all(c == "1" for c in consts) and len(consts) >= 2:
            rep.ok("LOC-2", "stream<%s>::stream" % ch, F.primary_site(fn), F.describe(fn), how="line{1},column{1}")
        else:
            rep.fail("LOC-2", "stream<%s>::stream" % ch, F.primary_site(fn), F.describe(fn), why="location_ is not initialised to (1,1): constants %s" % consts)
    # SNAP-1 / EOF-1
    for ch_fns in [(c, {nm: [f for f in db.fns(STREAM + "::" + nm) if (f.get("rec_targs") or ["?"])[0] == c] for nm in ("get_char", "get_position", "set_position")})
                   for c in sorted(set((f.get("rec_targs") or ["?"])[0] for f in db.fns(STREAM + "::get_char")))]:
        ch, fns = ch_fns
        if not all(fns.values()):
            rep.broken("C12: stream<%s> members missing" % ch)
            continue
        gc, gp, sp = fns["get_char"][0], fns["get_position"][0], fns["set_position"][0]
        u = gc["_unit"]
        # fields of the record
        recs = [r for uu in db.units for r in uu.records if r["qn"] == STREAM and (r.get("targs") or ["?"])[0] == ch]
        fields = [f["name"] for f in recs[0]["fields"]] if recs else []
        written = set()
        for f in fields:
            if L.field_writes(u, gc, f) or any(T.show(T.norm(u, n)).startswith("%s." % f) or ("(this.%s)" % f) in "" for n in []):
                written.add(f)
        # non-const accessor calls on a field count as writes (location_.line() returns a reference)
        for (n, d, qn) in L.calls_in(u, gc.get("body")):
            if n.get("recv") is not None and not d.get("const", True):
                fo = L.field_of(u, n["recv"])
                if fo and fo[0] == ("this",):
                    written.add(fo[1])
        written.discard("impl_")  # the stream reference itself is not rebound; its offset is the tellg/seekg part
        key = "stream<%s>" % ch
        extra = [f for f in fields if f not in ("impl_", "location_")]
        if extra:
            rep.fail("SNAP-1", key + "|fields", F.primary_site(gc), STREAM, why="additional state %s is not part of the position snapshot" % extra)
        else:
            rep.ok("SNAP-1", key + "|fields", F.primary_site(gc), STREAM, how="state={stream offset, location_}")
        try:
            gpp = sx.Interp(db, cfg).paths(gp, this=("sym", "this"))
            spp = sx.Interp(db, cfg).paths(sp, this=("sym", "this"))
        except sx.Unsupported as e:
            rep.broken("C12: get/set_position outside fragment: %s" % e)
            continue
        # get_position: every returning path builds position{tellg result, some(this.location_)}
        bad = None
        for p in gpp:
            names = ev_names(p)
            if p.outcome[0] == "return":
                v = sx.show(p.outcome[1])
                if "tellg" not in v:
                    bad = "returned position does not carry the tellg() offset (%s)" % v
                for f in written:
                    if "this.%s" % f not in v:
                        bad = "field %s written by get_char is not captured in the position (%s)" % (f, v)
        if bad:
            rep.fail("SNAP-1", key + "|get_position", F.primary_site(gp), F.describe(gp), why=bad)
        else:
            rep.ok("SNAP-1", key + "|get_position", F.primary_site(gp), F.describe(gp), how="captures offset+" + "+".join(sorted(written)))
        bad = None
        normal = [p for p in spp if p.outcome[0] == "return"]
        for p in normal:
            names = ev_names(p)
            evs = [sx.show_event(e) for e in p.events]
            seek = [e for e in p.events if e[0].startswith("std::basic_istream::seekg")]
            if not seek or "pos" not in sx.show(seek[0][1][-1]):
                bad = "seekg is not called with the saved offset"
            hv = [b for a, b in p.decisions if sx.show(a).startswith("has_value(")]
            if written and not hv:
                bad = "the saved location is not examined: %s is not restored" % sorted(written)
            if hv and hv[0]:
                for f in written:
                    w = [e for e in p.events if e[0] == "write" and sx.show(e[1][0]) == "this.%s" % f]
                    if not w or "location" not in sx.show(w[0][1][1]):
                        bad = "field %s is not restored from the saved position" % f
        if not normal:
            bad = "set_position has no normally returning path"
        if bad:
            rep.fail("SNAP-1", key + "|set_position", F.primary_site(sp), F.describe(sp), why=bad)
        else:
            rep.ok("SNAP-1", key + "|set_position", F.primary_site(sp), F.describe(sp), how="restores offset+" + "+".join(sorted(written)))
        # EOF-1
        bad = None
        for p in gpp:
            names = ev_names(p)
            eofd = [b for a, b in p.decisions if "eof" in sx.show(a)]
            if "std::basic_istream::tellg" in names:
                it = names.index("std::basic_istream::tellg")
                if not eofd and "std::basic_ios::clear" not in names[:it]:
                    bad = "eof state neither examined nor cleared before tellg (tellg fails at end of input)"
                if eofd and eofd[0] and ("std::basic_ios::clear" not in names[:it]):
                    bad = "eof state not cleared before tellg"
                if "fcppt::parse::detail::check_bad" not in names[:it]:
                    bad = "bad() not checked before tellg"
                pc = partial_clear(p)
                if pc is not None:
                    bad = "the stream state is cleared only partially (clear(%s)) before tellg: after a failed read failbit survives and tellg() reports -1" % pc
            cmpd = [b for a, b in p.decisions if "operator==" in sx.show(a)]
            if cmpd and cmpd[0] and p.outcome[0] != "throw":
                bad = "tellg() failure (-1) does not throw"
            if p.outcome[0] == "throw" and "detail::exception<" not in (p.outcome[1] or ""):
                bad = "throws %s instead of detail::exception<Ch>" % p.outcome[1]
        if not any(p.outcome[0] == "throw" for p in gpp):
            bad = "tellg() failure is not detected"
        (rep.fail if bad else rep.ok)("EOF-1", key + "|get_position", F.primary_site(gp), F.describe(gp), **({"why": bad} if bad else {"how": "clear-before-tellg;failure-throws"}))
        bad = None
        for p in spp:
            names = ev_names(p)
            if "std::basic_istream::seekg" in names:
                it = names.index("std::basic_istream::seekg")
                if "std::basic_ios::clear" not in names[:it]:
                    bad = "stream state not cleared before seekg"
                pc = partial_clear(p)
                if pc is not None:
                    bad = "the stream state is cleared only partially (clear(%s)) before seekg" % pc
            fl = [b for a, b in p.decisions if "fail" in sx.show(a)]
            if fl and fl[0] and p.outcome[0] != "throw":
                bad = "seekg failure does not throw"
            if p.outcome[0] == "throw" and "detail::exception<" not in (p.outcome[1] or ""):
                bad = "throws %s instead of detail::exception<Ch>" % p.outcome[1]
        if not any(p.outcome[0] == "throw" for p in spp):
            bad = "seekg failure is not detected"
        (rep.fail if bad else rep.ok)("EOF-1", key + "|set_position", F.primary_site(sp), F.describe(sp), **({"why": bad} if bad else {"how": "clear-before-seekg;failure-throws"}))
    for fn in db.fns("fcppt::parse::detail::check_bad"):
        u = fn["_unit"]
        ch = (fn.get("targs") or ["?"])[0]
        thr = [n for n in F.walk(fn.get("body")) if n.get("k") == "throw"]
        ok = thr and "fcppt::parse::detail::exception<" in (u.ty(thr[0].get("thrown")) or "")
        cond = [n for n in F.walk(fn.get("body")) if n.get("k") == "call" and (T.callee_qn(u, n) or "").endswith("::bad")]
        key = "check_bad<%s>" % ch
        if ok and cond:
            rep.ok("EOF-1", key, F.primary_site(fn), F.describe(fn), how="bad()=>exception")
        else:
            rep.fail("EOF-1", key, F.primary_site(fn), F.describe(fn), why="bad() is not turned into detail::exception<Ch>")
    # ERRLOC: in character-level parsers, on failure paths SAVE comes after the sub-read
    n_err = 0
    for qn in ("fcppt::parse::basic_literal::parse", "fcppt::parse::basic_char_set::parse", "fcppt::parse::complement::parse"):
        seen = set()
        for fn in db.fns(qn):
            k = (F.primary_site(fn), tuple(fn.get("rec_targs") or []))
            if k in seen or "stub_skipper" not in " ".join(fn.get("targs") or []):
                continue
            seen.add(k)
            try:
                ps = sx.Interp(db, cfg).paths(fn, this=("sym", "this"))
            except sx.Unsupported as e:
                rep.broken("C12: %s outside fragment: %s" % (qn, e))
                continue
            bad = None
            n_fail = 0
            for p in ps:
                names = ev_names(p)
                reads = [i for i, n in enumerate(names) if n.endswith("::get_char") or n.endswith("basic_char::parse") or n.endswith("::parse") and i == 0]
                saves = [i for i, n in enumerate(names) if n.endswith("::get_position")]
                if saves:
                    n_fail += 1
                    if not reads or saves[0] < reads[0]:
                        bad = "the error position is taken before the offending character is read"
            key = "%s<%s>" % (qn.replace("fcppt::parse::", ""), ",".join(fn.get("rec_targs") or []))
            n_err += 1
            if bad:
                rep.fail("ERRLOC", key, F.primary_site(fn), F.describe(fn)[:160], why=bad)
            elif not n_fail:
                rep.fail("ERRLOC", key, F.primary_site(fn), F.describe(fn)[:160], why="no failing path reports a position")
            else:
                rep.ok("ERRLOC", key, F.primary_site(fn), F.describe(fn)[:160], how="position-after-read")
    # FWD: the free functions are unconditional forwarders to the stream's members
    for short in ("set_position", "get_position", "get_char"):
        seenf = set()
        for fn in db.fns("fcppt::parse::" + short):
            u = fn["_unit"]
            ch = (fn.get("targs") or ["?"])[0]
            if ch in seenf or not fn.get("params"):
                continue
            seenf.add(ch)
            stm = [x for x in (fn.get("body") or {}).get("ch", []) if x.get("k") not in ("decl", "null")]
            t = ""
            if len(stm) == 1:
                e = stm[0].get("e") if stm[0].get("k") == "return" else stm[0]
                t = T.show(T.snorm(u, fn, e)) if e is not None else ""
            args = ", ".join(p_["name"] for p_ in fn["params"][1:])
            want = "%s.get().%s(%s)" % (fn["params"][0]["name"], short, args)
            ok = len(stm) == 1 and t.replace(" ", "") in (want.replace(" ", ""), want.replace(".get().", ".").replace(" ", ""))
            (rep.ok if ok else rep.fail)("FWD", "parse::%s<%s>" % (short, ch), F.primary_site(fn), F.describe(fn)[:160],
                                         **({"how": "unconditional forwarder"} if ok else
                                            {"why": "the free function is not the single unconditional call %s (%d statements, `%s`): every save / restore / read must reach the stream" % (want, len(stm), t)}))
    # GET-1: io::get
    for fn in db.fns("fcppt::io::get"):
        try:
            ps = sx.Interp(db, sx.Config(inline_prefixes=("fcppt::optional::", "fcppt::cond"))).paths(fn)
        except sx.Unsupported as e:
            rep.broken("C12: io::get outside fragment: %s" % e)
            continue
        bad = None
        some = none = 0
        for p in ps:
            v = sx.show(p.outcome[1]) if p.outcome[0] == "return" else p.outcome[0]
            names = ev_names(p)
            gets = [i for i, e in enumerate(p.events, 1) if e[0].split("<")[0] == "std::basic_istream::get"]
            eofs = [i for i, e in enumerate(p.events, 1) if e[0].split("<")[0] == "std::char_traits::eof"]
            # istream::get() returns Traits::eof() exactly when no character was extracted (end of input OR a failed /
            # bad stream); the stream's eof() flag is not equivalent (failbit without eofbit)
            sentinel = None
            for a, b in p.decisions:
                t = a
                neg = False
                while isinstance(t, tuple) and t and t[0] == "not":
                    t, neg = t[1], not neg
                if isinstance(t, tuple) and t and t[0] == "cmp" and t[1] in ("==", "!=") and gets and eofs:
                    sides = {t[2], t[3]}
                    if any(isinstance(x, tuple) and x[0] == "ev" and x[1] == gets[0] for x in sides) and \
                       any(isinstance(x, tuple) and x[0] == "ev" and x[1] in eofs for x in sides):
                        sentinel = (b != neg) if t[1] == "==" else (b == neg)
            if sentinel is None and gets:
                # equivalent by the standard: get() sets failbit exactly when it extracted no character
                for a, b in p.decisions:
                    t, neg = a, False
                    while isinstance(t, tuple) and t and t[0] == "not":
                        t, neg = t[1], not neg
                    if isinstance(t, tuple) and t and t[0] == "ev" and t[1] > gets[0]:
                        nm = p.events[t[1] - 1][0].split("<")[0]
                        if nm in ("std::basic_ios::fail", "std::basic_ios::operator!"):
                            sentinel = (b != neg)
                        elif nm in ("std::basic_ios::operator bool", "std::basic_ios::good"):
                            sentinel = not (b != neg)
            if len(gets) != 1:
                bad = "the stream is not read exactly once"
            elif sentinel is None:
                bad = ("'no character' is not decided by comparing the value returned by get() with Traits::eof() (decisions: %s): a failed "
                       "stream without eofbit would yield Traits::eof() converted to a character" % [sx.show(a) for a, b in p.decisions])
            elif ":some" in v:
                some += 1
                if sentinel:
                    bad = "a character is returned although get() returned Traits::eof()"
                elif "to_char_type(#%d:get)" % gets[0] not in v and not any(e[0].startswith("std::char_traits::to_char_type") for e in p.events):
                    bad = "the returned character is not the one that was read"
            else:
                none += 1
                if not sentinel:
                    bad = "nothing is returned although a character was read"
        if not bad and (not some or not none):
            bad = "io::get does not distinguish 'character read' from 'no character'"
        key = "io::get<%s>" % ",".join(fn.get("targs") or [])
        (rep.fail if bad else rep.ok)("GET-1", key, F.primary_site(fn), F.describe(fn), **({"why": bad, "detail": {"paths": [p.show() for p in ps]}} if bad else {"how": "get()==Traits::eof() <=> nothing"}))
        break
    rep.explanation = ("Decision tables of the stream's character read and position save/restore, derived by abstract interpretation "
                       "of detail::stream's members (std::istream calls opaque), plus snapshot completeness over the record's fields. "
                       "Together: the location is a function of the characters read, and restoring a saved position restores every "
                       "piece of state a read modifies.")
    rep.trusted = ["std::basic_istream tellg/seekg/clear/eof semantics", "clang 14 front end"]
