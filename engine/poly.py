"""Engine P: element provenance of branch-free arithmetic code as polynomial normal forms (DESIGN.md §4.10).

The math operators of fcppt contain no branch on an element value: every result element is an
expression tree over the operands' elements built with +, -, * and literals, and the only decisions
are on compile-time indices, which are constants in each instantiation. Engine S (sx) reduces such a
function, with the whole fcppt::math / fcppt::array plumbing expanded, to one path whose outcome is
the result's storage array of provenance terms. This module
  * maps a provenance term to a polynomial with integer coefficients over *atoms* (operand, storage
    index) -- the canonical form of the ring expression, so that any rearrangement that is an
    identity of commutative rings compares equal and nothing else does;
  * provides the small polynomial arithmetic the specifications are written in.
No input value is enumerated, no solver is involved, nothing is executed.
"""
from . import sx


class Unresolved(Exception):
    pass


class Poly:
    """polynomial over atoms: {monomial: coeff}; a monomial is a sorted tuple of atoms (repetition = power)"""
    __slots__ = ("t",)

    def __init__(self, t=None):
        self.t = {k: v for k, v in (t or {}).items() if v != 0}

    @staticmethod
    def const(c):
        return Poly({(): int(c)})

    @staticmethod
    def atom(a):
        return Poly({(a,): 1})

    def __add__(self, o):
        o = _p(o)
        t = dict(self.t)
        for k, v in o.t.items():
            t[k] = t.get(k, 0) + v
        return Poly(t)

    __radd__ = __add__

    def __neg__(self):
        return Poly({k: -v for k, v in self.t.items()})

    def __sub__(self, o):
        return self + (-_p(o))

    def __rsub__(self, o):
        return _p(o) - self

    def __mul__(self, o):
        o = _p(o)
        t = {}
        for k1, v1 in self.t.items():
            for k2, v2 in o.t.items():
                k = tuple(sorted(k1 + k2))
                t[k] = t.get(k, 0) + v1 * v2
        return Poly(t)

    __rmul__ = __mul__

    def __eq__(self, o):
        return isinstance(o, Poly) and self.t == o.t

    def __hash__(self):
        return hash(frozenset(self.t.items()))

    def atoms(self):
        return {a for k in self.t for a in k}

    def subst(self, f):
        """replace every atom a by the polynomial f(a)"""
        out = Poly()
        for k, v in self.t.items():
            m = Poly.const(v)
            for a in k:
                m = m * f(a)
            out = out + m
        return out

    def show(self, name=None):
        name = name or (lambda a: "%s[%s]" % (a[0], ",".join(str(x) for x in a[1:])) if len(a) > 1 else str(a[0]))
        if not self.t:
            return "0"
        parts = []
        for k in sorted(self.t, key=lambda k: (len(k), [str(x) for x in k])):
            v = self.t[k]
            mon = "*".join(name(a) for a in k)
            if not mon:
                parts.append(str(v))
            elif v == 1:
                parts.append(mon)
            elif v == -1:
                parts.append("-" + mon)
            else:
                parts.append("%d*%s" % (v, mon))
        return " + ".join(parts).replace("+ -", "- ")


def _p(x):
    return x if isinstance(x, Poly) else Poly.const(x)


def _int(c):
    s = str(c).rstrip("uUlL")
    return int(s)


STORAGE_FIELDS = ("storage_", "impl_", "data_")


def root_of(base):
    """follow storage fields / reference wrappers / address-of down to either a list of element terms or a root symbol.
    Returns ("list", [terms]) or ("root", name)."""
    seen = 0
    suffix = ""
    while True:
        seen += 1
        if seen > 40:
            raise Unresolved("storage chain too deep")
        if not isinstance(base, tuple) or not base:
            raise Unresolved("not a storage: %r" % (base,))
        t = base[0]
        if t == "sym":
            return ("root", str(base[1]) + suffix)
        if t == "fld" and base[2] not in STORAGE_FIELDS and isinstance(base[1], tuple) and base[1] and base[1][0] in ("sym", "fld", "deref", "addr"):
            suffix = "." + base[2] + suffix      # a member object of an operand (box.min_): part of the root's name
            base = base[1]
            continue
        if t in ("addr", "deref"):
            base = base[1]
            continue
        if t == "fld" and base[2] in STORAGE_FIELDS:
            base = base[1]
            continue
        if t == "new" and base[1] in ("fcppt::reference", "std::reference_wrapper") and len(base[3]) == 1:
            base = base[3][0]
            continue
        if t == "rec":
            fields = [v for f, v in base[2]]
            if len(fields) == 1:
                base = fields[0]
                continue
            # a row view: (impl_ reference, offset_) is handled by the caller through elem()
            raise Unresolved("record with %d fields as storage: %s" % (len(fields), sx.show(base)))
        if t == "new" and base[2] == "agg" and base[1].endswith("]"):
            return ("list", list(base[3]))      # a built-in array aggregate
        el = sx.list_elems(base)
        if el is not None:
            el = list(el)
            if len(el) == 1 and isinstance(el[0], tuple) and el[0] and el[0][0] == "new" and el[0][2] == "agg" and el[0][1].endswith("]"):
                return ("list", list(el[0][3]))  # std::array holding one built-in array aggregate
            return ("list", el)
        raise Unresolved("unknown storage form: %s" % sx.show(base))


class Resolver:
    """provenance term -> Poly. atom_of(rootname, storage index) names an operand element; scalar(name) a scalar
    operand; events resolves ("ev", n, ..) references of the path the term comes from."""

    def __init__(self, atom_of, scalar, events=None):
        self.atom_of = atom_of
        self.scalar = scalar
        self.events = events or []

    def poly(self, v, depth=0):
        if depth > 200:
            raise Unresolved("term too deep")
        if isinstance(v, Poly):
            return v
        if not isinstance(v, tuple) or not v:
            raise Unresolved("not a term: %r" % (v,))
        t = v[0]
        if t == "k":
            try:
                return Poly.const(_int(v[1]))
            except (TypeError, ValueError):
                raise Unresolved("non-integer constant %r" % (v[1],))
        if t == "bool":
            raise Unresolved("truth value used as a number")
        if t == "sym":
            return self.scalar(v[1])
        if t == "cast":
            return self.poly(v[2], depth + 1)
        if t == "op" and v[1] in ("+", "-", "*"):
            l = self.poly(v[2], depth + 1)
            r = self.poly(v[3], depth + 1)
            return l + r if v[1] == "+" else l - r if v[1] == "-" else l * r
        if t == "op" and v[1] in ("/", "%") and getattr(self, "opaque_division", False):
            # truncated division is outside the ring: an opaque atom over the normal forms of its operands
            return Poly.atom(("div" if v[1] == "/" else "mod", self.poly(v[2], depth + 1), self.poly(v[3], depth + 1)))
        if t == "op1" and v[1] in ("-", "+"):
            x = self.poly(v[2], depth + 1)
            return -x if v[1] == "-" else x
        if t == "app" and v[1].split("<")[0] in ("fcppt::array::object::get_unsafe", "fcppt::array::object::operator[]"):
            base, idx = v[2][0], v[2][1]
            return self.elem(base, idx, depth)
        if t == "elem":
            return self.elem(v[1], v[2] if isinstance(v[2], tuple) else ("k", v[2]), depth)
        if t == "ev":
            if 0 < v[1] <= len(self.events):
                name, args, _ = self.events[v[1] - 1]
                raise Unresolved("result of the opaque call %s" % name)
            raise Unresolved("event reference")
        raise Unresolved("outside the ring fragment: %s" % sx.show(v))

    def elem(self, base, idx, depth):
        if not sx.is_const(idx):
            raise Unresolved("element index is not a constant: %s" % sx.show(idx))
        i = _int(idx[1])
        kind, x = root_of(base)
        if kind == "list":
            if not 0 <= i < len(x):
                raise Unresolved("index %d outside a %d-element array" % (i, len(x)))
            return self.poly(x[i], depth + 1)
        return self.atom_of(x, i)


def storage_list(v):
    """element terms of a math object value (object{storage_=static_storage{impl_=array{...}}}) or of a bare array"""
    kind, x = root_of(v)
    if kind != "list":
        raise Unresolved("result is not built from an element list: %s" % sx.show(v))
    return x


def leibniz(n, entry):
    """determinant by the Leibniz formula; entry(r, c) -> Poly"""
    import itertools
    out = Poly()
    for perm in itertools.permutations(range(n)):
        inv = sum(1 for i in range(n) for j in range(i + 1, n) if perm[i] > perm[j])
        m = Poly.const(-1 if inv % 2 else 1)
        for r in range(n):
            m = m * entry(r, perm[r])
        out = out + m
    return out
