// Instantiation driver for C04 (optional / either / variant combinators) with opaque
// continuations, for const-lvalue, lvalue and rvalue arguments. Never linked or run.
#include "drv.hpp"
#include <fcppt/unit.hpp>
#include <fcppt/either/apply.hpp>
#include <fcppt/either/bind.hpp>
#include <fcppt/either/comparison.hpp>
#include <fcppt/either/construct.hpp>
#include <fcppt/either/error_from_optional.hpp>
#include <fcppt/either/failure_opt.hpp>
#include <fcppt/either/first_success.hpp>
#include <fcppt/either/from_optional.hpp>
#include <fcppt/either/join.hpp>
#include <fcppt/either/loop.hpp>
#include <fcppt/either/make_failure.hpp>
#include <fcppt/either/make_success.hpp>
#include <fcppt/either/map.hpp>
#include <fcppt/either/map_failure.hpp>
#include <fcppt/either/match.hpp>
#include <fcppt/either/object.hpp>
#include <fcppt/either/sequence.hpp>
#include <fcppt/either/success_opt.hpp>
#include <fcppt/either/to_exception.hpp>
#include <fcppt/either/try_call.hpp>
#include <fcppt/optional/alternative.hpp>
#include <fcppt/optional/apply.hpp>
#include <fcppt/optional/assign.hpp>
#include <fcppt/optional/bind.hpp>
#include <fcppt/optional/cat.hpp>
#include <fcppt/optional/combine.hpp>
#include <fcppt/optional/comparison.hpp>
#include <fcppt/optional/copy_value.hpp>
#include <fcppt/optional/deref.hpp>
#include <fcppt/optional/filter.hpp>
#include <fcppt/optional/from.hpp>
#include <fcppt/optional/from_pointer.hpp>
#include <fcppt/optional/join.hpp>
#include <fcppt/optional/make.hpp>
#include <fcppt/optional/make_if.hpp>
#include <fcppt/optional/map.hpp>
#include <fcppt/optional/maybe.hpp>
#include <fcppt/optional/maybe_multi.hpp>
#include <fcppt/optional/maybe_void.hpp>
#include <fcppt/optional/maybe_void_multi.hpp>
#include <fcppt/optional/object.hpp>
#include <fcppt/optional/reference.hpp>
#include <fcppt/optional/sequence.hpp>
#include <fcppt/optional/to_exception.hpp>
#include <fcppt/optional/to_pointer.hpp>
#include <fcppt/monad/bind.hpp>
#include <fcppt/optional/monad.hpp>
#include <fcppt/either/monad.hpp>
#include <fcppt/variant/apply.hpp>
#include <fcppt/variant/compare.hpp>
#include <fcppt/variant/comparison.hpp>
#include <fcppt/variant/holds_type.hpp>
#include <fcppt/variant/match.hpp>
#include <fcppt/variant/object.hpp>
#include <fcppt/variant/to_optional.hpp>
#include <fcppt/variant/to_optional_ref.hpp>
#include <stdexcept>
#include <string>
#include <vector>

namespace drv_oev
{
// distinct, mutually non-convertible payload types
struct A
{
  int a;
  bool operator==(A const &) const;
  bool operator<(A const &) const;
};
struct B
{
  int b;
  bool operator==(B const &) const;
  bool operator<(B const &) const;
};
struct C
{
  int c;
};
struct X
{
  int x;
  bool operator==(X const &) const;
};
struct exc
{
};

using oA = fcppt::optional::object<A>;
using oB = fcppt::optional::object<B>;
using ooA = fcppt::optional::object<oA>;
using eXA = fcppt::either::object<X, A>;
using eXB = fcppt::either::object<X, B>;
using eXeXA = fcppt::either::object<X, eXA>;
using vAB = fcppt::variant::object<A, B>;
using vABC = fcppt::variant::object<A, B, C>;
template <typename S>
using fn = drv::fn<S>;
using drv::clv;
using drv::lv;
using drv::make;

// ---- optional ---------------------------------------------------------------------------
DRV(opt_maybe)
{
  (void)fcppt::optional::maybe(clv<oA>(), clv<fn<B()>>(), clv<fn<B(A const &)>>());
  (void)fcppt::optional::maybe(lv<oA>(), clv<fn<B()>>(), clv<fn<B(A &)>>());
  (void)fcppt::optional::maybe(make<oA>(), clv<fn<B()>>(), clv<fn<B(A &&)>>());
}
DRV(opt_maybe_void)
{
  fcppt::optional::maybe_void(clv<oA>(), clv<fn<void(A const &)>>());
  fcppt::optional::maybe_void(lv<oA>(), clv<fn<void(A &)>>());
  fcppt::optional::maybe_void(make<oA>(), clv<fn<void(A &&)>>());
}
DRV(opt_from)
{
  (void)fcppt::optional::from(clv<oA>(), clv<fn<A()>>());
  (void)fcppt::optional::from(make<oA>(), clv<fn<A()>>());
}
DRV(opt_map)
{
  (void)fcppt::optional::map(clv<oA>(), clv<fn<B(A const &)>>());
  (void)fcppt::optional::map(lv<oA>(), clv<fn<B(A &)>>());
  (void)fcppt::optional::map(make<oA>(), clv<fn<B(A &&)>>());
}
DRV(opt_bind)
{
  (void)fcppt::optional::bind(clv<oA>(), clv<fn<oB(A const &)>>());
  (void)fcppt::optional::bind(lv<oA>(), clv<fn<oB(A &)>>());
  (void)fcppt::optional::bind(make<oA>(), clv<fn<oB(A &&)>>());
}
DRV(opt_join)
{
  (void)fcppt::optional::join(clv<ooA>());
  (void)fcppt::optional::join(make<ooA>());
}
DRV(opt_filter)
{
  (void)fcppt::optional::filter(clv<oA>(), clv<fn<bool(A const &)>>());
  (void)fcppt::optional::filter(make<oA>(), clv<fn<bool(A const &)>>());
}
DRV(opt_alternative)
{
  (void)fcppt::optional::alternative(clv<oA>(), clv<fn<oA()>>());
  (void)fcppt::optional::alternative(make<oA>(), clv<fn<oA()>>());
}
DRV(opt_combine)
{
  (void)fcppt::optional::combine(clv<oA>(), clv<oA>(), clv<fn<A(A const &, A const &)>>());
  (void)fcppt::optional::combine(make<oA>(), make<oA>(), clv<fn<A(A &&, A &&)>>());
}
DRV(opt_apply)
{
  (void)fcppt::optional::apply(clv<fn<C(A const &)>>(), clv<oA>());
  (void)fcppt::optional::apply(clv<fn<C(A const &, B const &)>>(), clv<oA>(), clv<oB>());
  (void)fcppt::optional::apply(clv<fn<C(A &&, B &&)>>(), make<oA>(), make<oB>());
  (void)fcppt::optional::apply(clv<fn<C(A &&, B &&, A &&)>>(), make<oA>(), make<oB>(), make<oA>());
}
DRV(opt_maybe_multi)
{
  (void)fcppt::optional::maybe_multi(clv<fn<C()>>(), clv<fn<C(A const &, B const &)>>(), clv<oA>(), clv<oB>());
  (void)fcppt::optional::maybe_multi(clv<fn<C()>>(), clv<fn<C(A &&, B &&)>>(), make<oA>(), make<oB>());
  fcppt::optional::maybe_void_multi(clv<fn<void(A const &, B const &)>>(), clv<oA>(), clv<oB>());
}
DRV(opt_make_if)
{
  (void)fcppt::optional::make_if(make<bool>(), clv<fn<A()>>());
}
DRV(opt_cat_sequence)
{
  (void)fcppt::optional::cat<std::vector<A>>(clv<std::vector<oA>>());
  (void)fcppt::optional::cat<std::vector<A>>(make<std::vector<oA>>());
  (void)fcppt::optional::sequence<std::vector<A>>(clv<std::vector<oA>>());
  (void)fcppt::optional::sequence<std::vector<A>>(make<std::vector<oA>>());
}
DRV(opt_to_exception)
{
  (void)fcppt::optional::to_exception(clv<oA>(), clv<fn<std::runtime_error()>>());
  (void)fcppt::optional::to_exception(make<oA>(), clv<fn<std::runtime_error()>>());
}
DRV(opt_misc)
{
  (void)fcppt::optional::copy_value(clv<fcppt::optional::reference<A>>());
  (void)fcppt::optional::deref(clv<fcppt::optional::object<A *>>());
  (void)fcppt::optional::from_pointer(make<A *>());
  (void)fcppt::optional::to_pointer(clv<fcppt::optional::reference<A>>());
  (void)fcppt::optional::assign(lv<oA>(), make<A>());
  (void)fcppt::optional::make(make<A>());
}
DRV(opt_comparison)
{
  (void)(clv<oA>() == clv<oA>());
  (void)(clv<oA>() != clv<oA>());
  (void)(clv<oA>() < clv<oA>());
}
// ---- either -----------------------------------------------------------------------------
DRV(eith_match)
{
  (void)fcppt::either::match(clv<eXA>(), clv<fn<C(X const &)>>(), clv<fn<C(A const &)>>());
  (void)fcppt::either::match(lv<eXA>(), clv<fn<C(X &)>>(), clv<fn<C(A &)>>());
  (void)fcppt::either::match(make<eXA>(), clv<fn<C(X &&)>>(), clv<fn<C(A &&)>>());
}
DRV(eith_map)
{
  (void)fcppt::either::map(clv<eXA>(), clv<fn<B(A const &)>>());
  (void)fcppt::either::map(make<eXA>(), clv<fn<B(A &&)>>());
  (void)fcppt::either::map_failure(clv<eXA>(), clv<fn<C(X const &)>>());
  (void)fcppt::either::map_failure(make<eXA>(), clv<fn<C(X &&)>>());
}
DRV(eith_bind)
{
  (void)fcppt::either::bind(clv<eXA>(), clv<fn<eXB(A const &)>>());
  (void)fcppt::either::bind(lv<eXA>(), clv<fn<eXB(A &)>>());
  (void)fcppt::either::bind(make<eXA>(), clv<fn<eXB(A &&)>>());
}
DRV(eith_join)
{
  (void)fcppt::either::join(clv<eXeXA>());
  (void)fcppt::either::join(make<eXeXA>());
}
DRV(eith_apply)
{
  (void)fcppt::either::apply(clv<fn<C(A const &)>>(), clv<eXA>());
  (void)fcppt::either::apply(clv<fn<C(A const &, B const &)>>(), clv<eXA>(), clv<eXB>());
  (void)fcppt::either::apply(clv<fn<C(A &&, B &&)>>(), make<eXA>(), make<eXB>());
  (void)fcppt::either::apply(clv<fn<C(A &&, B &&, A &&)>>(), make<eXA>(), make<eXB>(), make<eXA>());
}
DRV(eith_opt)
{
  (void)fcppt::either::from_optional(clv<oA>(), clv<fn<X()>>());
  (void)fcppt::either::from_optional(make<oA>(), clv<fn<X()>>());
  (void)fcppt::either::success_opt(clv<eXA>());
  (void)fcppt::either::success_opt(make<eXA>());
  (void)fcppt::either::failure_opt(clv<eXA>());
  (void)fcppt::either::failure_opt(make<eXA>());
  (void)fcppt::either::error_from_optional(clv<fcppt::optional::object<X>>());
  (void)fcppt::either::error_from_optional(make<fcppt::optional::object<X>>());
}
DRV(eith_try_call)
{
  (void)fcppt::either::try_call<exc>(clv<fn<A()>>(), clv<fn<X(exc const &)>>());
}
DRV(eith_to_exception)
{
  (void)fcppt::either::to_exception(clv<eXA>(), clv<fn<std::runtime_error(X const &)>>());
  (void)fcppt::either::to_exception(make<eXA>(), clv<fn<std::runtime_error(X &&)>>());
}
DRV(eith_construct)
{
  (void)fcppt::either::construct(make<bool>(), clv<fn<A()>>(), clv<fn<X()>>());
  (void)fcppt::either::make_success<X>(make<A>());
  (void)fcppt::either::make_failure<A>(make<X>());
}
DRV(eith_loops)
{
  (void)fcppt::either::sequence<std::vector<A>>(make<std::vector<eXA>>());
  (void)fcppt::either::first_success(clv<std::vector<fn<eXA()>>>());
  (void)fcppt::either::loop(clv<fn<eXA()>>(), clv<fn<void(A &&)>>());
}
DRV(eith_comparison)
{
  (void)(clv<eXA>() == clv<eXA>());
  (void)(clv<eXA>() != clv<eXA>());
}
// ---- variant ----------------------------------------------------------------------------
DRV(var_match)
{
  (void)fcppt::variant::match(clv<vAB>(), clv<fn<C(A const &)>>(), clv<fn<C(B const &)>>());
  (void)fcppt::variant::match(lv<vAB>(), clv<fn<C(A &)>>(), clv<fn<C(B &)>>());
  (void)fcppt::variant::match(make<vAB>(), clv<fn<C(A &&)>>(), clv<fn<C(B &&)>>());
  (void)fcppt::variant::match(
      clv<vABC>(), clv<fn<int(A const &)>>(), clv<fn<int(B const &)>>(), clv<fn<int(C const &)>>());
}
struct visitor
{
  C operator()(A const &) const;
  C operator()(B const &) const;
};
struct visitor2
{
  template <typename T1, typename T2>
  C operator()(T1 const &, T2 const &) const;
};
DRV(var_apply)
{
  (void)fcppt::variant::apply(clv<visitor>(), clv<vAB>());
  (void)fcppt::variant::apply(clv<visitor2>(), clv<vAB>(), clv<vAB>());
}
DRV(var_to_optional)
{
  (void)fcppt::variant::to_optional<A>(clv<vAB>());
  (void)fcppt::variant::to_optional<B>(make<vAB>());
  (void)fcppt::variant::to_optional_ref<A>(lv<vAB>());
  (void)fcppt::variant::to_optional_ref<A const>(clv<vAB>());
  (void)fcppt::variant::holds_type<A>(clv<vAB>());
  (void)fcppt::variant::holds_type<B>(clv<vAB>());
}
struct comparator
{
  template <typename T>
  bool operator()(T const &, T const &) const;
};
DRV(var_compare)
{
  (void)fcppt::variant::compare(clv<vAB>(), clv<vAB>(), clv<comparator>());
  (void)(clv<vAB>() == clv<vAB>());
  (void)(clv<vAB>() != clv<vAB>());
  (void)(clv<vAB>() < clv<vAB>());
}
// ---- monad ------------------------------------------------------------------------------
DRV(monad_bind)
{
  (void)fcppt::monad::bind(make<oA>(), clv<fn<oB(A &&)>>());
  (void)fcppt::monad::bind(make<eXA>(), clv<fn<eXB(A &&)>>());
}
}
