// Instantiation driver: fcppt/algorithm/*.hpp over std containers, fcppt arrays, int ranges,
// enum ranges, tuples and mpl lists. Parsed only; never linked or run.
#include "drv.hpp"
#include <fcppt/int_iterator_impl.hpp>
#include <fcppt/int_range_impl.hpp>
#include <fcppt/loop.hpp>
#include <fcppt/make_int_range.hpp>
#include <fcppt/make_int_range_count.hpp>
#include <fcppt/tag.hpp>
#include <fcppt/algorithm/all_of.hpp>
#include <fcppt/algorithm/binary_search.hpp>
#include <fcppt/algorithm/contains.hpp>
#include <fcppt/algorithm/contains_if.hpp>
#include <fcppt/algorithm/equal.hpp>
#include <fcppt/algorithm/equal_range.hpp>
#include <fcppt/algorithm/find_by_opt.hpp>
#include <fcppt/algorithm/find_if_opt.hpp>
#include <fcppt/algorithm/find_opt.hpp>
#include <fcppt/algorithm/fold.hpp>
#include <fcppt/algorithm/fold_break.hpp>
#include <fcppt/algorithm/generate_n.hpp>
#include <fcppt/algorithm/index_of.hpp>
#include <fcppt/algorithm/join_strings.hpp>
#include <fcppt/algorithm/loop.hpp>
#include <fcppt/algorithm/loop_break.hpp>
#include <fcppt/algorithm/loop_break_impl.hpp>
#include <fcppt/algorithm/loop_break_mpl.hpp>
#include <fcppt/algorithm/loop_break_tuple.hpp>
#include <fcppt/algorithm/map.hpp>
#include <fcppt/algorithm/map_array.hpp>
#include <fcppt/algorithm/map_concat.hpp>
#include <fcppt/algorithm/map_impl.hpp>
#include <fcppt/algorithm/map_iteration.hpp>
#include <fcppt/algorithm/map_iteration_second.hpp>
#include <fcppt/algorithm/map_optional.hpp>
#include <fcppt/algorithm/map_tuple.hpp>
#include <fcppt/algorithm/range_element_type.hpp>
#include <fcppt/algorithm/remove.hpp>
#include <fcppt/algorithm/remove_if.hpp>
#include <fcppt/algorithm/repeat.hpp>
#include <fcppt/algorithm/reverse.hpp>
#include <fcppt/algorithm/sequence_iteration.hpp>
#include <fcppt/algorithm/split_string.hpp>
#include <fcppt/algorithm/unique.hpp>
#include <fcppt/algorithm/unique_if.hpp>
#include <fcppt/algorithm/update_action.hpp>
#include <fcppt/array/object.hpp>
#include <fcppt/enum/make_range.hpp>
#include <fcppt/enum/make_range_start.hpp>
#include <fcppt/enum/make_range_start_end.hpp>
#include <fcppt/enum/iterator_impl.hpp>
#include <fcppt/enum/range_impl.hpp>
#include <fcppt/mpl/list/object.hpp>
#include <fcppt/optional/object.hpp>
#include <fcppt/tuple/object.hpp>
#include <fcppt/cyclic_iterator.hpp>
#include <fcppt/no_init.hpp>
#include <fcppt/reference.hpp>
#include <fcppt/array/append.hpp>
#include <fcppt/array/apply.hpp>
#include <fcppt/array/from_range.hpp>
#include <fcppt/array/get.hpp>
#include <fcppt/array/init.hpp>
#include <fcppt/array/join.hpp>
#include <fcppt/array/make.hpp>
#include <fcppt/array/map.hpp>
#include <fcppt/array/push_back.hpp>
#include <fcppt/container/join.hpp>
#include <fcppt/container/key_set.hpp>
#include <fcppt/container/map_values_copy.hpp>
#include <fcppt/container/map_values_ref.hpp>
#include <fcppt/container/set_difference.hpp>
#include <fcppt/container/set_intersection.hpp>
#include <fcppt/container/set_union.hpp>
#include <fcppt/iterator/adapt_range.hpp>
#include <fcppt/iterator/make_range.hpp>
#include <fcppt/iterator/range_impl.hpp>
#include <fcppt/iterator/range_comparison.hpp>
#include <fcppt/range/begin.hpp>
#include <fcppt/range/empty.hpp>
#include <fcppt/range/end.hpp>
#include <fcppt/range/from_pair.hpp>
#include <fcppt/range/singular.hpp>
#include <fcppt/range/size.hpp>
#include <fcppt/record/comparison.hpp>
#include <fcppt/record/element.hpp>
#include <fcppt/record/get.hpp>
#include <fcppt/record/init.hpp>
#include <fcppt/record/label_value_type.hpp>
#include <fcppt/record/make_label.hpp>
#include <fcppt/record/map.hpp>
#include <fcppt/record/multiply_disjoint.hpp>
#include <fcppt/record/object.hpp>
#include <fcppt/record/permute.hpp>
#include <fcppt/record/set.hpp>
#include <fcppt/tuple/apply.hpp>
#include <fcppt/tuple/concat.hpp>
#include <fcppt/tuple/from_array.hpp>
#include <fcppt/tuple/get.hpp>
#include <fcppt/tuple/init.hpp>
#include <fcppt/tuple/invoke.hpp>
#include <fcppt/tuple/make.hpp>
#include <fcppt/tuple/map.hpp>
#include <fcppt/tuple/push_back.hpp>
#include <array>
#include <cstddef>
#include <deque>
#include <list>
#include <map>
#include <set>
#include <string>
#include <unordered_map>
#include <utility>
#include <vector>

namespace drv_algorithms
{
enum class en
{
  e1,
  e2,
  e3,
  fcppt_maximum = e3
};

struct elem
{
  int a;
  long b;
};

using vec = std::vector<int>;
using lst = std::list<int>;
using deq = std::deque<int>;
using set = std::set<int>;
using map = std::map<int, int>;
using umap = std::unordered_map<int, int>;
using sarr = std::array<int, 3>;
using farr = fcppt::array::object<int, 3>;
using irange = fcppt::int_range<int>;
using erange = fcppt::enum_::range<en>;
using tup = fcppt::tuple::object<int, char, long>;
using mpl = fcppt::mpl::list::object<int, char, long>;
using pair = std::pair<int const, int>;
using strvec = std::vector<std::string>;

// polymorphic opaque functors (for tuples and mpl lists)
struct poly_pred
{
  template <typename T>
  bool operator()(T const &) const;
};
struct poly_body
{
  template <typename T>
  void operator()(T &&) const;
};
struct poly_loop
{
  template <typename T>
  fcppt::loop operator()(T &&) const;
};
struct poly_fold
{
  template <typename T>
  long operator()(T &&, long) const;
};
struct poly_fold_break
{
  template <typename T>
  std::pair<fcppt::loop, long> operator()(T &&, long) const;
};
struct poly_map
{
  template <typename T>
  long operator()(T &&) const;
};
}
using namespace drv_algorithms;
namespace alg = fcppt::algorithm;

// sequence-like sources with element type int
#define DRV_SEQ(M) M(vec) M(lst) M(deq) M(set) M(sarr) M(farr) M(irange)
// sources with forward (or better) iterators
#define DRV_FWD(M) M(vec) M(lst) M(deq) M(set) M(sarr) M(farr)
// mutable sequences that support erase / insert
#define DRV_MUT(M) M(vec) M(lst) M(deq)

// ---------------------------------------------------------------- all_of / contains_if / contains
#define M(S) \
  DRV(drv_alg_all_of_##S) { (void)alg::all_of(drv::clv<S>(), drv::clv<drv::fn<bool(int)>>()); } \
  DRV(drv_alg_contains_if_##S) \
  { \
    (void)alg::contains_if(drv::clv<S>(), drv::clv<drv::fn<bool(int)>>()); \
  } \
  DRV(drv_alg_contains_##S) { (void)alg::contains(drv::clv<S>(), drv::clv<int>()); }
DRV_SEQ(M)
#undef M

DRV(drv_alg_all_of_other)
{
  (void)alg::all_of(drv::clv<map>(), drv::clv<drv::fn<bool(pair const &)>>());
  (void)alg::all_of(drv::clv<erange>(), drv::clv<drv::fn<bool(en)>>());
  (void)alg::all_of(fcppt::enum_::make_range<en>(), drv::clv<drv::fn<bool(en)>>());
  (void)alg::all_of(drv::clv<tup>(), drv::clv<poly_pred>());
  (void)alg::all_of(mpl{}, drv::clv<poly_pred>());
  (void)alg::all_of(
      fcppt::make_int_range_count(drv::clv<unsigned>()), drv::clv<drv::fn<bool(unsigned)>>());
}
DRV(drv_alg_contains_if_other)
{
  (void)alg::contains_if(drv::clv<map>(), drv::clv<drv::fn<bool(pair const &)>>());
  (void)alg::contains_if(drv::clv<erange>(), drv::clv<drv::fn<bool(en)>>());
  (void)alg::contains_if(drv::clv<tup>(), drv::clv<poly_pred>());
  (void)alg::contains_if(mpl{}, drv::clv<poly_pred>());
}
DRV(drv_alg_contains_other)
{
  (void)alg::contains(drv::clv<erange>(), drv::clv<en>());
  (void)alg::contains(drv::clv<strvec>(), drv::clv<std::string>());
}

// ---------------------------------------------------------------- equal
DRV(drv_alg_equal)
{
  (void)alg::equal(drv::clv<vec>(), drv::clv<vec>());
  (void)alg::equal(drv::clv<vec>(), drv::clv<lst>());
  (void)alg::equal(drv::clv<deq>(), drv::clv<sarr>());
  (void)alg::equal(drv::clv<farr>(), drv::clv<set>());
  (void)alg::equal(drv::clv<irange>(), drv::clv<irange>());
  (void)alg::equal(drv::clv<erange>(), drv::clv<std::vector<en>>());
  (void)alg::equal(drv::clv<map>(), drv::clv<map>());
}

// ---------------------------------------------------------------- searching
#define M(S) \
  DRV(drv_alg_equal_range_##S) \
  { \
    (void)alg::equal_range(drv::lv<S>(), drv::clv<int>()); \
    (void)alg::equal_range(drv::clv<S>(), drv::clv<int>()); \
  } \
  DRV(drv_alg_binary_search_##S) \
  { \
    (void)alg::binary_search(drv::lv<S>(), drv::clv<int>()); \
    (void)alg::binary_search(drv::clv<S>(), drv::clv<int>()); \
  }
DRV_FWD(M)
#undef M

#define M(S) \
  DRV(drv_alg_find_opt_##S) \
  { \
    (void)alg::find_opt(drv::lv<S>(), drv::clv<int>()); \
    (void)alg::find_opt(drv::clv<S>(), drv::clv<int>()); \
  } \
  DRV(drv_alg_find_if_opt_##S) \
  { \
    (void)alg::find_if_opt(drv::lv<S>(), drv::clv<drv::fn<bool(int)>>()); \
    (void)alg::find_if_opt(drv::clv<S>(), drv::clv<drv::fn<bool(int)>>()); \
  } \
  DRV(drv_alg_find_by_opt_##S) \
  { \
    (void)alg::find_by_opt( \
        drv::lv<S>(), drv::clv<drv::fn<fcppt::optional::object<long>(int)>>()); \
    (void)alg::find_by_opt( \
        drv::clv<S>(), drv::clv<drv::fn<fcppt::optional::object<long>(int)>>()); \
    (void)alg::find_by_opt( \
        drv::make<S>(), drv::clv<drv::fn<fcppt::optional::object<long>(int)>>()); \
  }
DRV_SEQ(M)
#undef M

DRV(drv_alg_find_other)
{
  (void)alg::find_opt(drv::clv<erange>(), drv::clv<en>());
  (void)alg::find_if_opt(drv::clv<erange>(), drv::clv<drv::fn<bool(en)>>());
  (void)alg::find_if_opt(drv::lv<map>(), drv::clv<drv::fn<bool(pair const &)>>());
  (void)alg::find_by_opt(
      drv::lv<map>(), drv::clv<drv::fn<fcppt::optional::object<elem>(pair &)>>());
  (void)alg::find_by_opt(
      drv::clv<erange>(), drv::clv<drv::fn<fcppt::optional::object<long>(en)>>());
}

DRV(drv_alg_index_of)
{
  (void)alg::index_of(drv::clv<vec>(), drv::clv<int>());
  (void)alg::index_of(drv::clv<deq>(), drv::clv<int>());
  (void)alg::index_of(drv::clv<sarr>(), drv::clv<int>());
  (void)alg::index_of(drv::clv<farr>(), drv::clv<int>());
  (void)alg::index_of(drv::clv<strvec>(), drv::clv<std::string>());
}

// ---------------------------------------------------------------- loop / loop_break / fold
#define M(S) \
  DRV(drv_alg_loop_##S) \
  { \
    alg::loop(drv::lv<S>(), drv::clv<drv::fn<void(int)>>()); \
    alg::loop(drv::clv<S>(), drv::clv<drv::fn<void(int)>>()); \
    alg::loop(drv::make<S>(), drv::clv<drv::fn<void(int)>>()); \
  } \
  DRV(drv_alg_loop_break_##S) \
  { \
    alg::loop_break(drv::lv<S>(), drv::clv<drv::fn<fcppt::loop(int)>>()); \
    alg::loop_break(drv::clv<S>(), drv::clv<drv::fn<fcppt::loop(int)>>()); \
    alg::loop_break(drv::make<S>(), drv::clv<drv::fn<fcppt::loop(int)>>()); \
  } \
  DRV(drv_alg_fold_##S) \
  { \
    (void)alg::fold(drv::lv<S>(), drv::make<long>(), drv::make<drv::fn<long(int, long)>>()); \
    (void)alg::fold(drv::clv<S>(), drv::make<long>(), drv::make<drv::fn<long(int, long)>>()); \
    (void)alg::fold(drv::make<S>(), drv::make<long>(), drv::make<drv::fn<long(int, long)>>()); \
  } \
  DRV(drv_alg_fold_break_##S) \
  { \
    (void)alg::fold_break( \
        drv::lv<S>(), \
        drv::make<long>(), \
        drv::make<drv::fn<std::pair<fcppt::loop, long>(int, long)>>()); \
    (void)alg::fold_break( \
        drv::clv<S>(), \
        drv::make<long>(), \
        drv::make<drv::fn<std::pair<fcppt::loop, long>(int, long)>>()); \
    (void)alg::fold_break( \
        drv::make<S>(), \
        drv::make<long>(), \
        drv::make<drv::fn<std::pair<fcppt::loop, long>(int, long)>>()); \
  }
DRV_SEQ(M)
#undef M

DRV(drv_alg_loop_ref)
{
  alg::loop(drv::lv<vec>(), drv::clv<drv::fn<void(int &)>>());
  alg::loop(drv::lv<lst>(), drv::clv<drv::fn<void(int &)>>());
  alg::loop(drv::lv<farr>(), drv::clv<drv::fn<void(int &)>>());
  alg::loop(drv::make<std::vector<elem>>(), drv::clv<drv::fn<void(elem &)>>());
  alg::loop_break(drv::lv<vec>(), drv::clv<drv::fn<fcppt::loop(int &)>>());
  alg::loop_break(drv::make<std::vector<elem>>(), drv::clv<drv::fn<fcppt::loop(elem &)>>());
}

DRV(drv_alg_loop_map)
{
  alg::loop(drv::lv<map>(), drv::clv<drv::fn<void(pair &)>>());
  alg::loop(drv::clv<map>(), drv::clv<drv::fn<void(pair const &)>>());
  alg::loop(drv::make<map>(), drv::clv<drv::fn<void(pair &)>>());
  alg::loop_break(drv::lv<map>(), drv::clv<drv::fn<fcppt::loop(pair &)>>());
  alg::loop_break(drv::clv<map>(), drv::clv<drv::fn<fcppt::loop(pair const &)>>());
  (void)alg::fold(
      drv::clv<map>(), drv::make<long>(), drv::make<drv::fn<long(pair const &, long)>>());
  (void)alg::fold_break(
      drv::clv<map>(),
      drv::make<long>(),
      drv::make<drv::fn<std::pair<fcppt::loop, long>(pair const &, long)>>());
}

DRV(drv_alg_loop_enum_range)
{
  alg::loop(fcppt::enum_::make_range<en>(), drv::clv<drv::fn<void(en)>>());
  alg::loop(fcppt::enum_::make_range_start(drv::clv<en>()), drv::clv<drv::fn<void(en)>>());
  alg::loop(
      fcppt::enum_::make_range_start_end(drv::clv<en>(), drv::clv<en>()),
      drv::clv<drv::fn<void(en)>>());
  alg::loop(drv::clv<erange>(), drv::clv<drv::fn<void(en)>>());
  alg::loop_break(drv::clv<erange>(), drv::clv<drv::fn<fcppt::loop(en)>>());
  (void)alg::fold(drv::clv<erange>(), drv::make<long>(), drv::make<drv::fn<long(en, long)>>());
  (void)alg::fold_break(
      drv::clv<erange>(),
      drv::make<long>(),
      drv::make<drv::fn<std::pair<fcppt::loop, long>(en, long)>>());
}

DRV(drv_alg_loop_int_range)
{
  alg::loop(fcppt::make_int_range_count(drv::clv<int>()), drv::clv<drv::fn<void(int)>>());
  alg::loop(
      fcppt::make_int_range(drv::clv<unsigned>(), drv::clv<unsigned>()),
      drv::clv<drv::fn<void(unsigned)>>());
  alg::loop(
      fcppt::make_int_range_count(drv::clv<std::size_t>()),
      drv::clv<drv::fn<void(std::size_t)>>());
}

DRV(drv_alg_loop_tuple)
{
  alg::loop(drv::lv<tup>(), drv::clv<poly_body>());
  alg::loop(drv::clv<tup>(), drv::clv<poly_body>());
  alg::loop(drv::make<tup>(), drv::clv<poly_body>());
  alg::loop_break(drv::lv<tup>(), drv::clv<poly_loop>());
  alg::loop_break(drv::clv<tup>(), drv::clv<poly_loop>());
  alg::loop_break(drv::make<tup>(), drv::clv<poly_loop>());
  (void)alg::fold(drv::clv<tup>(), drv::make<long>(), drv::make<poly_fold>());
  (void)alg::fold(drv::make<tup>(), drv::make<long>(), drv::make<poly_fold>());
  (void)alg::fold_break(drv::clv<tup>(), drv::make<long>(), drv::make<poly_fold_break>());
  alg::loop(drv::clv<fcppt::tuple::object<>>(), drv::clv<poly_body>());
}

DRV(drv_alg_loop_mpl)
{
  alg::loop(mpl{}, drv::clv<poly_body>());
  alg::loop(drv::clv<mpl>(), drv::clv<poly_body>());
  alg::loop_break(mpl{}, drv::clv<poly_loop>());
  (void)alg::fold(mpl{}, drv::make<long>(), drv::make<poly_fold>());
  (void)alg::fold_break(mpl{}, drv::make<long>(), drv::make<poly_fold_break>());
  alg::loop(fcppt::mpl::list::object<>{}, drv::clv<poly_body>());
}

// ---------------------------------------------------------------- map family
#define M(S) \
  DRV(drv_alg_map_##S) \
  { \
    (void)alg::map<std::vector<long>>(drv::lv<S>(), drv::clv<drv::fn<long(int)>>()); \
    (void)alg::map<std::vector<long>>(drv::clv<S>(), drv::clv<drv::fn<long(int)>>()); \
    (void)alg::map<std::vector<long>>(drv::make<S>(), drv::clv<drv::fn<long(int)>>()); \
    (void)alg::map<std::list<long>>(drv::clv<S>(), drv::clv<drv::fn<long(int)>>()); \
    (void)alg::map<std::deque<long>>(drv::clv<S>(), drv::clv<drv::fn<long(int)>>()); \
    (void)alg::map<std::set<long>>(drv::clv<S>(), drv::clv<drv::fn<long(int)>>()); \
    (void)alg::map<std::map<int, long>>( \
        drv::clv<S>(), drv::clv<drv::fn<std::pair<int, long>(int)>>()); \
  } \
  DRV(drv_alg_map_concat_##S) \
  { \
    (void)alg::map_concat<vec>(drv::lv<S>(), drv::clv<drv::fn<vec(int)>>()); \
    (void)alg::map_concat<vec>(drv::clv<S>(), drv::clv<drv::fn<vec(int)>>()); \
    (void)alg::map_concat<vec>(drv::make<S>(), drv::clv<drv::fn<vec(int)>>()); \
    (void)alg::map_concat<lst>(drv::clv<S>(), drv::clv<drv::fn<lst(int)>>()); \
    (void)alg::map_concat<set>(drv::clv<S>(), drv::clv<drv::fn<set(int)>>()); \
  } \
  DRV(drv_alg_map_optional_##S) \
  { \
    (void)alg::map_optional<std::vector<long>>( \
        drv::lv<S>(), drv::clv<drv::fn<fcppt::optional::object<long>(int)>>()); \
    (void)alg::map_optional<std::vector<long>>( \
        drv::clv<S>(), drv::clv<drv::fn<fcppt::optional::object<long>(int)>>()); \
    (void)alg::map_optional<std::vector<long>>( \
        drv::make<S>(), drv::clv<drv::fn<fcppt::optional::object<long>(int)>>()); \
    (void)alg::map_optional<std::set<long>>( \
        drv::clv<S>(), drv::clv<drv::fn<fcppt::optional::object<long>(int)>>()); \
  }
DRV_SEQ(M)
#undef M

DRV(drv_alg_map_other)
{
  (void)alg::map<vec>(drv::clv<map>(), drv::clv<drv::fn<int(pair const &)>>());
  (void)alg::map<vec>(drv::lv<map>(), drv::clv<drv::fn<int(pair &)>>());
  (void)alg::map<vec>(drv::make<map>(), drv::clv<drv::fn<int(pair &&)>>());
  (void)alg::map<vec>(drv::clv<erange>(), drv::clv<drv::fn<int(en)>>());
  (void)alg::map<std::vector<en>>(fcppt::enum_::make_range<en>(), drv::clv<drv::fn<en(en)>>());
  (void)alg::map<std::vector<elem>>(
      drv::make<std::vector<elem>>(), drv::clv<drv::fn<elem(elem &&)>>());
  (void)alg::map<vec>(drv::clv<tup>(), drv::clv<poly_map>());
  (void)alg::map<std::vector<long>>(mpl{}, drv::clv<poly_map>());
  (void)alg::map<vec>(
      fcppt::make_int_range_count(drv::clv<unsigned>()), drv::clv<drv::fn<int(unsigned)>>());
}

DRV(drv_alg_map_array)
{
  (void)alg::map<fcppt::array::object<long, 3>>(drv::clv<farr>(), drv::clv<drv::fn<long(int)>>());
  (void)alg::map<fcppt::array::object<long, 3>>(drv::lv<farr>(), drv::clv<drv::fn<long(int &)>>());
  (void)alg::map<fcppt::array::object<long, 3>>(
      drv::make<farr>(), drv::clv<drv::fn<long(int &&)>>());
  (void)alg::map<fcppt::array::object<elem, 2>>(
      drv::make<fcppt::array::object<elem, 2>>(), drv::clv<drv::fn<elem(elem &&)>>());
}

DRV(drv_alg_map_tuple)
{
  (void)alg::map<fcppt::tuple::object<long, long, long>>(drv::clv<tup>(), drv::clv<poly_map>());
  (void)alg::map<fcppt::tuple::object<long, long, long>>(drv::lv<tup>(), drv::clv<poly_map>());
  (void)alg::map<fcppt::tuple::object<long, long, long>>(drv::make<tup>(), drv::clv<poly_map>());
}

DRV(drv_alg_map_concat_other)
{
  (void)alg::map_concat<vec>(drv::clv<map>(), drv::clv<drv::fn<vec(pair const &)>>());
  (void)alg::map_concat<vec>(drv::clv<erange>(), drv::clv<drv::fn<vec(en)>>());
  (void)alg::map_concat<strvec>(drv::clv<strvec>(), drv::clv<drv::fn<strvec(std::string)>>());
}

DRV(drv_alg_map_optional_other)
{
  (void)alg::map_optional<vec>(
      drv::clv<map>(), drv::clv<drv::fn<fcppt::optional::object<int>(pair const &)>>());
  (void)alg::map_optional<vec>(
      drv::clv<erange>(), drv::clv<drv::fn<fcppt::optional::object<int>(en)>>());
  (void)alg::map_optional<std::vector<elem>>(
      drv::make<std::vector<elem>>(),
      drv::clv<drv::fn<fcppt::optional::object<elem>(elem &)>>());
}

DRV(drv_alg_generate_n)
{
  (void)alg::generate_n<vec>(drv::clv<std::size_t>(), drv::clv<drv::fn<int()>>());
  (void)alg::generate_n<lst>(drv::clv<std::size_t>(), drv::clv<drv::fn<int()>>());
  (void)alg::generate_n<deq>(drv::clv<std::size_t>(), drv::clv<drv::fn<int()>>());
  (void)alg::generate_n<set>(drv::clv<std::size_t>(), drv::clv<drv::fn<int()>>());
  (void)alg::generate_n<std::vector<elem>>(drv::clv<std::size_t>(), drv::clv<drv::fn<elem()>>());
}

// ---------------------------------------------------------------- in-place updates
DRV(drv_alg_map_iteration)
{
  alg::map_iteration(
      drv::lv<map>(), drv::clv<drv::fn<alg::update_action(std::pair<int const, int> &)>>());
  alg::map_iteration(
      drv::lv<umap>(), drv::clv<drv::fn<alg::update_action(std::pair<int const, int> &)>>());
  alg::map_iteration(drv::lv<set>(), drv::clv<drv::fn<alg::update_action(int)>>());
  alg::map_iteration(
      drv::lv<std::multimap<int, int>>(),
      drv::clv<drv::fn<alg::update_action(std::pair<int const, int> &)>>());
}
DRV(drv_alg_map_iteration_second)
{
  alg::map_iteration_second(drv::lv<map>(), drv::clv<drv::fn<alg::update_action(int &)>>());
  alg::map_iteration_second(drv::lv<umap>(), drv::clv<drv::fn<alg::update_action(int &)>>());
  alg::map_iteration_second(
      drv::lv<std::map<int, elem>>(), drv::clv<drv::fn<alg::update_action(elem &)>>());
}

#define M(S) \
  DRV(drv_alg_sequence_iteration_##S) \
  { \
    alg::sequence_iteration(drv::lv<S>(), drv::clv<drv::fn<alg::update_action(int &)>>()); \
  } \
  DRV(drv_alg_remove_##S) { (void)alg::remove(drv::lv<S>(), drv::clv<int>()); } \
  DRV(drv_alg_remove_if_##S) \
  { \
    (void)alg::remove_if(drv::lv<S>(), drv::clv<drv::fn<bool(int)>>()); \
  } \
  DRV(drv_alg_unique_##S) { alg::unique(drv::lv<S>()); } \
  DRV(drv_alg_unique_if_##S) \
  { \
    alg::unique_if(drv::lv<S>(), drv::clv<drv::fn<bool(int, int)>>()); \
  }
DRV_MUT(M)
#undef M

DRV(drv_alg_remove_string)
{
  (void)alg::remove(drv::lv<strvec>(), drv::clv<std::string>());
  (void)alg::remove(drv::lv<std::string>(), drv::clv<char>());
  alg::unique(drv::lv<std::string>());
}

#define M(S) \
  DRV(drv_alg_reverse_##S) \
  { \
    (void)alg::reverse(drv::lv<S>()); \
    (void)alg::reverse(drv::clv<S>()); \
    (void)alg::reverse(drv::make<S>()); \
  }
M(vec) M(lst) M(deq) M(sarr) M(farr)
#undef M

DRV(drv_alg_reverse_string)
{
  (void)alg::reverse(drv::clv<std::string>());
  (void)alg::reverse(drv::make<std::string>());
}

DRV(drv_alg_repeat)
{
  alg::repeat(drv::clv<int>(), drv::clv<drv::fn<void()>>());
  alg::repeat(drv::clv<unsigned>(), drv::clv<drv::fn<void()>>());
  alg::repeat(drv::clv<std::size_t>(), drv::clv<drv::fn<void()>>());
  alg::repeat(drv::clv<signed char>(), drv::clv<drv::fn<void()>>());
}

// ---------------------------------------------------------------- strings
DRV(drv_alg_split_string)
{
  (void)alg::split_string(drv::clv<std::string>(), drv::clv<char>());
  (void)alg::split_string(drv::clv<std::wstring>(), drv::clv<wchar_t>());
}
DRV(drv_alg_join_strings)
{
  (void)alg::join_strings(drv::clv<strvec>(), drv::clv<std::string>());
  (void)alg::join_strings(drv::clv<std::list<std::string>>(), drv::clv<std::string>());
  (void)alg::join_strings(drv::clv<std::array<std::string, 3>>(), drv::clv<std::string>());
  (void)alg::join_strings(
      drv::clv<fcppt::array::object<std::string, 3>>(), drv::clv<std::string>());
  (void)alg::join_strings(drv::clv<std::set<std::string>>(), drv::clv<std::string>());
  (void)alg::join_strings(drv::clv<std::vector<std::wstring>>(), drv::clv<std::wstring>());
}

// range_element_type is an alias only
static_assert(std::is_same_v<alg::range_element_type<vec &>, int &>);
static_assert(std::is_same_v<alg::range_element_type<irange>, int>);

// ================================================================ fcppt::array
namespace drv_algorithms
{
struct index_fn
{
  template <std::size_t I>
  int operator()(std::integral_constant<std::size_t, I>) const;
};
struct elem_index_fn
{
  template <std::size_t I>
  elem operator()(std::integral_constant<std::size_t, I>) const;
};
// tuple::init: element I of tup
struct tup_index_fn
{
  template <std::size_t I>
  fcppt::tuple::element<I, tup> operator()(std::integral_constant<std::size_t, I>) const;
};
struct poly_apply2
{
  template <typename A, typename B>
  long operator()(A &&, B &&) const;
};

FCPPT_RECORD_MAKE_LABEL(int_label);
FCPPT_RECORD_MAKE_LABEL(elem_label);
FCPPT_RECORD_MAKE_LABEL(str_label);
using int_element = fcppt::record::element<int_label, int>;
using elem_element = fcppt::record::element<elem_label, elem>;
using str_element = fcppt::record::element<str_label, std::string>;
using rec_ie = fcppt::record::object<int_element, elem_element>;
using rec_ei = fcppt::record::object<elem_element, int_element>;
using rec_i = fcppt::record::object<int_element>;
using rec_s = fcppt::record::object<str_element>;
using rec_is = fcppt::record::object<int_element, str_element>;
using rec_si = fcppt::record::object<str_element, int_element>;

template <typename Record>
struct rec_init_fn
{
  template <typename Label, typename Type>
  fcppt::record::label_value_type<Record, Label>
  operator()(fcppt::record::element<Label, Type>) const;
};
}

DRV(drv_array_object)
{
  (void)farr(drv::make<int>(), drv::make<int>(), drv::make<int>());
  (void)farr(fcppt::no_init{});
  (void)drv::lv<farr>().get_unsafe(drv::clv<std::size_t>());
  (void)drv::clv<farr>().get_unsafe(drv::clv<std::size_t>());
  (void)drv::lv<farr>().begin();
  (void)drv::lv<farr>().end();
  (void)drv::clv<farr>().begin();
  (void)drv::clv<farr>().end();
  (void)drv::lv<farr>().data();
  (void)drv::clv<farr>().data();
  (void)drv::clv<farr>().size();
  (void)drv::lv<farr>().impl();
  (void)drv::clv<farr>().impl();
  (void)fcppt::array::get<0>(drv::lv<farr>());
  (void)fcppt::array::get<2>(drv::clv<farr>());
}
DRV(drv_array_init)
{
  (void)fcppt::array::init<farr>(drv::clv<index_fn>());
  (void)fcppt::array::init<fcppt::array::object<elem, 2>>(drv::clv<elem_index_fn>());
  (void)fcppt::array::init<fcppt::array::object<int, 0>>(drv::clv<index_fn>());
}
DRV(drv_array_map)
{
  (void)fcppt::array::map(drv::clv<farr>(), drv::clv<drv::fn<long(int)>>());
  (void)fcppt::array::map(drv::lv<farr>(), drv::clv<drv::fn<long(int &)>>());
  (void)fcppt::array::map(drv::make<farr>(), drv::clv<drv::fn<long(int &&)>>());
  (void)fcppt::array::map(
      drv::make<fcppt::array::object<elem, 2>>(), drv::clv<drv::fn<elem(elem &&)>>());
}
DRV(drv_array_join)
{
  (void)fcppt::array::join(drv::clv<farr>());
#ifdef DRV_LIBRARY_DEFECT_PROBES
  // array/append.hpp:56 uses array::size<Array1> without remove_cvref: ill-formed for lvalues
  (void)fcppt::array::join(drv::clv<farr>(), drv::clv<fcppt::array::object<int, 2>>());
#endif
  (void)fcppt::array::join(
      drv::make<farr>(), drv::lv<fcppt::array::object<int, 2>>(), drv::make<farr>());
  (void)fcppt::array::join(
      drv::make<fcppt::array::object<elem, 2>>(), drv::make<fcppt::array::object<elem, 1>>());
}
DRV(drv_array_append)
{
  (void)fcppt::array::append(drv::make<farr>(), drv::clv<fcppt::array::object<int, 2>>());
  (void)fcppt::array::append(drv::make<farr>(), drv::lv<fcppt::array::object<int, 2>>());
  (void)fcppt::array::append(drv::make<farr>(), drv::make<fcppt::array::object<int, 0>>());
#ifdef DRV_LIBRARY_DEFECT_PROBES
  // array/append.hpp:56 uses array::size<Array1> without remove_cvref: ill-formed for lvalues
  (void)fcppt::array::append(drv::clv<farr>(), drv::clv<fcppt::array::object<int, 2>>());
  (void)fcppt::array::append(drv::lv<farr>(), drv::make<fcppt::array::object<int, 0>>());
#endif
  (void)fcppt::array::append(
      drv::make<fcppt::array::object<elem, 2>>(), drv::make<fcppt::array::object<elem, 1>>());
}
DRV(drv_array_push_back)
{
  (void)fcppt::array::push_back(drv::make<farr>(), drv::make<int>());
  (void)fcppt::array::push_back(drv::make<farr>(), drv::clv<int>());
  (void)fcppt::array::push_back(drv::make<farr>(), drv::lv<int>());
#ifdef DRV_LIBRARY_DEFECT_PROBES
  // forwards an lvalue source to array::append (see above)
  (void)fcppt::array::push_back(drv::clv<farr>(), drv::clv<int>());
  (void)fcppt::array::push_back(drv::lv<farr>(), drv::lv<int>());
#endif
  (void)fcppt::array::push_back(drv::make<fcppt::array::object<elem, 2>>(), drv::make<elem>());
}
DRV(drv_array_from_range)
{
  (void)fcppt::array::from_range<3>(drv::clv<vec>());
  (void)fcppt::array::from_range<3>(drv::lv<vec>());
  (void)fcppt::array::from_range<3>(drv::make<vec>());
  (void)fcppt::array::from_range<2>(drv::make<std::vector<elem>>());
  (void)fcppt::array::from_range<3>(drv::clv<deq>());
  (void)fcppt::array::from_range<3>(drv::clv<sarr>());
#ifdef DRV_LIBRARY_DEFECT_PROBES
  // array/from_range.hpp:42 uses operator[], which fcppt::array::object does not have
  (void)fcppt::array::from_range<3>(drv::clv<farr>());
#endif
}
DRV(drv_array_apply)
{
  (void)fcppt::array::apply(drv::clv<drv::fn<long(int)>>(), drv::clv<farr>());
  (void)fcppt::array::apply(
      drv::clv<drv::fn<long(int, int &)>>(), drv::clv<farr>(), drv::lv<farr>());
  (void)fcppt::array::apply(
      drv::clv<drv::fn<elem(int, int &&, elem &&)>>(),
      drv::clv<farr>(),
      drv::make<farr>(),
      drv::make<fcppt::array::object<elem, 3>>());
}
DRV(drv_array_make)
{
  (void)fcppt::array::make(drv::clv<int>());
  (void)fcppt::array::make(drv::clv<int>(), drv::make<int>(), drv::lv<int>());
  (void)fcppt::array::make(drv::make<elem>(), drv::make<elem>());
}

// ================================================================ fcppt::tuple
DRV(drv_tuple_object)
{
  (void)tup(drv::make<int>(), drv::make<char>(), drv::make<long>());
  (void)drv::lv<tup>().impl();
  (void)drv::clv<tup>().impl();
  (void)fcppt::tuple::get<0>(drv::lv<tup>());
  (void)fcppt::tuple::get<1>(drv::clv<tup>());
  (void)fcppt::tuple::get<2>(drv::clv<tup>());
}
DRV(drv_tuple_map)
{
  (void)fcppt::tuple::map(drv::clv<tup>(), drv::clv<poly_map>());
  (void)fcppt::tuple::map(drv::lv<tup>(), drv::clv<poly_map>());
  (void)fcppt::tuple::map(drv::make<tup>(), drv::clv<poly_map>());
  (void)fcppt::tuple::map(drv::clv<fcppt::tuple::object<>>(), drv::clv<poly_map>());
}
DRV(drv_tuple_concat)
{
  (void)fcppt::tuple::concat(drv::make<tup>(), drv::make<fcppt::tuple::object<elem>>());
  (void)fcppt::tuple::concat(drv::make<tup>());
  (void)fcppt::tuple::concat(
      drv::make<tup>(), drv::make<fcppt::tuple::object<>>(), drv::make<tup>());
}
DRV(drv_tuple_push_back)
{
  (void)fcppt::tuple::push_back(drv::clv<tup>(), drv::clv<elem>());
  (void)fcppt::tuple::push_back(drv::make<tup>(), drv::make<elem>());
  (void)fcppt::tuple::push_back(drv::lv<tup>(), drv::lv<int>());
  (void)fcppt::tuple::push_back(drv::make<fcppt::tuple::object<>>(), drv::make<int>());
}
DRV(drv_tuple_init)
{
  (void)fcppt::tuple::init<tup>(drv::clv<tup_index_fn>());
  (void)fcppt::tuple::init<fcppt::tuple::object<int, int>>(drv::clv<index_fn>());
  (void)fcppt::tuple::init<fcppt::tuple::object<>>(drv::clv<index_fn>());
}
DRV(drv_tuple_apply)
{
  (void)fcppt::tuple::apply(drv::clv<poly_apply2>(), drv::make<tup>(), drv::make<tup>());
#ifdef DRV_LIBRARY_DEFECT_PROBES
  // tuple/apply.hpp:45 expands a pack into std::is_same_v<...>: only exactly two tuples compile
  (void)fcppt::tuple::apply(drv::clv<poly_map>(), drv::make<tup>());
#endif
  (void)fcppt::tuple::apply(drv::clv<poly_apply2>(), drv::make<tup>(), drv::lv<tup>());
#ifdef DRV_LIBRARY_DEFECT_PROBES
  // tuple/apply_result.hpp:27 uses tuple::size<front<Tuples...>> without remove_cvref:
  // no viable overload when the first tuple is an lvalue
  (void)fcppt::tuple::apply(drv::clv<poly_map>(), drv::clv<tup>());
  (void)fcppt::tuple::apply(drv::clv<poly_apply2>(), drv::clv<tup>(), drv::lv<tup>());
#endif
}
DRV(drv_tuple_invoke)
{
  (void)fcppt::tuple::invoke(drv::clv<drv::fn<long(int, char, long)>>(), drv::clv<tup>());
  (void)fcppt::tuple::invoke(drv::clv<drv::fn<long(int, char, long)>>(), drv::lv<tup>());
#ifdef DRV_LIBRARY_DEFECT_PROBES
  // tuple/invoke.hpp:32 checks invocability with prvalue element types even for lvalue tuples
  (void)fcppt::tuple::invoke(drv::clv<drv::fn<long(int &, char &, long &)>>(), drv::lv<tup>());
#endif
  (void)fcppt::tuple::invoke(drv::clv<drv::fn<long(int &&, char &&, long &&)>>(), drv::make<tup>());
  fcppt::tuple::invoke(drv::clv<drv::fn<void()>>(), drv::make<fcppt::tuple::object<>>());
}
DRV(drv_tuple_from_array)
{
  (void)fcppt::tuple::from_array(drv::clv<farr>());
  (void)fcppt::tuple::from_array(drv::lv<farr>());
  (void)fcppt::tuple::from_array(drv::make<farr>());
  (void)fcppt::tuple::from_array(drv::make<fcppt::array::object<elem, 2>>());
}
DRV(drv_tuple_make)
{
  (void)fcppt::tuple::make();
  (void)fcppt::tuple::make(drv::clv<int>(), drv::make<elem>(), drv::lv<std::string>());
}

// ================================================================ fcppt::record
DRV(drv_record_object)
{
  (void)rec_ie(int_label{} = drv::make<int>(), elem_label{} = drv::make<elem>());
  (void)rec_ie(elem_label{} = drv::make<elem>(), int_label{} = drv::make<int>());
  (void)rec_is(int_label{} = drv::clv<int>(), str_label{} = drv::clv<std::string>());
  (void)fcppt::record::get<int_label>(drv::clv<rec_ie>());
  (void)fcppt::record::get<elem_label>(drv::lv<rec_ie>());
  fcppt::record::set<int_label>(drv::lv<rec_ie>(), drv::make<int>());
  fcppt::record::set<str_label>(drv::lv<rec_is>(), drv::make<std::string>());
  (void)drv::clv<rec_ie>().get<int_label>();
  (void)drv::lv<rec_ie>().get<elem_label>();
  drv::lv<rec_ie>().set<int_label>(drv::make<int>());
  (void)drv::lv<rec_ie>().impl();
  (void)drv::clv<rec_ie>().impl();
}
DRV(drv_record_permute)
{
  (void)fcppt::record::permute<rec_ei>(drv::clv<rec_ie>());
  (void)fcppt::record::permute<rec_ei>(drv::lv<rec_ie>());
  (void)fcppt::record::permute<rec_ei>(drv::make<rec_ie>());
  (void)fcppt::record::permute<rec_si>(drv::make<rec_is>());
  (void)fcppt::record::permute<rec_i>(drv::make<rec_i>());
}
DRV(drv_record_multiply_disjoint)
{
  (void)fcppt::record::multiply_disjoint(drv::clv<rec_i>(), drv::clv<rec_s>());
  (void)fcppt::record::multiply_disjoint(drv::make<rec_i>(), drv::make<rec_s>());
  (void)fcppt::record::multiply_disjoint(drv::lv<rec_s>(), drv::make<rec_ie>());
  (void)fcppt::record::multiply_disjoint(drv::make<rec_ie>(), drv::clv<rec_s>());
}
DRV(drv_record_map)
{
#ifdef DRV_LIBRARY_DEFECT_PROBES
  // record/map_result.hpp:27 passes Record (a reference type) to record::map_elements /
  // element_vector without remove_cvref: no viable overload for lvalue records
  (void)fcppt::record::map(drv::clv<rec_ie>(), drv::clv<poly_map>());
  (void)fcppt::record::map(drv::lv<rec_ie>(), drv::clv<poly_map>());
#endif
  (void)fcppt::record::map(drv::make<rec_ie>(), drv::clv<poly_map>());
  (void)fcppt::record::map(drv::make<rec_is>(), drv::clv<poly_map>());
}
DRV(drv_record_init)
{
  (void)fcppt::record::init<rec_ie>(drv::clv<rec_init_fn<rec_ie>>());
  (void)fcppt::record::init<rec_is>(drv::clv<rec_init_fn<rec_is>>());
  (void)fcppt::record::init<rec_i>(drv::clv<rec_init_fn<rec_i>>());
}
DRV(drv_record_comparison)
{
  (void)(drv::clv<rec_is>() == drv::clv<rec_is>());
  (void)(drv::clv<rec_is>() != drv::clv<rec_is>());
  (void)(drv::clv<rec_is>() == drv::clv<rec_si>());
  (void)(drv::clv<rec_is>() != drv::clv<rec_si>());
  (void)(drv::clv<rec_i>() == drv::clv<rec_i>());
}

// ================================================================ fcppt::container
DRV(drv_container_join)
{
  (void)fcppt::container::join(drv::clv<vec>());
  (void)fcppt::container::join(drv::clv<vec>(), drv::clv<vec>());
  (void)fcppt::container::join(drv::make<vec>(), drv::make<vec>(), drv::lv<vec>());
  (void)fcppt::container::join(drv::lv<lst>(), drv::make<lst>());
  (void)fcppt::container::join(drv::make<deq>(), drv::clv<deq>());
  (void)fcppt::container::join(drv::make<set>(), drv::clv<set>());
  (void)fcppt::container::join(drv::make<map>(), drv::clv<map>(), drv::make<map>());
  (void)fcppt::container::join(drv::make<std::vector<elem>>(), drv::make<std::vector<elem>>());
  (void)fcppt::container::join(drv::make<std::string>(), drv::clv<std::string>());
}
DRV(drv_container_set_ops)
{
  (void)fcppt::container::set_union(drv::clv<set>(), drv::clv<set>());
  (void)fcppt::container::set_intersection(drv::clv<set>(), drv::clv<set>());
  (void)fcppt::container::set_difference(drv::clv<set>(), drv::clv<set>());
  (void)fcppt::container::set_union(
      drv::clv<std::set<std::string>>(), drv::clv<std::set<std::string>>());
  (void)fcppt::container::set_intersection(
      drv::clv<std::set<std::string>>(), drv::clv<std::set<std::string>>());
  (void)fcppt::container::set_difference(
      drv::clv<std::set<std::string>>(), drv::clv<std::set<std::string>>());
}
DRV(drv_container_key_set)
{
  (void)fcppt::container::key_set<set>(drv::clv<map>());
  (void)fcppt::container::key_set<set>(drv::clv<umap>());
  (void)fcppt::container::key_set<std::set<std::string>>(
      drv::clv<std::map<std::string, int>>());
}
DRV(drv_container_map_values)
{
  (void)fcppt::container::map_values_copy<vec>(drv::clv<map>());
  (void)fcppt::container::map_values_copy<lst>(drv::clv<umap>());
  (void)fcppt::container::map_values_copy<std::vector<elem>>(drv::clv<std::map<int, elem>>());
  (void)fcppt::container::map_values_ref<std::vector<fcppt::reference<int>>>(drv::lv<map>());
  (void)fcppt::container::map_values_ref<std::vector<fcppt::reference<int const>>>(
      drv::clv<map>());
  (void)fcppt::container::map_values_ref<std::vector<fcppt::reference<elem>>>(
      drv::lv<std::map<int, elem>>());
}

// ================================================================ fcppt::range
#define M(S) \
  DRV(drv_range_##S) \
  { \
    (void)fcppt::range::singular(drv::clv<S>()); \
    (void)fcppt::range::size(drv::clv<S>()); \
    (void)fcppt::range::empty(drv::clv<S>()); \
    (void)fcppt::range::begin(drv::lv<S>()); \
    (void)fcppt::range::begin(drv::clv<S>()); \
    (void)fcppt::range::end(drv::lv<S>()); \
    (void)fcppt::range::end(drv::clv<S>()); \
  }
M(vec) M(lst) M(deq) M(set) M(map) M(sarr) M(farr)
#undef M

DRV(drv_range_int_enum)
{
  (void)fcppt::range::size(drv::clv<irange>());
  (void)fcppt::range::empty(drv::clv<irange>());
  (void)fcppt::range::begin(drv::clv<irange>());
  (void)fcppt::range::end(drv::clv<irange>());
  (void)fcppt::range::size(drv::clv<erange>());
  (void)fcppt::range::empty(drv::clv<erange>());
  (void)fcppt::range::begin(drv::clv<erange>());
  (void)fcppt::range::end(drv::clv<erange>());
  (void)fcppt::range::begin(drv::lv<int[3]>());
  (void)fcppt::range::end(drv::lv<int[3]>());
}
DRV(drv_range_from_pair)
{
  (void)fcppt::range::from_pair(drv::clv<std::pair<vec::iterator, vec::iterator>>());
  (void)fcppt::range::from_pair(drv::clv<std::pair<set::const_iterator, set::const_iterator>>());
  (void)fcppt::range::from_pair(drv::lv<std::multimap<int, int>>().equal_range(drv::clv<int>()));
}

// ================================================================ int_range / enum range
DRV(drv_int_range)
{
  auto const r(fcppt::make_int_range(drv::clv<int>(), drv::clv<int>()));
  (void)r.size();
  for (int const i : r)
  {
    (void)i;
  }
  auto it(r.begin());
  (void)*it;
  ++it;
  (void)it++;
  (void)(it == r.end());
  (void)(it != r.end());
  it.increment();
  (void)it.dereference();
  (void)it.equal(r.end());
  (void)irange(drv::make<int>(), drv::make<int>());
  (void)fcppt::int_iterator<int>(drv::make<int>());
  (void)fcppt::make_int_range_count(drv::clv<int>());
}
#define M(T) \
  { \
    auto const r(fcppt::make_int_range(drv::clv<T>(), drv::clv<T>())); \
    (void)r.size(); \
    for (T const i : r) \
    { \
      (void)i; \
    } \
    (void)fcppt::make_int_range_count(drv::clv<T>()).size(); \
  }
DRV(drv_int_range_registry) { DRV_FOR_INTEGERS(M) }
#undef M

DRV(drv_enum_range)
{
  auto const r(fcppt::enum_::make_range<en>());
  (void)r.size();
  for (en const e : r)
  {
    (void)e;
  }
  auto it(r.begin());
  (void)*it;
  ++it;
  (void)it++;
  (void)(it == r.end());
  (void)(it != r.end());
  it.increment();
  (void)it.dereference();
  (void)it.equal(r.end());
  (void)fcppt::enum_::make_range_start(drv::clv<en>());
  (void)fcppt::enum_::make_range_start_end(drv::clv<en>(), drv::clv<en>());
  (void)erange(drv::make<erange::size_type>(), drv::make<erange::size_type>());
}

// ================================================================ iterator::range
DRV(drv_iterator_range)
{
  (void)fcppt::iterator::make_range(drv::clv<vec::iterator>(), drv::clv<vec::iterator>());
  (void)fcppt::iterator::make_range(
      drv::clv<lst::const_iterator>(), drv::clv<lst::const_iterator>());
  auto const r(fcppt::iterator::adapt_range(drv::lv<vec>()));
  (void)r.begin();
  (void)r.end();
  for (int &i : r)
  {
    (void)i;
  }
  (void)fcppt::iterator::adapt_range(drv::clv<vec>());
  (void)fcppt::iterator::adapt_range(drv::lv<set>());
  (void)fcppt::iterator::adapt_range(drv::clv<farr>());
  (void)fcppt::iterator::range<int *>(drv::make<int *>(), drv::make<int *>());
  (void)(r == r);
  (void)(r != r);
}

// ================================================================ cyclic_iterator
DRV(drv_cyclic_iterator_random_access)
{
  using iterator = fcppt::cyclic_iterator<vec::const_iterator>;
  (void)iterator();
  iterator it(
      drv::clv<vec::const_iterator>(),
      iterator::boundary{drv::make<vec::const_iterator>(), drv::make<vec::const_iterator>()});
  (void)it.get_boundary();
  (void)it.get();
  it.advance(drv::clv<iterator::difference_type>());
  it.increment();
  it.decrement();
  (void)it.equal(drv::clv<iterator>());
  (void)it.dereference();
  (void)it.distance_to(drv::clv<iterator>());
  (void)*it;
  ++it;
  --it;
  (void)it++;
  (void)it--;
  it += drv::clv<iterator::difference_type>();
  it -= drv::clv<iterator::difference_type>();
  (void)(it + drv::clv<iterator::difference_type>());
  (void)(it - drv::clv<iterator::difference_type>());
  (void)(it - drv::clv<iterator>());
  (void)(it == drv::clv<iterator>());
  (void)(it != drv::clv<iterator>());
  (void)(it < drv::clv<iterator>());
  (void)it[drv::clv<iterator::difference_type>()];
}
DRV(drv_cyclic_iterator_bidirectional)
{
  using iterator = fcppt::cyclic_iterator<lst::iterator>;
  (void)iterator();
  iterator it(
      drv::clv<lst::iterator>(),
      iterator::boundary{drv::make<lst::iterator>(), drv::make<lst::iterator>()});
  (void)it.get_boundary();
  (void)it.get();
  it.increment();
  it.decrement();
  (void)it.equal(drv::clv<iterator>());
  (void)it.dereference();
  (void)*it;
  ++it;
  --it;
  (void)(it == drv::clv<iterator>());
}
DRV(drv_cyclic_iterator_array)
{
  using iterator = fcppt::cyclic_iterator<farr::const_iterator>;
  iterator it(
      drv::clv<farr>().begin(), iterator::boundary{drv::clv<farr>().begin(), drv::clv<farr>().end()});
  ++it;
  --it;
  it += 2;
  it -= 300;
  (void)*it;
  (void)it.get();
}
#ifdef DRV_LIBRARY_DEFECT_PROBES
// converting constructor / assignment (iterator -> const_iterator)
DRV(drv_cyclic_iterator_convert)
{
  using iterator = fcppt::cyclic_iterator<vec::iterator>;
  using const_iterator = fcppt::cyclic_iterator<vec::const_iterator>;
  const_iterator it(drv::clv<iterator>());
  it = drv::clv<iterator>();
}
#endif
