#include <fcppt/parse/char_set.hpp>
#include <fcppt/parse/complement_impl.hpp>
#include <fcppt/parse/operators/complement.hpp>
#include <fcppt/parse/parse_string.hpp>
#include <fcppt/parse/error.hpp>
#include <fcppt/either/match.hpp>
#include <iostream>
#include <string>
int main()
{
  auto const cs{fcppt::parse::char_set{'a'}};
  auto const not_a{~fcppt::parse::char_set{'a'}};
  auto msg = [](auto const &r) { return fcppt::either::match(r, [](fcppt::parse::error<char> const &e) { return e.get(); }, [](auto const &) { return std::string{"<success>"}; }); };
  std::string const m1{msg(fcppt::parse::parse_string(cs, std::string{"b"}))};
  std::string const m2{msg(fcppt::parse::parse_string(not_a, std::string{"a"}))};
  std::cout << "char_set mismatch:   " << m1 << "\ncomplement mismatch: " << m2 << "\n";
  return (m1.find("Line") != std::string::npos) == (m2.find("Line") != std::string::npos) ? 0 : 1;
}
