"""Finite abstract domain O: weak orders of k symbolic scalars (DESIGN.md §4.4).

For code that touches its scalars only through <, <=, ==, min, max, the result depends only on
the order type of the operands; enumerating all weak orders (13 for 3 scalars, 75 for 4) is exact
for every totally ordered value type.
"""
import itertools

from . import sx


def weak_orders(k):
    """all rank vectors r in {0..k-1}^k whose image is an initial segment {0..m}"""
    out = []
    for r in itertools.product(range(k), repeat=k):
        m = max(r)
        if set(r) == set(range(m + 1)):
            out.append(r)
    return out


def make_oracle(rank_of):
    """rank_of: function term -> rank (int) or None. Decides ('cmp', op, x, y) atoms."""
    def oracle(it, atom):
        if isinstance(atom, tuple) and atom and atom[0] == "cmp":
            a, b = rank_of(atom[2]), rank_of(atom[3])
            if a is None or b is None:
                return None
            op = atom[1]
            return {"==": a == b, "!=": a != b, "<": a < b, "<=": a <= b, ">": a > b, ">=": a >= b}[op]
        return None
    return oracle


def rank_by_show(names, ranks):
    """rank function keyed by sx.show(term)"""
    table = dict(zip(names, ranks))

    def rank_of(term):
        return table.get(sx.show(term))
    return rank_of
